"""C02 — the reconstructed density matrix is a physical state (front end N)."""
import numpy as np
import torch

from qv import alg, native as N, symtensor as st
from qv.alg import ZERO, ONE, I
from contracts import rbm as R

LEVEL = "proof"
MANIFEST = {
    "engine": "qv-native+qv-gen",
    "category": "proof",
    "technique": "contracts on the real functions, executed on symbolic real parameters; obligations discharged by exp-polynomial normal form and z3",
    "text": "PurificationRBM.effective_energy (both branches), gamma (three call forms), DensityMatrix.pi, rho (full matrix, paired vector, single element, vp=None), probability, normalization are each run on symbolic parameters and compared entry for entry with specs built from the joint energy E(v,h,a): rho must equal the partial trace over the auxiliary units of the purified two-network state. Hermiticity, PSD (x^dagger rho x is a sum of squared moduli), diagonal == probability, trace == normalization and agreement of the call forms are lemmas over those specs. Additionally (front end G) PurificationRBM.effective_energy / partition / mixing_term / gamma and DensityMatrix.pi / rho / probability are executed on tensors of symbolic shape and equal the closed forms for every nv, nh, na and batch size; lean/Marginals.lean proves for every number of auxiliary units that exponentiating pi's per-unit (log-modulus, argument) pairs gives the sum over all auxiliary configurations.",
    "note": "floats as reals; phase-network auxiliary bias held at 0 as the property states; 1+exp(x+iy) != 0 (generic position) wherever the code takes log/atan2 of it; shapes enumerated (quick: 4 architectures up to 2x2x2, thorough up to 3x3x3 plus slices of 4), values unbounded; the shape-generic part (front end G) holds for all sizes and values, equalities decided by tensor-algebra normal form (sound, incomplete: a miss is undecided, never a violation without a replayed witness)",
}
EXPLANATION = "rho == sum_a Psi(sigma,a) conj Psi(sigma',a) with Psi = sqrt(P_lambda(sigma,a)) cis(1/2 log P_mu(sigma,a)); all hidden / auxiliary configurations expanded"
TRUSTED = ["sqrt of a product of positive factors is the product of their square roots (each factorisation is itself an obligation)"]


def configs(tier):
    if tier == "quick":
        archs = [(1, 1, 1), (2, 1, 2), (2, 2, 1), (1, 2, 2)]
    else:
        archs = [(a, b, c) for a in (1, 2, 3) for b in (1, 2, 3) for c in (1, 2, 3)] + [(2, 4, 2), (2, 2, 4), (4, 1, 1), (1, 4, 4)]
    hist = [{"nv": 2, "nh": 1, "na": 2, "grad": "off"}, {"nv": 1, "nh": 1, "na": 1, "grad": "off"}, {"nv": 2, "nh": 1, "na": 2, "via": "deepcopy"}, {"nv": 1, "nh": 1, "na": 1, "via": "pickle"}]
    return [{"nv": a, "nh": b, "na": c} for (a, b, c) in archs] + hist + [{"generic": "every shape"}, {"lean": "size-generic lemmas"}, {"independence": "mixed"}] + \
        [{"callee": "indexing", "size": s} for s in (1, 2, 3, 4)]


def canaries(tier):
    return [({"nv": 2, "nh": 1, "na": 1}, "spec-conjugates-wrong-side"),
            ({"nv": 1, "nh": 1, "na": 2}, "spec-drops-aux-bias"),
            ({"generic": "every shape"}, "generic-wrong-contract")]


def Psi(am, ph, v, a, ctx=None, tag=""):
    """Purified amplitude Psi(sigma,a) = sqrt(P_lambda(sigma,a)) * cis(1/2 log P_mu(sigma,a)),
    built from the factorised marginal (factorisation proved as its own obligation)."""
    fa = R.factors_p_va(am, v, a)
    fp = R.factors_p_va(ph, v, a)
    amp = ONE
    for f in fa:
        amp = amp * R.factor_sqrt(f)
    cph = ONE
    for f in fp:
        cph = cph * R.factor_halflog_cis(f)
    return amp * cph


def run_config(ctx, cfg):
    if cfg.get("callee"):
        # the basis over which the statements of this property are summed is generate_hilbert_space's result: its
        # contract (C19: row k is the expansion of k, also after a caller modified an earlier result) is shared here
        from lemmas import C19
        return C19._indexing(ctx, {"part": "indexing", "size": cfg["size"]})
    if cfg.get("independence"):
        # the amplitude and the phase network are independent objects on every construction route (also module=): what one
        # network holds never follows the other
        from lemmas import C20
        return C20._module(ctx, {"kind": cfg["independence"]})
    if cfg.get("lean"):
        from contracts import leanlink
        return leanlink.run(ctx, "C02")
    if cfg.get("generic"):
        from contracts import gsets
        return gsets.run(ctx, "C02")
    from drivers import common as _DC
    _DC.VIA[0] = cfg.get("via")        # the object under contract is reached as a copy of another one (drivers/common.copied)
    _DC.SYM_ORIG[0] = True
    from drivers import common as DC
    nv, nh, na = cfg["nv"], cfg["nh"], cfg["na"]
    canary = getattr(ctx, "canary", None)
    state = DC.make_state("mixed", nv, nh, na)
    N.symbolize(state.rbm_am, "am")
    N.symbolize(state.rbm_ph, "ph", zero=("aux_bias",))
    am, ph = R.params_of(state.rbm_am), R.params_of(state.rbm_ph)
    am_spec = am
    if canary == "spec-drops-aux-bias":
        am_spec = dict(am)
        ab = am["aux_bias"].copy()
        ab[0] = ZERO
        am_spec["aux_bias"] = ab
    space = state.generate_hilbert_space(nv)
    D = 2 ** nv
    vs = R.bits(nv)
    auxs = R.bits(na)
    st.reset_logs()

    # ---- spec factorisation obligations: prod(factors) == sum_h exp(-E(v,h,a))
    for tag, par in (("am", am), ("ph", ph)):
        for r, v in enumerate(vs):
            for ai, a in enumerate(auxs):
                prod = ONE
                for f in R.factors_p_va(par, v, a):
                    prod = prod * R.factor_value(f)
                ctx.eq("spec-factorisation/%s[row=%d aux=%d]" % (tag, r, ai), prod, R.marginal_p_va(par, v, a), z3_confirm=False)

    # ---- contract: PurificationRBM.effective_energy
    ctx.under_contract("PurificationRBM.effective_energy", "PurificationRBM.partition")
    E = state.rbm_am.effective_energy(space)
    ctx.holds("effective_energy/shape", tuple(E.shape) == (D,))
    Pv = [R.marginal_p_v(am_spec, v) for v in vs]
    for r in range(D):
        ctx.eq("effective_energy/marginal-over-h-and-a[row=%d]" % r, alg.exp(-E._arr[r]), Pv[r])
    e1 = state.rbm_am.effective_energy(space[D - 1])
    ctx.holds("effective_energy/vector-form-shape", tuple(e1.shape) == ())
    ctx.eq("effective_energy/vector-form", e1._arr[()], E._arr[D - 1])
    for ai, a in enumerate(auxs):
        at = torch.tensor([a] * D, dtype=torch.double)
        Ea = state.rbm_am.effective_energy(space, at)
        ctx.holds("effective_energy(v,a)/shape[aux=%d]" % ai, tuple(Ea.shape) == (D,))
        for r in range(D):
            ctx.eq("effective_energy(v,a)/marginal-over-h[row=%d aux=%d]" % (r, ai), alg.exp(-Ea._arr[r]),
                   R.marginal_p_va(am_spec, vs[r], a))
    Ea1 = state.rbm_am.effective_energy(space[0], torch.tensor(auxs[-1], dtype=torch.double))
    ctx.eq("effective_energy(v,a)/vector-form", alg.exp(-Ea1._arr.reshape(-1)[0]), R.marginal_p_va(am_spec, vs[0], auxs[-1]))
    Z = state.rbm_am.partition(space)
    ctx.eq("partition/sum", Z._arr[()], sum(Pv, ZERO))
    ctx.frame("effective_energy/frame")

    # ---- contract: gamma, three call forms, both signs
    ctx.under_contract("PurificationRBM.gamma")
    def F(par, v):     # hidden-unit marginal of the visible part: sum_h exp(b.v + c.h + hWv)
        return R.marginal_p_va(par, v, (0,) * na)
    for tag, rbm, par in (("am", state.rbm_am, am), ("ph", state.rbm_ph, ph)):
        for eta in (+1, -1):
            g = rbm.gamma(space, space, eta=eta, expand=True)
            ctx.holds("gamma/%s/expand-shape[eta=%d]" % (tag, eta), tuple(g.shape) == (D, D))
            gp = rbm.gamma(space, torch.flip(space, [0]), eta=eta, expand=False)
            ctx.holds("gamma/%s/paired-shape[eta=%d]" % (tag, eta), tuple(gp.shape) == (D,))
            for i in range(D):
                for j in range(D):
                    lhs = alg.exp(2 * g._arr[i, j])
                    if eta > 0:
                        ctx.eq("gamma/%s/plus[%d,%d]" % (tag, i, j), lhs, F(par, vs[i]) * F(par, vs[j]), z3_confirm=False)
                    else:
                        ctx.eq("gamma/%s/minus[%d,%d]" % (tag, i, j), lhs * F(par, vs[j]), F(par, vs[i]), z3_confirm=False)
                ctx.eq("gamma/%s/paired-agrees[eta=%d row=%d]" % (tag, eta, i), gp._arr[i], g._arr[i, D - 1 - i], z3_confirm=False)
            g11 = rbm.gamma(space[0], space[D - 1], eta=eta, expand=True)
            ctx.holds("gamma/%s/1d-shape[eta=%d]" % (tag, eta), tuple(g11.shape) == ())
            ctx.eq("gamma/%s/1d-agrees[eta=%d]" % (tag, eta), g11._arr[()], g._arr[0, D - 1], z3_confirm=False)
    ctx.frame("gamma/frame")

    # ---- contract: pi
    ctx.under_contract("DensityMatrix.pi")
    U_am, d_am, U_ph = am["weights_U"], am_spec["aux_bias"], ph["weights_U"]

    def pi_spec(v, vp):
        tot = ZERO
        for a in auxs:
            e = ZERO
            for k, ak in enumerate(a):
                if ak:
                    x = d_am[k]
                    y = ZERO
                    for i in range(nv):
                        if v[i] + vp[i]:
                            x = x + U_am[k, i] * alg.Fr(v[i] + vp[i], 2)
                        if v[i] - vp[i]:
                            y = y + U_ph[k, i] * alg.Fr(v[i] - vp[i], 2)
                    e = e + x + I * y
            tot = tot + alg.exp(e)
        return tot
    pi_ = state.pi(space, space, expand=True)
    ctx.holds("pi/expand-shape", tuple(pi_.shape) == (2, D, D))
    pip = state.pi(space, torch.flip(space, [0]), expand=False)
    ctx.holds("pi/paired-shape", tuple(pip.shape) == (2, D))
    for i in range(D):
        for j in range(D):
            ctx.eq("pi/exp(re+i*im) == sum_a exp(a.(x+iy))[%d,%d]" % (i, j),
                   alg.exp(pi_._arr[0, i, j] + I * pi_._arr[1, i, j]), pi_spec(vs[i], vs[j]), z3_confirm=False)
        ctx.eq("pi/paired-agrees-re[row=%d]" % i, pip._arr[0, i], pi_._arr[0, i, D - 1 - i], z3_confirm=False)
        ctx.eq("pi/paired-agrees-im[row=%d]" % i, pip._arr[1, i], pi_._arr[1, i, D - 1 - i], z3_confirm=False)
    pi1 = state.pi(space[0], space[D - 1], expand=True)
    ctx.holds("pi/1d-shape", tuple(pi1.shape) == (2,))
    ctx.eq("pi/1d-agrees-re", pi1._arr[0], pi_._arr[0, 0, D - 1], z3_confirm=False)
    ctx.eq("pi/1d-agrees-im", pi1._arr[1], pi_._arr[1, 0, D - 1], z3_confirm=False)
    ctx.frame("pi/frame")

    # ---- contract: rho == partial trace of the purification, all call forms
    ctx.under_contract("DensityMatrix.rho", "DensityMatrix.probability", "NeuralStateBase.normalization",
                       "DensityMatrix.importance_sampling_numerator", "DensityMatrix.importance_sampling_denominator")
    PS = [[Psi(am_spec, ph, v, a) for a in auxs] for v in vs]
    def rho_spec(i, j):
        tot = ZERO
        for ai in range(len(auxs)):
            if canary == "spec-conjugates-wrong-side":
                tot = tot + alg.conj(PS[i][ai]) * PS[j][ai]
            else:
                tot = tot + PS[i][ai] * alg.conj(PS[j][ai])
        return tot
    RS = [[rho_spec(i, j) for j in range(D)] for i in range(D)]
    rho = state.rho(space, space)
    ctx.holds("rho/full-shape", tuple(rho.shape) == (2, D, D))
    for i in range(D):
        for j in range(D):
            ctx.eq("rho/partial-trace[%d,%d]" % (i, j), rho._arr[0, i, j] + I * rho._arr[1, i, j], RS[i][j], z3_confirm=False)
    # whether the two arguments are one tensor object or two equal ones makes no difference, in either call form
    rho2 = state.rho(space, space.clone())
    ctx.eq_arrays("rho/full: the same tensor object as both arguments == two equal tensors", rho, rho2, z3_confirm=False)
    pd1, pd2 = state.rho(space, space, expand=False), state.rho(space, space.clone(), expand=False)
    for i in range(D):
        ctx.eq("rho/paired with the same tensor object as both arguments[row=%d]" % i, pd1._arr[0, i] + I * pd1._arr[1, i], RS[i][i], z3_confirm=False)
        ctx.eq("rho/paired with two equal tensors[row=%d]" % i, pd2._arr[0, i] + I * pd2._arr[1, i], RS[i][i], z3_confirm=False)
    isn_same = state.importance_sampling_numerator(space, space)
    for i in range(D):
        ctx.eq("importance_sampling_numerator/same tensor object as both arguments[row=%d]" % i, isn_same._arr[0, i] + I * isn_same._arr[1, i], RS[i][i], z3_confirm=False)
    rho_d = state.rho(space)                     # vp=None, expand=True -> full matrix
    ctx.eq_arrays("rho/vp-None-is-full-matrix", rho_d, rho, z3_confirm=False)
    flip = torch.flip(space, [0])
    rp = state.rho(space, flip, expand=False)     # paired vector of elements
    ctx.holds("rho/paired-shape", tuple(rp.shape) == (2, D))
    for i in range(D):
        ctx.eq("rho/paired[row=%d]" % i, rp._arr[0, i] + I * rp._arr[1, i], RS[i][D - 1 - i], z3_confirm=False)
    r1 = state.rho(space[0], space[D - 1])         # single element
    ctx.holds("rho/single-shape", tuple(r1.shape) == (2,), str(tuple(r1.shape)))
    ctx.eq("rho/single", r1._arr[0] + I * r1._arr[1], RS[0][D - 1], z3_confirm=False)
    for i in range(D):                             # every pair of basis states in the single-element call form
        for j in range(D):
            rij = state.rho(space[i], space[j])
            ctx.eq("rho/single element == partial trace[%d,%d]" % (i, j), rij._arr[0] + I * rij._arr[1], RS[i][j], z3_confirm=False)
    # one state against a batch: a row / a column of the matrix
    for i in sorted({0, D - 1}):
        row = state.rho(space[i], space, expand=False)
        col = state.rho(space, space[i], expand=False)
        ctx.holds("rho/one state against a batch: shapes[%d]" % i, tuple(row.shape) == (2, D) and tuple(col.shape) == (2, D), "%s %s" % (tuple(row.shape), tuple(col.shape)))
        for j in range(D):
            ctx.eq("rho/(one state, batch, expand=False) == row of the partial trace[%d,%d]" % (i, j), row._arr[0, j] + I * row._arr[1, j], RS[i][j], z3_confirm=False)
            ctx.eq("rho/(batch, one state, expand=False) == column of the partial trace[%d,%d]" % (j, i), col._arr[0, j] + I * col._arr[1, j], RS[j][i], z3_confirm=False)
    # the expand flag carried by other objects than the Python singletons
    for name, yes, no in (("numpy.bool_", np.True_, np.False_), ("int", 1, 0)):
        ctx.eq_arrays("rho/expand given as %s: true == the full matrix" % name, state.rho(space, space, expand=yes), rho, z3_confirm=False)
        rpn = state.rho(space, flip, expand=no)
        for i in range(D):
            ctx.eq("rho/expand given as %s: false == the paired form[row=%d]" % (name, i), rpn._arr[0, i] + I * rpn._arr[1, i], RS[i][D - 1 - i], z3_confirm=False)
    rdiag = state.rho(space, expand=False)         # [probability, 0]
    prob = state.probability(space)
    ctx.holds("rho/expand-False-vp-None-shape", tuple(rdiag.shape) == (2, D))
    for i in range(D):
        ctx.eq("rho/expand-False-vp-None-real[row=%d]" % i, rdiag._arr[0, i], prob._arr[i], z3_confirm=False)
        ctx.eq("rho/expand-False-vp-None-imag[row=%d]" % i, rdiag._arr[1, i], ZERO)
        ctx.eq("probability/marginal[row=%d]" % i, prob._arr[i], Pv[i], z3_confirm=False)
    isn = state.importance_sampling_numerator(flip, space)
    for i in range(D):
        ctx.eq("importance_sampling_numerator/rho(vp,v)[row=%d]" % i, isn._arr[0, i] + I * isn._arr[1, i], RS[D - 1 - i][i], z3_confirm=False)
    isd = state.importance_sampling_denominator(space)
    for i in range(D):
        ctx.eq("importance_sampling_denominator/[p,0][row=%d]" % i, isd._arr[0, i] + I * isd._arr[1, i], Pv[i], z3_confirm=False)
    Zn = state.normalization(space)
    ctx.frame("rho/frame")

    # ---- lemma C02 over the spec
    tr = ZERO
    for i in range(D):
        ctx.eq("lemma/diagonal == probability[row=%d]" % i, RS[i][i], Pv[i], z3_confirm=False)
        tr = tr + RS[i][i]
        for j in range(i, D):
            ctx.eq("lemma/hermitian[%d,%d]" % (i, j), RS[i][j], alg.conj(RS[j][i]), z3_confirm=False)
    ctx.eq("lemma/trace == normalization", tr, Zn._arr[()], z3_confirm=False)
    if D <= 4:
        x = [alg.par("x_re[%d]" % i) + I * alg.par("x_im[%d]" % i) for i in range(D)]
        quad = ZERO
        for i in range(D):
            for j in range(D):
                quad = quad + alg.conj(x[i]) * RS[i][j] * x[j]
        sq = ZERO
        for ai in range(len(auxs)):
            s = ZERO
            for i in range(D):
                s = s + alg.conj(x[i]) * PS[i][ai]
            sq = sq + s * alg.conj(s)
        ctx.eq("lemma/psd: x^dagger rho x == sum_a |<x|Psi_a>|^2", quad, sq, z3_confirm=False)
    ctx.frame("lemma/frame")


def replay(o):
    if o["cfg"].get("callee"):
        from drivers import C19 as D19
        return D19.replay({"part": "indexing", "size": o["cfg"]["size"]})
    if o["cfg"].get("independence"):
        from drivers import C20 as D20
        return D20.replay({"part": "module", "kind": o["cfg"]["independence"]})
    if o["cfg"].get("generic"):
        from contracts import gsets
        return gsets.replay("C02", o)
    from drivers import C02 as D
    env = (o.get("witness") or {}).get("env")
    cfg = o["cfg"]
    fails = D.native_check(cfg, env, seed=1)
    if not fails:
        for s in range(2, 8):
            fails = D.native_check(cfg, None, seed=s, scale=0.5 + s / 2)
            if fails:
                break
    return {"reproduced": bool(fails), "failed_clauses": [(c, str(d)[:300]) for c, d in fails[:4]], "env": env, "cfg": cfg}
