"""C14 — seeded runs are reproducible and evaluation never alters the model.

What contracts can decide: (i) set_random_seed passes exactly the given seed to
torch's seeding calls; (ii) an *effect contract* for the whole package — the only
source of randomness any qucumber function consumes is torch's global generator
(mechanical scan of every call in the current source against a classification
table; under front end N every RNG primitive is additionally intercepted);
(iii) *frame contracts*: every read-only public operation leaves every model
parameter unwritten (write log of the symbolic parameter storages).  Bitwise
equality of two seeded runs is then a property of torch's generator and kernels
(trusted) and is exercised by the bounded driver only.
"""
import ast
import os
from unittest import mock

import numpy as np
import torch

from qv import alg, native as N, symtensor as st
from contracts import rbm as R

LEVEL = "proof"
MANIFEST = {
    "engine": "qv-native",
    "category": "proof",
    "technique": "contract on set_random_seed (real function, torch seeding calls stubbed); effect contract by a mechanical scan of every call / import in the package source against an RNG classification table; frame contracts (no parameter storage written) for every read-only operation executed on symbolic frozen parameters",
    "text": "set_random_seed(seed, cpu, gpu, quiet) calls torch.manual_seed(seed) iff cpu and torch.cuda.manual_seed(seed) iff gpu and CUDA is available, with exactly the given seed and nothing else. Every module of the package is scanned: imports of random / secrets / uuid, any use of numpy.random, torch.Generator / torch.seed / generator= arguments, os.urandom, hash()/id() and iteration over sets are forbidden; the random primitives found (torch.bernoulli, randperm, randint, randn through initialize_parameters, distributions.Bernoulli.sample) all draw from torch's global generator; time.time is confined to the Timer callback. Sampling, probability / psi / rho, observables (X, Y, Z, ZZ, SWAP, composites), statistics_from_samples, fidelity / KL / NLL, rotations, gradient / positive phase / exact and batch gradients and save are each executed on symbolic parameters whose storages are frozen: no write reaches any parameter. Hence every library result is a function of (inputs, parameters, torch generator stream).",
    "note": "bitwise reproducibility itself (torch CPU kernels deterministic given inputs and generator state; a different seed gives a different stream) is a trusted property of torch, exercised by the bounded driver with numpy / random perturbed between the runs",
}
EXPLANATION = "effect scan over the current source of every module; write log of frozen symbolic parameter storages"
TRUSTED = ["torch CPU kernels are deterministic functions of their inputs and the generator state", "torch.manual_seed fully determines the global generator's stream",
           "a different seed yields a different stream (bounded driver only)"]

ALLOWED_RNG = {"torch.bernoulli", "torch.randperm", "torch.randint", "torch.randn", "torch.distributions.Bernoulli", "dist.sample", "torch.manual_seed",
               "torch.cuda.manual_seed"}
FORBIDDEN_IMPORTS = {"random", "secrets", "uuid"}
FORBIDDEN_CHAINS = ("np.random", "numpy.random", "torch.Generator", "torch.seed", "torch.initial_seed", "torch.random", "os.urandom", "torch.rand_like",
                    "torch.randn_like", "torch.normal", "torch.multinomial", "torch.poisson", "torch.rand", "torch.get_rng_state", "torch.set_rng_state",
                    # process-global settings that change what later draws / kernels return for everyone in the process
                    "torch.set_default_dtype", "torch.set_default_tensor_type", "torch.set_default_device", "torch.use_deterministic_algorithms",
                    "torch.set_num_threads", "torch.set_flush_denormal", "torch.set_float32_matmul_precision", "torch.backends", "np.seterr", "numpy.seterr",
                    "os.environ", "locale.setlocale")


def configs(tier):
    out = [{"part": "seed"}, {"part": "effects"}]
    for kind in ("positive", "complex", "mixed"):
        out.append({"part": "frames", "kind": kind})
    return out


def canaries(tier):
    return [({"part": "effects"}, "table-forbids-bernoulli")]


def run_config(ctx, cfg):
    return {"seed": _seed, "effects": _effects, "frames": _frames}[cfg["part"]](ctx, cfg)


def _seed(ctx, cfg):
    import warnings
    import qucumber
    ctx.under_contract("qucumber.set_random_seed")
    for avail in (False, True):
        for cpu in (True, False):
            for gpu in (False, True):
                for seed in (0, 1234, 2 ** 40 + 7, -1, -1234, 2 ** 63 - 1):
                    calls = []
                    with mock.patch.object(torch, "manual_seed", lambda s: calls.append(("cpu", s))), \
                            mock.patch.object(torch.cuda, "manual_seed", lambda s: calls.append(("cuda", s))), \
                            mock.patch.object(torch.cuda, "is_available", lambda: avail), warnings.catch_warnings():
                        warnings.simplefilter("ignore")
                        r = qucumber.set_random_seed(seed, cpu=cpu, gpu=gpu, quiet=False)
                    want = ([("cuda", seed)] if (gpu and avail) else []) + ([("cpu", seed)] if cpu else [])
                    ctx.holds("set_random_seed/seeds exactly the requested generators with exactly the given seed[cpu=%s gpu=%s cuda=%s seed=%d]" % (cpu, gpu, avail, seed),
                              r is None and calls == want, str(calls))
    with mock.patch.object(torch, "manual_seed", lambda s: None):
        pass
    # for every integer seed (front end A: the seed is a symbolic integer, both branches of every test on it explored)
    from qv import astvc as A
    vc = A.VC(ctx)

    def run():
        seed = vc.fresh_int("seed")
        got = []

        class Cuda:
            @staticmethod
            def is_available():
                return True

            @staticmethod
            def manual_seed(s):
                got.append(("cuda", s))

        class TorchProxy:
            cuda = Cuda

            @staticmethod
            def manual_seed(s):
                got.append(("cpu", s))

        class Warn:
            @staticmethod
            def warn(*a, **k):
                pass
        f, _rw = A.load(qucumber.set_random_seed, None, vc, extra_globals={"torch": TorchProxy, "warnings": Warn}, name="set_random_seed")
        f(seed, cpu=True, gpu=True, quiet=True)
        vc.check("set_random_seed/for every integer seed: both generators receive exactly that seed",
                 A.AND(len(got) == 2, *[s == seed for _, s in got]) if len(got) == 2 else False)
    vc.explore(run, "seed")
    vc.flush()
    # "a different seed yields different draws", on the real generator (no stub): pairs of seeds a user may well pick
    def first_draws(s):
        qucumber.set_random_seed(s, cpu=True, gpu=False, quiet=True)
        return torch.randn(6, dtype=torch.double), torch.bernoulli(torch.full((16,), 0.5, dtype=torch.double))
    keep_state = torch.get_rng_state()
    try:
        for s1, s2 in ((7, 8), (7, -7), (0, 1), (1234, 1234 + 2 ** 20), (7, 7 + 2 ** 32), (3, 3 + 2 ** 33)):
            a, b = first_draws(s1), first_draws(s2)
            ctx.holds("set_random_seed/different seeds give different draws[seeds=%d,%d]" % (s1, s2), not (torch.equal(a[0], b[0]) and torch.equal(a[1], b[1])),
                      "identical normal and Bernoulli draws after seeding with %d and with %d" % (s1, s2))
    finally:
        torch.set_rng_state(keep_state)
    # default arguments: CPU generator only
    calls = []
    with mock.patch.object(torch, "manual_seed", lambda s: calls.append(("cpu", s))), mock.patch.object(torch.cuda, "manual_seed", lambda s: calls.append(("cuda", s))):
        qucumber.set_random_seed(5)
    ctx.holds("set_random_seed/defaults seed the CPU generator only", calls == [("cpu", 5)])


def _chain(node):
    parts = []
    while isinstance(node, ast.Attribute):
        parts.append(node.attr)
        node = node.value
    if isinstance(node, ast.Name):
        parts.append(node.id)
        return ".".join(reversed(parts))
    return None


def _effects(ctx, cfg):
    canary = getattr(ctx, "canary", None)
    root = os.path.join(os.environ.get("QUCUMBER_REPO", "/repo"), "qucumber")
    ctx.under_contract("effect contract: every function of the package")
    allowed = set(ALLOWED_RNG)
    if canary == "table-forbids-bernoulli":
        allowed.discard("torch.bernoulli")
    files = []
    for d, _s, fs in os.walk(root):
        for f in fs:
            if f.endswith(".py"):
                files.append(os.path.join(d, f))
    ctx.holds("effects/package sources found", len(files) >= 30, str(len(files)))
    rng_sites = []
    for path in sorted(files):
        rel = os.path.relpath(path, root)
        tree = ast.parse(open(path).read())
        bad = []
        for node in ast.walk(tree):
            if isinstance(node, ast.Import):
                for a in node.names:
                    if a.name.split(".")[0] in FORBIDDEN_IMPORTS or a.name.startswith("numpy.random"):
                        bad.append("import %s (line %d)" % (a.name, node.lineno))
            elif isinstance(node, ast.ImportFrom):
                mod = node.module or ""
                if mod.split(".")[0] in FORBIDDEN_IMPORTS or mod.startswith("numpy.random") or \
                        (mod in ("numpy", "torch") and any(a.name in ("random", "Generator") for a in node.names)):
                    bad.append("from %s import ... (line %d)" % (mod, node.lineno))
            elif isinstance(node, ast.Attribute):
                ch = _chain(node)
                if ch and any(ch == f or ch.startswith(f + ".") for f in FORBIDDEN_CHAINS):
                    bad.append("%s (line %d)" % (ch, node.lineno))
                if ch in ("time.time", "time.perf_counter", "time.monotonic") and rel != os.path.join("callbacks", "timer.py"):
                    bad.append("%s outside the Timer callback (line %d)" % (ch, node.lineno))
            elif isinstance(node, ast.Call):
                ch = _chain(node.func) if isinstance(node.func, (ast.Attribute, ast.Name)) else None
                if ch in ("hash", "id"):
                    bad.append("%s() (line %d)" % (ch, node.lineno))
                if any(k.arg == "generator" for k in node.keywords):
                    bad.append("generator= argument (line %d)" % node.lineno)
                if ch and (ch.startswith("torch.rand") or ch in ("torch.bernoulli", "dist.sample") or ch.endswith(".Bernoulli")):
                    rng_sites.append((rel, node.lineno, ch))
                    if ch not in allowed:
                        bad.append("random primitive %s not in the table of torch-global-generator primitives (line %d)" % (ch, node.lineno))
            elif isinstance(node, (ast.For, ast.comprehension)):
                it = node.iter
                if isinstance(it, ast.Call) and isinstance(it.func, ast.Name) and it.func.id in ("set", "frozenset"):
                    bad.append("iteration over a set (line %d)" % it.lineno)
        ctx.holds("effects/%s: only torch's global generator, no foreign random source" % rel, not bad, "; ".join(bad))
    ctx.holds("effects/the random primitives of the package are the expected ones",
              {c for (_f, _l, c) in rng_sites} <= allowed and len(rng_sites) >= 6, str(sorted({c for (_f, _l, c) in rng_sites})))
    ctx.bounded.append({"label": "scan", "what": "RNG call sites found", "sites": ["%s:%d %s" % s for s in rng_sites]})


def _frames(ctx, cfg):
    from drivers import common as DC
    from qucumber.observables import SigmaX, SigmaY, SigmaZ, NeighbourInteraction, SWAP
    from qucumber.utils import training_statistics as ts, unitaries
    kind = cfg["kind"]
    n = 2
    state = DC.make_state(kind, n, 2, 1)
    N.symbolize(state.rbm_am, "am", frozen=True)
    if kind == "complex":
        N.symbolize(state.rbm_ph, "ph", frozen=True)
    if kind == "mixed":
        N.symbolize(state.rbm_ph, "ph", zero=("aux_bias",), frozen=True)
    space = torch.tensor(R.bits(n), dtype=torch.double)
    D = 2 ** n
    versions = lambda: [p._stor.version for net in state.networks for p in getattr(state, net).parameters()]
    v0 = versions()
    ctx.under_contract("frame: no model parameter is written by read-only operations")
    import random
    rnd = random.Random(3)

    def hook(probs):
        return np.array([[rnd.randint(0, 1) for _ in range(probs.shape[1])] for _ in range(probs.shape[0])], dtype=float)

    def op(name, fn):
        st.reset_logs()
        st.BERNOULLI_HOOK[0] = hook
        try:
            fn()
            err = None
        except alg.Unmodelled as e:
            err = str(e)
        finally:
            st.BERNOULLI_HOOK[0] = None
        if err is not None:
            ctx.undecided("frame/%s" % name, "unmodelled: %s" % err)
            return
        viol = list(st.FRAME_VIOLATIONS)
        del st.FRAME_VIOLATIONS[:]
        ctx.holds("frame/%s leaves every parameter unwritten[%s]" % (name, kind), not viol and versions() == v0, str(viol[:3]))
    op("probability", lambda: state.probability(space))
    op("normalization", lambda: state.normalization(space))
    if kind == "mixed":
        op("rho (all call forms)", lambda: (state.rho(space, space), state.rho(space, expand=False), state.rho(space[0], space[1])))
    else:
        op("psi / amplitude / phase", lambda: (state.psi(space), state.amplitude(space), state.phase(space)))
    op("sample (3 Gibbs steps, overwrite on and off)", lambda: (state.sample(k=3, initial_state=space.clone()), state.sample(k=2, initial_state=space.clone(), overwrite=True)))
    for o in (SigmaX(), SigmaY(), SigmaZ(), NeighbourInteraction(c=1), SWAP([0]), SigmaX() - 2 * SigmaZ()):
        op("%s.apply" % o.name, lambda o=o: o.apply(state, space.clone()))
    op("gradient (reference basis)", lambda: state.gradient(space) if kind == "positive" else state.gradient(space, np.array([list("ZZ")] * D)))
    if kind != "positive":
        bases = np.array([list("XZ"), list("ZY"), list("ZZ"), list("YX")])
        op("gradient (rotated bases)", lambda: state.gradient(space, bases))
        op("positive_phase_gradients", lambda: state.positive_phase_gradients(space, bases))
        op("compute_exact_gradients", lambda: state.compute_exact_gradients(space, space, bases))
        op("compute_batch_gradients", lambda: state.compute_batch_gradients(2, space, space.clone(), bases))
        if kind == "complex":
            op("rotate_psi / rotate_psi_inner_prod", lambda: (unitaries.rotate_psi(state, "XY", space), unitaries.rotate_psi_inner_prod(state, "YX", space)))
        else:
            op("rotate_rho / rotate_rho_probs", lambda: (unitaries.rotate_rho(state, "XY", space), unitaries.rotate_rho_probs(state, "YX", space)))
    else:
        op("positive_phase_gradients", lambda: state.positive_phase_gradients(space))
        op("compute_exact_gradients", lambda: state.compute_exact_gradients(space, space))
        op("compute_batch_gradients", lambda: state.compute_batch_gradients(2, space, space.clone()))
    op("NLL", lambda: ts.NLL(state, space, space))
    saved = []

    def do_save():
        with mock.patch.object(torch, "save", lambda obj, loc: saved.append(obj)):
            state.save("LOCATION", {"a": 1})
    op("save", do_save)
    ctx.holds("frame/save handed the parameters over without copying them into new values[%s]" % kind, len(saved) == 1)


def replay(o):
    from drivers import C14 as D
    return D.replay(o["cfg"])
