#!/usr/bin/env python3
"""Regenerate MANIFEST.json from the lemma modules present (each carries its MANIFEST dict).
Properties without a lemma module are listed under not_applicable with the reason given in NA below."""
import ast, json, os, sys
V = os.path.dirname(os.path.dirname(os.path.abspath(__file__)))
NA = json.load(open(os.path.join(V, "tools", "not_applicable.json"))) if os.path.exists(os.path.join(V, "tools", "not_applicable.json")) else {}
checks, na = [], []
serves = {"qv-native": [], "qv-astvc": []}
for i in range(1, 21):
    pid = "C%02d" % i
    p = os.path.join(V, "lemmas", pid + ".py")
    meta = None
    if os.path.exists(p):
        tree = ast.parse(open(p).read())
        for n in tree.body:
            if isinstance(n, ast.Assign) and getattr(n.targets[0], "id", None) == "MANIFEST":
                meta = ast.literal_eval(n.value)
    if meta is None:
        na.append({"property_id": pid, "reason": NA.get(pid, "check not built yet (construction in progress, see DESIGN.md section 9)")})
        continue
    eng = meta.get("engine", "qv-native")
    for e in eng.split("+"):
        serves.setdefault(e, []).append(pid)
    checks.append({
        "property_id": pid,
        "quick_cmd": "./vf check %s --tier quick" % pid,
        "thorough_cmd": "./vf check %s --tier thorough" % pid,
        "evidence_file": "evidence/%s.json" % pid,
        "replay_cmd_template": "./vf replay {path}",
        "engine": eng,
        "level_claimed": {"category": meta.get("category", "proof"), "text": meta["text"], "design_ref": "DESIGN.md section 6, %s" % pid},
        "level_note": meta["note"],
        "technique": meta["technique"],
    })
m = {
    "version": 1,
    "setup_cmd": "./vf setup",
    "hooks": {"guard": "QUCUMBER_VERIF", "enable": "none needed: all interception is by sidecar objects (torch __torch_function__, sandbox globals, contract stubs); no hook commits exist in /repo",
              "baseline_off_cmd": "cd /repo && /venv/bin/python -m pytest -ra -q -p no:cacheprovider --timeout=900 --continue-on-collection-errors",
              "source_commits": [], "add_only": True},
    "engines": [
        {"name": "qv-native", "path": "qv/native.py", "serves_properties": serves.get("qv-native", []),
         "kind_free_text": "front end N: the real function objects of /repo run on symbolic tensors (torch.Tensor wrapper subclass carrying exact exp-polynomial scalars); callees replaced by contract stubs; obligations discharged by normal form + z3/cvc5"},
        {"name": "qv-astvc", "path": "qv/astvc.py", "serves_properties": serves.get("qv-astvc", []),
         "kind_free_text": "front end A: source re-read from /repo on every run, loops with sidecar invariants rewritten to Hoare cut points, executed under forking symbolic scalars with ghost state; obligations discharged by z3/cvc5"},
        {"name": "qv-gen", "path": "qv/gen.py", "serves_properties": serves.get("qv-gen", []),
         "kind_free_text": "front end G: the real tensor code run on tensors of symbolic shape (element-wise descriptions with sums over whole dimensions); size comparisons fork the run; obligations discharged by tensor-algebra normal form for every size, size-generic lemmas over the contracts by Lean 4 + Mathlib (lean/Marginals.lean)"},
    ],
    "checks": checks,
    "notes": "Contract-based deductive verification; see DESIGN.md. Exit codes: 0 held, 1 violation (VIOLATION line), 2 undecided, 3 checker crash. known_findings.json lists open/fixed findings.",
    "not_applicable": na,
}
json.dump(m, open(os.path.join(V, "MANIFEST.json"), "w"), indent=1)
try:
    import jsonschema
    jsonschema.validate(m, json.load(open("/root/.vp/MANIFEST.schema.json")))
    print("MANIFEST valid: %d checks, %d not_applicable" % (len(checks), len(na)))
except ImportError:
    print("written (jsonschema not available to validate)")
