"""C07 concrete driver: real _shuffle_data / fit on tagged data; every epoch's batches checked for coverage and pairing."""
import math

import numpy as np
import torch

from . import common as C


def check_shuffle(N, B, NB, with_bases, seed=0, n=4):
    torch.manual_seed(seed)
    st = C.make_state("complex" if with_bases else "positive", n, 2)
    # tag row t by writing t in binary-free form: column 0 holds the row id (values only need to be distinguishable)
    train = torch.zeros(N, n, dtype=torch.double)
    train[:, 0] = torch.arange(N, dtype=torch.double)
    bases = None
    z = None
    if with_bases:
        bases = np.array([["Z"] * n if t % 3 == 0 else ["X"] + ["Z"] * (n - 2) + [str(t)] for t in range(N)], dtype=object)
        z = train[[t for t in range(N) if t % 3 == 0]]
    nb = math.ceil(N / B)
    keep = train.clone()
    out = list(st._shuffle_data(B, NB, nb, train, bases, z))
    f = []
    if len(out) != nb:
        f.append("number of batches %d != ceil(N/B) = %d" % (len(out), nb))
    seen = []
    for j, parts in enumerate(out):
        pos = parts[0]
        want = B if j < nb - 1 else N - (nb - 1) * B
        if pos.shape[0] != want:
            f.append("batch %d has %d rows, expected %d" % (j, pos.shape[0], want))
        ids = [int(x) for x in pos[:, 0].tolist()]
        seen += ids
        if with_bases:
            bb = parts[2]
            for r, t in enumerate(ids):
                if list(bb[r]) != list(bases[t]):
                    f.append("row %d of batch %d is paired with another row's basis" % (r, j))
                    break
        neg = parts[1]
        nid = [int(x) for x in neg[:, 0].tolist()]
        if with_bases:
            if any(t % 3 for t in nid) or neg.shape[0] != NB:
                f.append("negative batch %d: non-reference rows or wrong size %d" % (j, neg.shape[0]))
        elif NB == B:
            if nid != ids:
                f.append("negative batch %d is not the positive batch" % j)
        else:
            if neg.shape[0] != NB or any(not (0 <= t < N) for t in nid):
                f.append("negative batch %d wrong size / rows" % j)
    if sorted(seen) != list(range(N)):
        f.append("positive batches do not cover every row exactly once")
    if not torch.equal(train, keep):
        f.append("training data modified")
    return f


def check_fit_data(kind, form, seed=0):
    """fit must not modify the caller's data / bases, for tensor, ndarray and list inputs; every epoch covers all rows."""
    rng = np.random.default_rng(seed)
    st = C.make_state(kind, 2, 2, 1)
    N = 5
    arr = rng.integers(0, 2, size=(N, 2)).astype(float)
    data = torch.tensor(arr, dtype=torch.double) if form == "tensor" else (arr.copy() if form == "array" else arr.tolist())
    keep = torch.tensor(arr).clone() if form == "tensor" else (arr.copy() if form == "array" else [list(r) for r in arr.tolist()])
    bases = None
    if kind != "positive":
        bases = np.array([list("ZZ"), list("XZ"), list("ZY"), list("ZZ"), list("YX")])
        bkeep = bases.copy()
    seen = []
    real = st._shuffle_data

    def spy(*a):
        out = list(real(*a))
        seen.append([p[0].clone() for p in out])
        return iter(out)
    st._shuffle_data = spy
    kw = {"input_bases": bases} if bases is not None else {}
    st.fit(data, epochs=3, pos_batch_size=2, k=1, lr=0.01, **kw)
    f = []
    same = torch.equal(data, keep) if form == "tensor" else (np.array_equal(data, keep) if form == "array" else data == keep)
    if not same:
        f.append("fit modified the caller's data (%s)" % form)
    if bases is not None and not np.array_equal(bases, bkeep):
        f.append("fit modified the caller's bases")
    if len(seen) != 3:
        f.append("shuffled %d times for 3 epochs" % len(seen))
    for ep in seen:
        rows = sorted(tuple(r) for b in ep for r in b.tolist())
        if rows != sorted(tuple(r) for r in arr.tolist()) or len(ep) != 3 or [b.shape[0] for b in ep] != [2, 2, 1]:
            f.append("an epoch's batches are not a partition of the data into ceil(N/B) batches")
    return f


def check_refit(kind, seed=0):
    """Two fits on the same model with the same bases array object and different data: negative-phase rows of the
    second run must be reference-basis rows of the second run's data."""
    rng = np.random.default_rng(seed)
    st = C.make_state(kind, 3, 2, 1)
    bases = np.array([list("ZZZ"), list("XZZ"), list("ZZZ"), list("ZYZ"), list("ZZZ"), list("ZZX")])
    f = []
    for run in range(2):
        data = torch.tensor(rng.integers(0, 2, size=(6, 3)), dtype=torch.double)
        data[:, 0] = float(run)                      # tag the rows of each run
        seen = []
        real = st._shuffle_data

        def spy(*a, real=real):
            out = list(real(*a))
            seen.extend(p[1].clone() for p in out)
            return iter(out)
        st._shuffle_data = spy
        st.fit(data, epochs=1, pos_batch_size=2, neg_batch_size=3, k=1, lr=0.01, input_bases=bases)
        del st.__dict__["_shuffle_data"]
        zrows = {tuple(r) for i, r in enumerate(data.tolist()) if all(c == "Z" for c in bases[i])}
        for nb in seen:
            for r in nb.tolist():
                if tuple(r) not in zrows:
                    f.append("run %d: a negative-phase chain started from %s, not a reference-basis row of this run's data" % (run + 1, r))
                    break
    return f


def check_one_reference_row(kind, negB, seed=0):
    """Exactly one row measured entirely in the reference basis: every negative batch still consists of negB rows
    of num_sites entries, each equal to that row."""
    rng = np.random.default_rng(seed)
    st = C.make_state(kind, 3, 2, 1)
    bases = np.array([list("XZZ"), list("ZZZ"), list("ZYZ"), list("YZX"), list("ZZX")])
    data = torch.tensor(rng.integers(0, 2, size=(5, 3)), dtype=torch.double)
    seen = []
    real = st._shuffle_data

    def spy(*a, real=real):
        out = list(real(*a))
        seen.extend(p[1].clone() for p in out)
        return iter(out)
    st._shuffle_data = spy
    try:
        st.fit(data, epochs=1, pos_batch_size=2, neg_batch_size=negB, k=1, lr=0.01, input_bases=bases)
    except Exception as e:
        return ["fit raised %r on a legal data set with exactly one reference-basis row (neg_batch_size=%d)" % (e, negB)]
    finally:
        st.__dict__.pop("_shuffle_data", None)
    f = []
    for nb in seen:
        if tuple(nb.shape) != (negB, 3) or any(r != data[1].tolist() for r in nb.tolist()):
            f.append("negative batch of shape %s is not %d copies of the single reference-basis row" % (tuple(nb.shape), negB))
            break
    return f


def check_continued(kind, seed=0):
    """A run continued with starting_epoch > 1 on the same state, with new data of the same shape: every epoch of the
    continuation uses every row of the NEW data once, with its own basis."""
    rng = np.random.default_rng(seed)
    st = C.make_state(kind, 3, 2, 1)
    bases = np.array([list("ZZZ"), list("XZZ"), list("ZZZ"), list("ZYZ"), list("ZZZ"), list("ZZX")])
    kw = {} if kind == "positive" else {"input_bases": bases}
    f = []
    for run, (se, ep) in enumerate(((1, 1), (2, 3), (4, 4))):
        data = torch.tensor(rng.integers(0, 2, size=(6, 3)), dtype=torch.double)
        data[:, 0] = float(run % 2)
        data[:, 1] = float(run // 2)                 # tag the rows of each run
        seen = []
        real = st.compute_batch_gradients

        def spy(k, samples_batch, neg_batch, bases_batch=None, real=real):
            seen.append((samples_batch.clone(), None if bases_batch is None else np.array(bases_batch)))
            return real(k, samples_batch, neg_batch, bases_batch=bases_batch) if bases_batch is not None else real(k, samples_batch, neg_batch)
        st.compute_batch_gradients = spy
        try:
            st.fit(data, epochs=ep, pos_batch_size=4, neg_batch_size=2, k=1, lr=0.01, starting_epoch=se, **kw)
        finally:
            del st.__dict__["compute_batch_gradients"]
        want = sorted((tuple(r), "".join(bases[i]) if kw else "") for i, r in enumerate(data.tolist()))
        per_epoch = 2
        if len(seen) != per_epoch * (ep - se + 1):
            f.append("run %d: %d batches for %d epochs" % (run + 1, len(seen), ep - se + 1))
            continue
        for e in range(ep - se + 1):
            got = []
            for sb, bb in seen[e * per_epoch:(e + 1) * per_epoch]:
                for j, r in enumerate(sb.tolist()):
                    got.append((tuple(r), "".join(bb[j]) if bb is not None else ""))
            if sorted(got) != want:
                f.append("run %d (starting_epoch=%d), epoch %d: the positive batches are not the rows of this run's data with their bases" % (run + 1, se, se + e))
                break
    return f


def check_numpy_sizes(kind, seed=0):
    """Batch sizes, k and the number of epochs given as numpy integers (what a parameter sweep over np.arange hands over):
    same batches as with Python ints."""
    rng = np.random.default_rng(seed)
    st = C.make_state(kind, 2, 2, 1)
    N = 7
    data = torch.tensor(rng.integers(0, 2, size=(N, 2)), dtype=torch.double)
    data[:, 0] = torch.arange(N, dtype=torch.double) % 2
    bases = np.array([list("ZZ"), list("XZ"), list("ZZ"), list("ZY"), list("ZZ"), list("ZZ"), list("YX")])
    kw = {} if kind == "positive" else {"input_bases": bases}
    f = []
    for tname, conv in (("numpy.int64", np.int64), ("numpy.int32", np.int32), ("python int", int)):
        seen = []
        real = st.compute_batch_gradients

        def spy(k, samples_batch, neg_batch, bases_batch=None, real=real):
            seen.append((samples_batch.shape[0], neg_batch.shape[0]))
            return real(k, samples_batch, neg_batch, bases_batch=bases_batch) if bases_batch is not None else real(k, samples_batch, neg_batch)
        st.compute_batch_gradients = spy
        try:
            st.fit(data, epochs=conv(2), pos_batch_size=conv(3), neg_batch_size=conv(2), k=conv(1), lr=0.01, **kw)
        finally:
            del st.__dict__["compute_batch_gradients"]
        if seen != [(3, 2), (3, 2), (1, 2)] * 2:
            f.append("sizes given as %s: (positive, negative) batch sizes were %s, expected [(3, 2), (3, 2), (1, 2)] per epoch" % (tname, seen))
    return f


def check_nested_fit(kind, seed=0):
    """A callback of a running fit trains another state (same number of rows) between two batches: what the outer
    state's gradient computation receives is still, per epoch, every row once with its own basis row."""
    from qucumber.callbacks import LambdaCallback
    rng = np.random.default_rng(seed)
    torch.manual_seed(seed)
    outer, inner = C.make_state(kind, 3, 2, 1), C.make_state(kind, 3, 2, 1)
    rows = [[0, 0, 0], [0, 0, 1], [0, 1, 0], [0, 1, 1], [1, 0, 0], [1, 0, 1], [1, 1, 1]]
    N = len(rows)
    data = torch.tensor(rows, dtype=torch.double)
    other = torch.tensor(rng.integers(0, 2, size=(N, 3)), dtype=torch.double)
    blist = ["ZZZ", "XZZ", "ZZZ", "ZYZ", "ZZZ", "ZZX", "YXZ"]
    bases = np.array([list(b) for b in blist]) if kind != "positive" else None
    kw = {"input_bases": bases} if bases is not None else {}
    got = []
    real = outer.compute_batch_gradients

    def spy(k, pos, neg, *b):
        got.append(([tuple(int(x) for x in r) for r in pos.tolist()], [list(r) for r in b[0]] if b else None))
        return real(k, pos, neg, *b)
    outer.compute_batch_gradients = spy
    busy = [False]

    def nested(s, e, b):
        if not busy[0]:
            busy[0] = True
            try:
                inner.fit(other, epochs=1, pos_batch_size=3, k=1, lr=0.01, **kw)
            finally:
                busy[0] = False
    outer.fit(data, epochs=2, pos_batch_size=2, k=1, lr=0.01, callbacks=[LambdaCallback(on_batch_end=nested)], **kw)
    f = []
    nb = math.ceil(N / 2)
    if len(got) != 2 * nb:
        return ["%d batches reached the gradient computation in 2 epochs of %d" % (len(got), nb)]
    for ep in range(2):
        part = got[ep * nb:(ep + 1) * nb]
        seen = sorted(r for rws, _ in part for r in rws)
        if seen != sorted(tuple(r) for r in rows):
            f.append("epoch %d: with another fit running between its batches, the batches are not every row exactly once" % (ep + 1))
        if bases is not None:
            for rws, bs in part:
                for r, b in zip(rws, bs):
                    if b != list(blist[rows.index(list(r))]):
                        f.append("epoch %d: a row is paired with another row's basis" % (ep + 1))
                        break
    return f


def native_check(quick=True):
    fails, n = [], 0
    for kind in ("positive", "complex"):
        f = check_nested_fit(kind)
        n += 1
        if f:
            fails.append(({"kind": kind, "another state trained by a callback between two batches": True}, f[:2]))
    for kind in ("positive", "complex"):
        f = check_numpy_sizes(kind)
        n += 1
        if f:
            fails.append(({"kind": kind, "sizes as numpy integers": True}, f[:2]))
    for kind in ("positive", "complex"):
        f = check_continued(kind)
        n += 1
        if f:
            fails.append(({"kind": kind, "continued runs with new data": True}, f[:2]))
    for kind in ("complex", "mixed"):
        for negB in (3, 2):
            f = check_one_reference_row(kind, negB)
            n += 1
            if f:
                fails.append(({"kind": kind, "one reference-basis row": True, "neg_batch_size": negB}, f[:2]))
    grid = [(5, 2, 2), (5, 2, 3), (4, 4, 4), (3, 5, 2), (6, 3, 1), (1, 1, 1), (11, 5, 5), (11, 5, 2), (13, 6, 3), (23, 8, 8)] if quick else \
        [(N, B, NB) for N in range(1, 10) for B in range(1, 11) for NB in (1, 2, B, 7)] + [(N, B, NB) for N in (11, 13, 23, 100) for B in (5, 6, 8, 32) for NB in (2, B)]
    for (N, B, NB) in grid:
        for wb in (False, True):
            f = check_shuffle(N, B, NB, wb)
            n += 1
            if f:
                fails.append(({"N": N, "B": B, "neg": NB, "bases": wb}, f[:2]))
    for kind in ("complex", "mixed"):
        f = check_refit(kind)
        n += 1
        if f:
            fails.append(({"kind": kind, "two fits, same bases object": True}, f[:2]))
    for kind in ("positive", "complex", "mixed"):
        for form in ("tensor", "array", "list"):
            f = check_fit_data(kind, form)
            n += 1
            if f:
                fails.append(({"kind": kind, "data": form}, f[:2]))
    return fails, n


def replay(cfg, model):
    if model and "@N" in model:
        try:
            N, B, NB = int(model["@N"]), int(model["@pos_batch_size"]), int(model["@neg_batch_size"])
            if 1 <= N <= 60 and 1 <= B <= 60 and 1 <= NB <= 60:
                f = check_shuffle(N, B, NB, bool(cfg.get("bases")))
                if f:
                    return {"reproduced": True, "failed_clauses": f[:3], "input": {"N": N, "pos_batch_size": B, "neg_batch_size": NB, "bases": bool(cfg.get("bases"))}}
        except (ValueError, KeyError):
            pass
    f, n = native_check(True)
    return {"reproduced": bool(f), "failed_clauses": [str(x)[:300] for x in f[:3]]}


def bounded(tier, seed):
    f, n = native_check(tier == "quick")
    return {"driver": "drivers/C07.native_check", "label": "bounded", "evaluations": n, "failures": len(f),
            "bound": "real _shuffle_data on tagged rows over an (N, B, neg) grid with and without bases; real fit on tensor / ndarray / list data for 3 epochs",
            "first_failures": [str(x)[:300] for x in f[:3]]}
