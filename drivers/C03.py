"""C03 concrete driver: library gradients vs central finite differences of the NLL (float64)."""
import itertools
from functools import reduce

import numpy as np
import torch

from . import common as C
from .C04 import _t2c
from .C08 import rho_of


def nll(state, kind, samples, bases, space, ud):
    rho = rho_of(state, kind, space)
    Z = np.real(np.trace(rho))
    n = samples.shape[1]
    tot = 0.0
    for m in range(samples.shape[0]):
        b = bases[m] if bases is not None else "Z" * n
        Ud = reduce(np.kron, [_t2c(ud[c]) for c in b])
        k = int(sum(int(x) << (n - 1 - i) for i, x in enumerate(samples[m].tolist())))
        P = np.real((Ud @ rho @ Ud.conj().T)[k, k])
        tot -= np.log(P / Z)
    return tot / samples.shape[0]


def native_check(kind, arch, env=None, seed=0):
    from qucumber.utils import unitaries
    rng = np.random.default_rng(seed)
    st = C.make_state(kind, *arch)
    C.randomize(st, rng, 0.7)
    C.set_env(st, env)
    n = arch[0]
    space = st.generate_hilbert_space(n)
    ud = unitaries.create_dict()
    B = 4
    samples = torch.tensor(rng.integers(0, 2, size=(B, n)), dtype=torch.double)
    strings = ["".join(s) for s in itertools.product("XYZ", repeat=n)]
    bases = None if kind == "positive" else [strings[i] for i in rng.integers(0, len(strings), size=B)]
    if bases is not None:
        bases[0] = "Z" * n
    barr = np.array([list(b) for b in bases]) if bases is not None else None
    fails = []
    try:
        got = st.compute_exact_gradients(samples, space, barr) if kind != "positive" else st.compute_exact_gradients(samples, space)
    except Exception as e:
        return [("compute_exact_gradients raised", repr(e))]
    # five-point stencil (truncation h^4, rounding eps/h): good to ~1e-10, so that deviations of the size of a stray
    # 1e-8 regulariser are visible for pure states (the mixed-state gradient has a documented 1e-8 in its denominator)
    h = 1e-3
    tol = 2e-6 if kind == "mixed" else 2e-9
    for ni, net in enumerate(st.networks):
        rbm = getattr(st, net)
        k = 0
        for name, p in rbm.named_parameters():
            flat = p.data.view(-1)
            for j in range(flat.numel()):
                old = float(flat[j])
                vals = {}
                for mlt in (2, 1, -1, -2):
                    flat[j] = old + mlt * h
                    vals[mlt] = nll(st, kind, samples, bases, space, ud)
                flat[j] = old
                fd = (-vals[2] + 8 * vals[1] - 8 * vals[-1] + vals[-2]) / (12 * h)
                g = float(got[ni][k])
                if abs(fd - g) > tol * (1 + abs(fd) + abs(g)):
                    fails.append(("gradient entry %s.%s[%d] != dNLL (finite difference)" % (net, name, j), (g, fd)))
                k += 1
    # order / grouping invariance of the positive phase
    if bases is not None:
        perm = rng.permutation(B)
        g1 = st.positive_phase_gradients(samples, barr)
        g2 = st.positive_phase_gradients(samples[perm], barr[perm])
        for a, b in zip(g1, g2):
            if not torch.allclose(a, b, rtol=1e-9, atol=1e-11):
                fails.append(("positive phase depends on row order", None))
    if bases is not None:
        # the single-sample form takes the bases of the row as a str, a list / tuple of labels or a numpy row
        want1 = st.gradient(samples[1], np.array(list(bases[1])))
        for form, bb in (("str", bases[1]), ("list", list(bases[1])), ("tuple", tuple(bases[1]))):
            try:
                g1 = st.gradient(samples[1], bb)
                if any(not torch.allclose(a, b, rtol=1e-12, atol=1e-14) for a, b in zip(g1, want1)):
                    fails.append(("gradient(sample, bases as %s) differs from the numpy-row form" % form, None))
            except Exception as e:                  # noqa: BLE001
                fails.append(("gradient(sample, bases as %s) raised" % form, repr(e)))
    if bases is not None:
        # history: the bases array of an earlier call has been freed and another one - same shape, other rows - sits where
        # it was; gradients are those of the bases at hand (compared with the sum of the single-row gradients)
        first = np.array([list(b) for b in bases])
        other_rows = [strings[i] for i in rng.integers(0, len(strings), size=B)]
        b2 = C.at_freed_address(lambda: first.copy(), lambda a: st.gradient(samples, a), lambda: np.array([list(b) for b in other_rows]))
        if b2 is not None:
            g_all = st.gradient(samples, b2)
            ref = [sum(st.gradient(samples[i], np.array(list(other_rows[i])))[j] for i in range(B)) for j in range(len(g_all))]
            if any(not torch.allclose(a, b, rtol=1e-9, atol=1e-11) for a, b in zip(g_all, ref)):
                fails.append(("gradient of a batch whose bases array sits at the address of a freed one != sum of the single-row gradients", None))
    if kind == "positive":
        try:
            g3 = st.compute_exact_grads(samples, space)
            if not torch.allclose(g3[0], got[0]):
                fails.append(("compute_exact_grads disagrees with compute_exact_gradients", None))
        except Exception as e:
            fails.append(("PositiveWaveFunction.compute_exact_grads is not callable", repr(e)))
    return fails[:6]


def replay(cfg, env, short):
    C.VIA[0] = cfg.get("via")
    kind = cfg.get("kind") or ("positive" if cfg.get("part") == "positive-api" else "mixed" if cfg.get("rbm") == "purification" or cfg.get("part") == "gamma-pi-grad" else "complex")
    arch = cfg.get("arch") or ([cfg.get("n", 2), 2] + ([1] if kind == "mixed" else []))
    if kind == "mixed" and len(arch) == 2:
        arch = arch + [1]
    if kind != "mixed":
        arch = arch[:2]
    fails = []
    for s in range(2):
        fails = native_check(kind, arch, env if s == 0 else None, s)
        if fails:
            break
    if not fails and cfg.get("rbm") == "binary":
        fails = native_check("positive", arch, env, 0)
    return {"reproduced": bool(fails), "failed_clauses": [(a, str(b)[:200]) for a, b in fails[:4]], "cfg": cfg}


def large_aux(seed=0):
    """Many / strongly biased auxiliary units (sum over them of softplus(U.v + d) in the hundreds): the gradient of a mixed
    state is finite there and is still the derivative of the NLL (central differences on a few entries, in the log domain
    where the library's own NLL is finite)."""
    from qucumber.utils import unitaries
    rng = np.random.default_rng(seed)
    fails = []
    for nv, nh, na, ab in ((2, 2, 13, 30.0), (2, 1, 80, 5.0)):
        st = C.make_state("mixed", nv, nh, na)
        C.randomize(st, rng, 0.3)
        st.rbm_am.aux_bias.data.fill_(ab)
        st.rbm_ph.aux_bias.data.zero_()
        space = st.generate_hilbert_space(nv)
        ud = unitaries.create_dict()
        samples = torch.tensor(rng.integers(0, 2, size=(4, nv)), dtype=torch.double)
        bases = ["ZZ", "XZ", "ZY", "XY"]
        barr = np.array([list(b) for b in bases])
        got = st.compute_exact_gradients(samples, space, barr)
        if not all(bool(torch.isfinite(g).all()) for g in got):
            fails.append(("gradient has non-finite entries for num_aux=%d, aux_bias=%g (the NLL and its derivative are finite)" % (na, ab), None))
            continue
        h = 1e-4
        for ni, net, name, j in ((0, "rbm_am", "visible_bias", 0), (0, "rbm_am", "weights_W", 1), (1, "rbm_ph", "weights_U", 0)):
            rbm = getattr(st, net)
            off = 0
            for nm, p in rbm.named_parameters():
                if nm == name:
                    break
                off += p.numel()
            flat = getattr(rbm, name).data.view(-1)
            old = float(flat[j])
            flat[j] = old + h
            up = nll(st, "mixed", samples, bases, space, ud)
            flat[j] = old - h
            dn = nll(st, "mixed", samples, bases, space, ud)
            flat[j] = old
            fd = (up - dn) / (2 * h)
            g = float(got[ni][off + j])
            if not np.isfinite(fd) or abs(fd - g) > 1e-5 * (1 + abs(fd) + abs(g)):
                fails.append(("gradient entry %s.%s[%d] != dNLL for num_aux=%d, aux_bias=%g" % (net, name, j, na, ab), (g, fd)))
    return fails[:4]


def bounded(tier, seed):
    n, bad = 0, []
    f = large_aux(seed)
    n += 1
    if f:
        bad.append(("mixed", "many / strongly biased auxiliary units", f[:2]))
    cases = [("positive", [2, 3]), ("complex", [2, 2]), ("mixed", [2, 2, 2])]
    if tier != "quick":
        cases += [("positive", [4, 3]), ("complex", [3, 2]), ("complex", [4, 2]), ("mixed", [3, 2, 2])]
    for kind, arch in cases:
        f = native_check(kind, arch, None, seed)
        n += 1
        if f:
            bad.append((kind, arch, f[:2]))
    return {"driver": "drivers/C03.native_check", "label": "bounded", "evaluations": n, "failures": len(bad),
            "bound": "float64 five-point differences (h=1e-3, tol 2e-9 pure / 2e-6 mixed) of the NLL for %d (state type, architecture) cases, one random dataset each" % len(cases),
            "first_failures": bad[:3]}
