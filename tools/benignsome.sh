#!/bin/bash
# Like tools/benignall.sh, restricted to the properties given: tools/benignsome.sh <logdir> C03 C07 ...
# (used after a change that touches the lemmas / drivers of a few properties only)
cd "$(dirname "$0")/.."
LOG=$1; shift
ONLY=" $* "
mkdir -p "$LOG"
keep() { out=""; for q in $1; do case "$ONLY" in *" $q "*) out="$out $q";; esac; done; echo $out; }
run() { p=$(keep "$2"); [ -n "$p" ] && tools/benigncheck.sh "$PWD/benign/$1" "$p" > "$LOG/$1.log" 2>&1; }
( run G1 "C01 C02 C03 C05 C08 C14 C20"; run G4 "C04 C15 C10 C19 C03 C08"; run H1 "C15 C04 C10"; run I1 "C17 C18 C12 C06" ) &
( run G2 "C01 C02 C03 C08 C09 C10 C12 C20"; run G5 "C08 C09 C13 C16 C17"; run H2 "C01 C02 C03 C05 C06 C20"; run I4 "C13 C16 C08 C05 C09" ) &
( run G3 "C06 C07 C12 C11 C19 C05 C03"; run G6 "C17 C18 C12 C10 C13 C06 C07"; run I3 "C04 C19 C10 C06 C07 C03" ) &
( run H3 "C01 C02 C03 C10 C08 C09"; run H4 "C08 C13 C16 C09 C06 C03 C01"; run I2 "C07 C12 C06 C11 C19 C05 C20 C14" ) &
wait
bad=0
for f in "$LOG"/*.log; do
  [ -f "$f" ] || continue
  n=$(grep -c "^benign_" "$f"); a=$(grep "^benign_" "$f" | grep -vc " ok$")
  echo "$(basename "$f" .log): runs=$n alarms=$a"
  [ "$a" != 0 ] && { bad=1; grep "^benign_" "$f" | grep -v " ok$"; }
done
exit $bad
