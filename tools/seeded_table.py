#!/usr/bin/env python3
"""Print the markdown table of seeded changes (from seeded/*/meta.json) for DESIGN.md section 11.5."""
import glob, json, os, re
V = os.path.dirname(os.path.dirname(os.path.abspath(__file__)))
print("| change | breaks | files | confirmed (tests 245 / demo 0->1) | caught by (first obligations) | driver too |")
print("|---|---|---|---|---|---|")
for f in sorted(glob.glob(os.path.join(V, "seeded", "*", "meta.json"))):
    m = json.load(open(f))
    for c in m["checks_run_against_change"]:
        firsts = [re.sub(r"^VIOLATION property=\S+ obligation=", "", x).split("[")[0] for x in c["first"].split("|") if x.strip()]
        caught = "; ".join(dict.fromkeys(firsts))[:170] or ("bounded driver only" if c["bounded_driver_also"] else "NOT CAUGHT")
        print("| %s | %s | %s | %s | %s (exit %d) | %s |" % (m["name"], c["property"], ", ".join(os.path.basename(x) for x in m["files_changed"]),
              "yes" if m["confirmed"] else "NO", caught, c["exit"], "yes" if c["bounded_driver_also"] else "no"))
