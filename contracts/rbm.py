"""Spec functions for qucumber.rbm.{BinaryRBM,PurificationRBM}, written from the
mathematical definitions in the property statements (joint Boltzmann energy), not
from the code's closed forms."""
import itertools

import numpy as np

from qv import alg
from qv.alg import P, ZERO, ONE


def bits(n):
    return list(itertools.product((0, 1), repeat=n))


def params_of(module):
    """name -> ndarray(object) of the symbolized module's parameters."""
    return {n: p._arr for n, p in module.named_parameters()}


# ----------------------------------------------------------------- BinaryRBM
def joint_energy(par, v, h):
    """E(v,h) = -(b.v + c.h + h^T W v)"""
    W, b, c = par["weights"], par["visible_bias"], par["hidden_bias"]
    s = ZERO
    for i, vi in enumerate(v):
        if vi:
            s = s + b[i] * vi
    for j, hj in enumerate(h):
        if hj:
            s = s + c[j] * hj
            for i, vi in enumerate(v):
                if vi:
                    s = s + W[j, i] * (hj * vi)
    return -s


def marginal(par, v):
    """P(v) = sum_h exp(-E(v,h)), all 2^nh terms expanded."""
    nh = par["hidden_bias"].shape[0]
    tot = ZERO
    for h in bits(nh):
        tot = tot + alg.exp(-joint_energy(par, v, h))
    return tot


def marginal_h_on(par, v, j):
    """sum over h with h_j = 1 of exp(-E(v,h))"""
    nh = par["hidden_bias"].shape[0]
    tot = ZERO
    for h in bits(nh):
        if h[j]:
            tot = tot + alg.exp(-joint_energy(par, v, h))
    return tot


def marginal_v(par, h):
    nv = par["visible_bias"].shape[0]
    tot = ZERO
    for v in bits(nv):
        tot = tot + alg.exp(-joint_energy(par, v, h))
    return tot


def marginal_v_on(par, h, i):
    nv = par["visible_bias"].shape[0]
    tot = ZERO
    for v in bits(nv):
        if v[i]:
            tot = tot + alg.exp(-joint_energy(par, v, h))
    return tot


# ----------------------------------------------------------------- PurificationRBM
def joint_energy_p(par, v, h, a):
    """E(v,h,a) = -(b.v + c.h + d.a + h^T W v + a^T U v)"""
    W, U = par["weights_W"], par["weights_U"]
    b, c, d = par["visible_bias"], par["hidden_bias"], par["aux_bias"]
    s = ZERO
    for i, vi in enumerate(v):
        if vi:
            s = s + b[i] * vi
    for j, hj in enumerate(h):
        if hj:
            s = s + c[j] * hj
            for i, vi in enumerate(v):
                if vi:
                    s = s + W[j, i] * (hj * vi)
    for k, ak in enumerate(a):
        if ak:
            s = s + d[k] * ak
            for i, vi in enumerate(v):
                if vi:
                    s = s + U[k, i] * (ak * vi)
    return -s


def marginal_p_va(par, v, a):
    """sum_h exp(-E(v,h,a))"""
    nh = par["hidden_bias"].shape[0]
    tot = ZERO
    for h in bits(nh):
        tot = tot + alg.exp(-joint_energy_p(par, v, h, a))
    return tot


def marginal_p_v(par, v):
    """sum_{h,a} exp(-E(v,h,a))"""
    na = par["aux_bias"].shape[0]
    tot = ZERO
    for a in bits(na):
        tot = tot + marginal_p_va(par, v, a)
    return tot


def factors_p_va(par, v, a):
    """Positive factors whose product equals marginal_p_va (the standard product
    form of the hidden-unit sum).  The product identity itself is an obligation
    (`spec-factorisation`), so the factors are not trusted."""
    W, U = par["weights_W"], par["weights_U"]
    b, c, d = par["visible_bias"], par["hidden_bias"], par["aux_bias"]
    lin = ZERO
    for i, vi in enumerate(v):
        if vi:
            lin = lin + b[i]
    for k, ak in enumerate(a):
        if ak:
            lin = lin + d[k]
            for i, vi in enumerate(v):
                if vi:
                    lin = lin + U[k, i]
    fs = [("exp", lin)]
    for j in range(c.shape[0]):
        L = c[j]
        for i, vi in enumerate(v):
            if vi:
                L = L + W[j, i]
        fs.append(("1+exp", L))
    return fs


def factor_value(f):
    kind, arg = f
    return alg.exp(arg) if kind == "exp" else ONE + alg.exp(arg)


def factor_sqrt(f):
    kind, arg = f
    return alg.exp(arg / 2) if kind == "exp" else alg.sqrt(ONE + alg.exp(arg))


def factor_halflog_cis(f):
    """cis(1/2 log f)"""
    kind, arg = f
    return alg.cis(arg / 2) if kind == "exp" else alg.cis(alg.log(ONE + alg.exp(arg)) / 2)
