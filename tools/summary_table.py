#!/usr/bin/env python3
"""Markdown summary per property from the evidence files (for DESIGN.md section 12)."""
import json, os
V = os.path.dirname(os.path.dirname(os.path.abspath(__file__)))
man = {c["property_id"]: c for c in json.load(open(os.path.join(V, "MANIFEST.json")))["checks"]}
print("| property | front ends | obligations (quick) | back ends (discharged obligations) | proved for every size (front end G cases / Lean theorems) | bounded stand-ins (never counted) |")
print("|---|---|---|---|---|---|")
for i in range(1, 21):
    pid = "C%02d" % i
    e = json.load(open(os.path.join(V, "evidence", pid + ".json")))
    c = e["coverage"]
    be = ", ".join("%s %d" % (k, v) for k, v in sorted(c["back_ends"].items(), key=lambda kv: -kv[1]))
    g = c.get("proved_for_every_shape", {})
    lean = c["back_ends"].get("lean4+mathlib", 0)
    gcases = len(g.get("cases", []))
    outside = len(g.get("outside_the_fragment_(per-shape_proof_only)", []))
    every = ("%d cases" % gcases if gcases else "-") + ((", %d Lean theorems" % lean) if lean else "") + ((" (%d cases outside the fragment)" % outside) if outside else "")
    b = []
    for x in c.get("bounded", []):
        if x.get("driver"):
            b.append("driver: %s evaluations" % x.get("evaluations"))
        elif "conformance" in str(x.get("label")):
            b.append("model conformance: %s calls" % x.get("calls"))
        elif "cross-check" in str(x.get("label")):
            b.append("G cross-check: %s calls" % x.get("calls"))
        elif x.get("label"):
            b.append("%s: %s" % (x.get("label"), x.get("evaluations", "")))
    print("| %s | %s | %d | %s | %s | %s |" % (pid, man[pid]["engine"].replace("qv-", ""), c["obligations"], be, every, "; ".join(b)))
