"""C08 concrete driver: exact-distribution average of apply() vs tr(rho O) with np.kron operators (float64)."""
from functools import reduce

import numpy as np
import torch

from . import common as C

PA = {"X": np.array([[0, 1], [1, 0]], complex), "Y": np.array([[0, -1j], [1j, 0]]), "Z": np.array([[-1, 0], [0, 1]], complex)  # library spin convention: sample 0 -> -1, 1 -> +1 (to_pm1)
      , "1": np.eye(2, dtype=complex)}


def op_single(n, L):
    return sum(reduce(np.kron, [PA[L if s == i else "1"] for s in range(n)]) for i in range(n)) / n


def op_zz(n, c, periodic):
    pairs = [(i, (i + c) % n) for i in range(n)] if periodic else [(i, i + c) for i in range(n - c)]
    O = np.zeros((2 ** n, 2 ** n), complex)
    for i, j in pairs:
        O += np.eye(2 ** n) if i == j else reduce(np.kron, [PA["Z" if s in (i, j) else "1"] for s in range(n)])
    return O / n


def rho_of(state, kind, space):
    if kind == "mixed":
        r = state.rho(space, space)
        return r[0].numpy() + 1j * r[1].numpy()
    p = state.psi(space)
    psi = p[0].numpy() + 1j * p[1].numpy()
    return np.outer(psi, psi.conj())


def native_check(kind, n, env=None, seed=0):
    from qucumber.observables import SigmaX, SigmaY, SigmaZ, NeighbourInteraction
    rng = np.random.default_rng(seed)
    st = C.make_state(kind, n, n + 1, 2)
    C.randomize(st, rng)
    C.set_env(st, env)
    space = st.generate_hilbert_space(n)
    rho = rho_of(st, kind, space)
    p = np.real(np.diag(rho))
    fails = []
    keep = space.clone()
    obs = [("X", SigmaX(), op_single(n, "X")), ("Y", SigmaY(), op_single(n, "Y")), ("Z", SigmaZ(), op_single(n, "Z"))]
    for c in range(1, n + 1):
        for per in (False, True):
            obs.append(("ZZ c=%d periodic=%s" % (c, per), NeighbourInteraction(periodic_bcs=per, c=c), op_zz(n, c, per)))
    for name, o, O in obs:
        val = o.apply(st, space)
        if tuple(val.shape) != (2 ** n,) or val.is_complex():
            fails.append((name + ": not one real per row", tuple(val.shape)))
            continue
        lhs = float((torch.tensor(p) * val).sum())
        rhs = float(np.real(np.trace(rho @ O)))
        if abs(lhs - rhs) > 1e-9 * (1 + abs(rhs) + np.abs(p).sum()):
            fails.append((name + ": sum_s p(s) apply(s) != tr(rho O)", (lhs, rhs)))
        if not torch.equal(space, keep):
            fails.append((name + ": samples modified", None))
            space = keep.clone()
    # one value per row *in the order of the rows*: the whole basis in a shuffled order (no repeats) and with repeats
    perm = torch.tensor(rng.permutation(2 ** n))
    rep = torch.tensor(rng.integers(0, 2 ** n, size=(2 ** n + 3,)))
    for name, o, O in obs:
        base = o.apply(st, keep.clone())
        for tag, idx in (("shuffled distinct rows", perm), ("rows with repeats", rep)):
            got = o.apply(st, keep[idx].clone())
            if tuple(got.shape) != (len(idx),) or not torch.allclose(got, base[idx], rtol=1e-10, atol=1e-12):
                fails.append((name + ": value of a row depends on the batch it is in / on the row order (%s)" % tag, None))
    # history: the batch of an earlier call has been freed and another batch of the same shape sits where it was
    for name, o, O in obs:
        base = o.apply(st, keep.clone())
        b2 = C.at_freed_address(lambda: keep.clone(), lambda a, o=o: o.apply(st, a), lambda: keep[perm].clone())
        if b2 is not None:
            got = o.apply(st, b2)
            if not torch.allclose(got, base[perm], rtol=1e-10, atol=1e-12):
                fails.append((name + ": values for a batch that sits at the address of a freed earlier batch are not those of its rows", None))
    # history: observable objects that have served states with other numbers of sites give the same values afterwards
    fresh = {name: o.apply(st, keep.clone()) for name, o, O in obs}
    for order in ("shorter chains first", "longer chains first"):
        used = [("X", SigmaX()), ("Y", SigmaY()), ("Z", SigmaZ())]
        cs = {}
        for c in range(1, n + 1):
            for per in (False, True):
                used.append(("ZZ c=%d periodic=%s" % (c, per), NeighbourInteraction(periodic_bcs=per, c=c)))
                cs[used[-1][0]] = c
        for m in ([m for m in (1, n - 1) if 1 <= m < n] if order.startswith("shorter") else [n + 2, n + 1]):
            so = C.make_state(kind, m, 2, 1)
            sp = so.generate_hilbert_space(m)
            for name, o in used:
                if cs.get(name, 0) <= m:
                    o.apply(so, sp)
        for name, o in used:
            got = o.apply(st, keep.clone())
            if tuple(got.shape) != tuple(fresh[name].shape) or not torch.allclose(got, fresh[name], rtol=1e-12, atol=1e-14):
                fails.append((name + ": an observable object used on states with other numbers of sites before (%s) gives other values than a fresh one" % order, None))
    for L, cls in (("X", SigmaX), ("Y", SigmaY), ("Z", SigmaZ)):
        a, s = cls(absolute=True).apply(st, space), cls().apply(st, space)
        if not torch.allclose(a, s.abs()):
            fails.append((L + ": absolute != |signed|", None))
    return fails


def replay(cfg, env):
    kinds = [cfg["kind"]] if "kind" in cfg else (["positive", "complex"] if cfg.get("flavour") == "pure" else ["mixed"]) if "flavour" in cfg else ["positive", "complex", "mixed"]
    fails = []
    for kind in kinds:
        for s in range(2):
            fails = native_check(kind, cfg["n"], env if s == 0 else None, s)
            if fails:
                break
        if fails:
            break
    return {"reproduced": bool(fails), "failed_clauses": [(a, str(b)) for a, b in fails[:4]], "env": env, "cfg": cfg}


def bounded(tier, seed):
    n, bad = 0, []
    for kind in ("positive", "complex", "mixed"):
        for nv in ((1, 2, 3) if tier == "quick" else (1, 2, 3, 4, 5)):
            if kind == "mixed" and nv > 3:
                continue
            f = native_check(kind, nv, None, seed)
            n += 1
            if f:
                bad.append((kind, nv, f[:2]))
    return {"driver": "drivers/C08.native_check", "label": "bounded", "evaluations": n, "failures": len(bad),
            "bound": "float64; one random parameter draw per (state type, n); all observables, c=1..n, both boundary conditions", "first_failures": bad[:3]}
