/-
Size-generic facts behind the training statistics (C10) and the SWAP estimator (C09), for every dimension of the
Hilbert space / every number of sites.  Checked by Lean 4 + Mathlib; no `sorry`, no extra axioms.
-/
import Mathlib.Analysis.SpecialFunctions.Log.Basic
import Mathlib.Analysis.InnerProductSpace.Basic
import Mathlib.Algebra.BigOperators.Ring.Finset
import Mathlib.Data.Fintype.BigOperators
import Mathlib.Data.Complex.BigOperators

open Finset BigOperators

namespace QuCumber

/-- C10, Gibbs' inequality: the Kullback-Leibler divergence of two strictly positive probability vectors is >= 0 -/
theorem kl_nonneg {ι : Type*} [Fintype ι] (p q : ι → ℝ) (hp : ∀ i, 0 < p i) (hq : ∀ i, 0 < q i)
    (sp : ∑ i, p i = 1) (sq : ∑ i, q i = 1) :
    0 ≤ ∑ i, p i * Real.log (p i) - ∑ i, p i * Real.log (q i) := by
  have h : ∀ i, p i * Real.log (q i) - p i * Real.log (p i) ≤ q i - p i := by
    intro i
    have h1 := Real.log_le_sub_one_of_pos (div_pos (hq i) (hp i))
    rw [Real.log_div (hq i).ne' (hp i).ne'] at h1
    have h2 := mul_le_mul_of_nonneg_left h1 (hp i).le
    have h3 : p i * (q i / p i - 1) = q i - p i := by
      have hne : p i ≠ 0 := (hp i).ne'
      field_simp
    linarith
  have hs : ∑ i, (p i * Real.log (q i) - p i * Real.log (p i)) ≤ ∑ i, (q i - p i) :=
    Finset.sum_le_sum fun i _ => h i
  rw [Finset.sum_sub_distrib, Finset.sum_sub_distrib, sp, sq] at hs
  linarith

/-- C10: KL of a distribution against itself vanishes -/
theorem kl_self {ι : Type*} [Fintype ι] (p : ι → ℝ) :
    ∑ i, p i * Real.log (p i) - ∑ i, p i * Real.log (p i) = 0 := by
  exact sub_self _

/-- C10, pure-state fidelity is at most 1 for normalised states (Cauchy-Schwarz):
    |sum_i conj(t_i) psi_i|^2 <= (sum_i |t_i|^2) (sum_i |psi_i|^2) -/
theorem fidelity_le {ι : Type*} [Fintype ι] (t ψ : ι → ℂ) :
    Complex.normSq (∑ i, (starRingEnd ℂ (t i)) * ψ i) ≤ (∑ i, Complex.normSq (t i)) * (∑ i, Complex.normSq (ψ i)) := by
  have h2 : ‖∑ i, (starRingEnd ℂ (t i)) * ψ i‖ ≤ ∑ i, ‖t i‖ * ‖ψ i‖ := by
    refine (norm_sum_le _ _).trans_eq ?_
    refine Finset.sum_congr rfl fun i _ => ?_
    rw [norm_mul, Complex.norm_conj]
  have h3 := Finset.sum_mul_sq_le_sq_mul_sq Finset.univ (fun i => ‖t i‖) (fun i => ‖ψ i‖)
  simp only [Complex.normSq_eq_norm_sq]
  calc ‖∑ i, (starRingEnd ℂ (t i)) * ψ i‖ ^ 2 ≤ (∑ i, ‖t i‖ * ‖ψ i‖) ^ 2 :=
        pow_le_pow_left₀ (norm_nonneg _) h2 2
    _ ≤ _ := h3

/-- C10: fidelity of a state with itself, divided by its squared norm twice, is 1 (stated without division) -/
theorem fidelity_self {ι : Type*} [Fintype ι] (ψ : ι → ℂ) :
    Complex.normSq (∑ i, (starRingEnd ℂ (ψ i)) * ψ i) = (∑ i, Complex.normSq (ψ i)) * (∑ i, Complex.normSq (ψ i)) := by
  have h : ∑ i, (starRingEnd ℂ (ψ i)) * ψ i = ((∑ i, Complex.normSq (ψ i) : ℝ) : ℂ) := by
    rw [Complex.ofReal_sum]
    refine Finset.sum_congr rfl fun i _ => ?_
    rw [Complex.normSq_eq_conj_mul_self]
  rw [h, Complex.normSq_ofReal]

/-- |ψ|² · (ψ'/ψ) = conj(ψ) · ψ' (local copy of the helper of Estimators.lean) -/
theorem normSq_mul_ratio' (ψ ψ' : ℂ) (h : ψ ≠ 0) :
    ((Complex.normSq ψ : ℝ) : ℂ) * (ψ' / ψ) = (starRingEnd ℂ ψ) * ψ' := by
  rw [Complex.normSq_eq_conj_mul_self]
  field_simp

/-- exchanging the region-A part of two configurations -/
def swapA {n : ℕ} (A : Finset (Fin n)) (σ σ' : Fin n → Bool) : Fin n → Bool := fun i => if i ∈ A then σ' i else σ i

/-- C09: the |psi|^2 |psi|^2 - weighted sum over pairs of configurations of the per-pair value the SWAP observable is
    proved to compute, Re[ psi(s1')/psi(s1) * psi(s2')/psi(s2) ], is
    Re sum_{s,s'} conj psi(s) conj psi(s') psi(swapA s s') psi(swapA s' s)   (= Tr rho_A^2 written out), every n, every A -/
theorem swap_estimator (n : ℕ) (A : Finset (Fin n)) (ψ : (Fin n → Bool) → ℂ) (hne : ∀ σ, ψ σ ≠ 0) :
    ∑ σ : Fin n → Bool, ∑ σ' : Fin n → Bool, Complex.normSq (ψ σ) * Complex.normSq (ψ σ') *
        ((ψ (swapA A σ σ') / ψ σ) * (ψ (swapA A σ' σ) / ψ σ')).re
      = (∑ σ : Fin n → Bool, ∑ σ' : Fin n → Bool,
          (starRingEnd ℂ (ψ σ)) * (starRingEnd ℂ (ψ σ')) * ψ (swapA A σ σ') * ψ (swapA A σ' σ)).re := by
  rw [Complex.re_sum]
  refine Finset.sum_congr rfl fun σ _ => ?_
  rw [Complex.re_sum]
  refine Finset.sum_congr rfl fun σ' _ => ?_
  rw [← Complex.re_ofReal_mul, Complex.ofReal_mul]
  congr 1
  have e1 := normSq_mul_ratio' (ψ σ) (ψ (swapA A σ σ')) (hne σ)
  have e2 := normSq_mul_ratio' (ψ σ') (ψ (swapA A σ' σ)) (hne σ')
  calc _ = (((Complex.normSq (ψ σ) : ℝ) : ℂ) * (ψ (swapA A σ σ') / ψ σ)) *
            (((Complex.normSq (ψ σ') : ℝ) : ℂ) * (ψ (swapA A σ' σ) / ψ σ')) := by ring
    _ = _ := by rw [e1, e2]; ring

end QuCumber

#print axioms QuCumber.kl_nonneg
#print axioms QuCumber.kl_self
#print axioms QuCumber.fidelity_le
#print axioms QuCumber.fidelity_self
#print axioms QuCumber.swap_estimator
