"""C17 concrete driver: a real training run with evaluators / saver / logger; records, CSV and saved files vs the trace."""
import csv
import os
import shutil
import tempfile

import numpy as np
import torch

from . import common as C


def one_run(kind, se, ep, periods, stop_epoch=None, metadata="callable", seed=0):
    from qucumber.callbacks import MetricEvaluator, ObservableEvaluator, ModelSaver, Logger, LambdaCallback
    from qucumber.observables import SigmaZ
    rng = np.random.default_rng(seed)
    torch.manual_seed(seed)
    st = C.make_state(kind, 2, 2, 1)
    tmp = tempfile.mkdtemp(prefix="vf_c17d_")
    fails = []
    try:
        N = 4
        data = torch.tensor(rng.integers(0, 2, size=(N, 2)), dtype=torch.double)
        kw = {}
        if kind != "positive":
            kw["input_bases"] = np.array([list("ZZ"), list("XZ"), list("ZZ"), list("ZY")])
        p1, p2, p3, p4 = periods
        snap = {}
        ran = []

        def metric(s, **k):
            return float(sum(float(p.sum()) for p in s.rbm_am.parameters()))
        log1, log2 = os.path.join(tmp, "m.csv"), os.path.join(tmp, "o.csv")
        me = MetricEvaluator(p1, {"psum": metric, "const": lambda s, **k: 1.5}, log=log1)
        oe = ObservableEvaluator(p2, [SigmaZ()], log=log2, num_samples=20, burn_in=2)
        md = {"callable": (lambda s, e: {"epoch": e}), "dict": {"tag": "t"}, "none": None}[metadata]
        ms = ModelSaver(p3, os.path.join(tmp, "models"), "m_{}.pt", save_initial=True, metadata=md)
        lines = []
        lg = Logger(p4, logger_fn=lines.append, msg_gen=lambda s, e, **k: "E%d" % e)

        def on_end(s, e):
            ran.append(e)
            snap[e] = {(net, n): p.detach().clone() for net in s.networks for n, p in getattr(s, net).named_parameters()}
            if stop_epoch is not None and e == stop_epoch:
                s.stop_training = True
        init = {(net, n): p.detach().clone() for net in st.networks for n, p in getattr(st, net).named_parameters()}
        # the recorder runs first so that the snapshot is the state every later callback sees at that epoch end
        st.fit(data, epochs=ep, starting_epoch=se, pos_batch_size=2, k=1, lr=0.1, callbacks=[LambdaCallback(on_epoch_end=on_end), me, oe, ms, lg], **kw)
        want = lambda p: [e for e in ran if e % p == 0]
        if list(me.epochs) != want(p1) or len(me) != len(want(p1)):
            fails.append("MetricEvaluator acted at %s, expected %s" % (list(me.epochs), want(p1)))
        if list(oe.epochs) != want(p2):
            fails.append("ObservableEvaluator acted at %s, expected %s" % (list(oe.epochs), want(p2)))
        if lines != ["E%d" % e for e in want(p4)]:
            fails.append("Logger lines %s, expected epochs %s" % (lines, want(p4)))
        if np.shape(me.psum) != (len(want(p1)),) or np.shape(me["const"]) != (len(want(p1)),):
            fails.append("per-name value arrays have shapes %s / %s for %d evaluations" % (np.shape(me.psum), np.shape(me["const"]), len(want(p1))))
        if want(p2) and np.shape(oe.SigmaZ.mean) != (len(want(p2)),):
            fails.append("per-observable statistic arrays have shape %s for %d evaluations" % (np.shape(oe.SigmaZ.mean), len(want(p2))))
        for i, e in enumerate(want(p1)):
            v = float(sum(float(p.sum()) for (net, n), p in snap[e].items() if net == "rbm_am"))
            if abs(me.psum[i] - v) > 1e-12 or me["const"][i] != 1.5 or me.get_value("psum", i) != me.psum[i]:
                fails.append("MetricEvaluator value at epoch %d does not match the model at that epoch end" % e)
        if want(p1) and (me.last != me.past_values[-1][1] or me.get_value("psum") != me.psum[-1]):
            fails.append("MetricEvaluator.last / default get_value wrong")
        rows = list(csv.DictReader(open(log1)))
        if [int(r["epoch"]) for r in rows] != want(p1) or any(abs(float(r["psum"]) - me.psum[i]) > 1e-9 for i, r in enumerate(rows)):
            fails.append("metric CSV log does not match the records")
        rows = list(csv.DictReader(open(log2)))
        if [int(r["epoch"]) for r in rows] != want(p2) or any(abs(float(r["SigmaZ_mean"]) - oe.SigmaZ.mean[i]) > 1e-9 for i, r in enumerate(rows)):
            fails.append("observable CSV log does not match the records")
        files = sorted(os.listdir(os.path.join(tmp, "models")))
        expect = sorted(["m_initial.pt"] + ["m_%d.pt" % e for e in want(p3)])
        if files != expect:
            fails.append("saved files %s, expected %s" % (files, expect))
        for e in ["initial"] + want(p3):
            f = os.path.join(tmp, "models", "m_%s.pt" % e)
            if not os.path.exists(f):
                continue
            ref = init if e == "initial" else snap[e]
            st2 = type(st).autoload(f)
            for net in st2.networks:
                for n, p in getattr(st2, net).named_parameters():
                    if not torch.equal(p.detach(), ref[(net, n)]):
                        fails.append("file for epoch %s does not reload to the parameters at that epoch end (%s.%s)" % (e, net, n))
                        break
            d = torch.load(f)
            if metadata == "callable" and d.get("epoch") != (0 if e == "initial" else e):
                fails.append("callable metadata missing / wrong in file for epoch %s" % e)
            if metadata == "dict" and d.get("tag") != "t":
                fails.append("dict metadata missing in file for epoch %s" % e)
        me.clear_history()
        if len(me) != 0 or me.last != {}:
            fails.append("clear_history did not clear")
    except Exception as ex:
        fails.append("raised %r" % (ex,))
    finally:
        shutil.rmtree(tmp, ignore_errors=True)
    return fails


def failed_evaluation(kind="positive", seed=0):
    """A metric (an observable's sampling) raises once during a real fit; the caller catches the error and resumes the run
    from that epoch with the same callbacks: the records are those of the completed evaluations, one per scheduled epoch."""
    from qucumber.callbacks import MetricEvaluator, ObservableEvaluator
    from qucumber.observables import SigmaZ, ObservableBase
    rng = np.random.default_rng(seed)
    torch.manual_seed(seed)
    st = C.make_state(kind, 2, 2, 1)
    data = torch.tensor(rng.integers(0, 2, size=(4, 2)), dtype=torch.double)
    kw = {} if kind == "positive" else {"input_bases": np.array([list("ZZ"), list("XZ"), list("ZZ"), list("ZY")])}
    boom = {"metric": 4, "obs": 3}
    seen = []

    def mA(s, **k):
        return float(len(seen))

    def mB(s, **k):
        seen.append(1)
        if boom["metric"] is not None and len(seen) == boom["metric"]:
            boom["metric"] = None
            raise RuntimeError("metric failed once")
        return 2.0

    class Flaky(ObservableBase):
        name = "Flaky"
        symbol = "F"
        n = 0

        def apply(self, nn_state, samples):
            Flaky.n += 1
            if boom["obs"] is not None and Flaky.n == boom["obs"]:
                boom["obs"] = None
                raise RuntimeError("observable failed once")
            return samples.sum(-1)
    me = MetricEvaluator(1, {"A": mA, "B": mB})
    oe = ObservableEvaluator(2, [SigmaZ(), Flaky()], num_samples=8, burn_in=1, steps=1)
    fails = []
    start, last, guard = 1, 7, 0
    while start <= last and guard < 5:
        guard += 1
        try:
            st.fit(data, epochs=last, pos_batch_size=2, neg_batch_size=2, k=1, lr=0.01, starting_epoch=start, callbacks=[me, oe], **kw)
            break
        except RuntimeError as e:
            if "failed once" not in str(e):
                raise
            done = len(me)                       # epochs whose metric evaluation completed: resume at the next one
            start = done + 1
    if [int(e) for e in me.epochs] != list(range(1, last + 1)):
        fails.append(("MetricEvaluator records after a failed evaluation and a resumed run", [int(e) for e in me.epochs]))
    if any(set(v.keys()) != {"A", "B"} for _, v in me.past_values):
        fails.append(("MetricEvaluator holds a partial record", [sorted(v) for _, v in me.past_values]))
    if me.last != me.past_values[-1][1]:
        fails.append(("MetricEvaluator.last is not the last record", None))
    eo = [int(e) for e in oe.epochs]
    if len(set(eo)) != len(eo) or any(e % 2 for e in eo) or oe.last != oe.past_values[-1][1]:
        fails.append(("ObservableEvaluator records after a failed evaluation and a resumed run", eo))
    return fails


def failed_save(seed=0):
    """A save through ModelSaver raises (metadata with a key that save() reserves for this state type); the caller catches
    the error and uses the same ModelSaver for another run: every scheduled checkpoint of that run is written and loads."""
    from qucumber.callbacks import ModelSaver
    from qucumber.nn_states import PositiveWaveFunction
    rng = np.random.default_rng(seed)
    torch.manual_seed(seed)
    tmp = tempfile.mkdtemp(prefix="vf_c17s_")
    fails = []
    try:
        sv = ModelSaver(1, tmp, "ck_{}.pt", save_initial=True, metadata={"unitary_dict": "my own note"})
        cw = C.make_state("complex", 2, 2)
        data = torch.tensor(rng.integers(0, 2, size=(4, 2)), dtype=torch.double)
        try:
            cw.fit(data, epochs=2, pos_batch_size=2, neg_batch_size=2, k=1, lr=0.01, input_bases=np.array([list("ZZ")] * 4), callbacks=[sv])
            fails.append(("a reserved metadata key was accepted through ModelSaver", None))
        except ValueError:
            pass
        pw = C.make_state("positive", 2, 2)
        C.randomize(pw, rng)
        pw.fit(data, epochs=3, pos_batch_size=2, neg_batch_size=2, k=1, lr=0.01, callbacks=[sv])
        for nm in ("initial", 1, 2, 3):
            pth = os.path.join(tmp, "ck_%s.pt" % nm)
            if not os.path.exists(pth):
                fails.append(("checkpoint not written by a ModelSaver that had a failed save before", "ck_%s.pt" % nm))
        pth = os.path.join(tmp, "ck_3.pt")
        if os.path.exists(pth):
            back = PositiveWaveFunction.autoload(pth)
            if not all(torch.equal(a, b) for a, b in zip(back.rbm_am.parameters(), pw.rbm_am.parameters())):
                fails.append(("last checkpoint does not hold the trained parameters", None))
    finally:
        shutil.rmtree(tmp, ignore_errors=True)
    return fails


def late_metadata(seed=0):
    """The caller's metadata dictionary is empty when the ModelSaver is built and filled before training starts: every
    checkpoint carries what the dictionary holds when it is written."""
    from qucumber.callbacks import ModelSaver
    rng = np.random.default_rng(seed)
    torch.manual_seed(seed)
    tmp = tempfile.mkdtemp(prefix="vf_c17m_")
    fails = []
    try:
        md = {}
        sv = ModelSaver(1, tmp, "ck_{:>04}.pt", save_initial=True, metadata=md)       # a format spec that also fits the label of the initial save
        sv2 = ModelSaver(1, tmp, "n_{:03d}.pt", save_initial=False)
        md["run"] = "r7"
        md["lr"] = 0.01
        pw = C.make_state("positive", 2, 2)
        data = torch.tensor(rng.integers(0, 2, size=(4, 2)), dtype=torch.double)
        pw.fit(data, epochs=2, pos_batch_size=2, neg_batch_size=2, k=1, lr=0.01, callbacks=[sv, sv2])
        names = sorted(os.listdir(tmp))
        if names != sorted(["ck_initial.pt", "ck_0001.pt", "ck_0002.pt", "n_001.pt", "n_002.pt"]):
            fails.append(("files are not named file_name.format(epoch)", names))
            return fails
        for nm in ("initial", "0001", "0002"):
            got = torch.load(os.path.join(tmp, "ck_%s.pt" % nm), weights_only=False)
            if got.get("run") != "r7" or got.get("lr") != 0.01:
                fails.append(("checkpoint ck_%s.pt does not carry the caller's metadata (dictionary filled after the ModelSaver was built)" % nm, sorted(k for k in got if k not in ("rbm_am", "rbm_ph", "unitary_dict"))))
    finally:
        shutil.rmtree(tmp, ignore_errors=True)
    return fails


def relative_folder(seed=0):
    """A ModelSaver given a relative folder, and a working directory that changes between its construction and the run
    (and during the run): every file is written to the folder the path named when it was given, and load() of those
    files gives back the parameters of the epoch."""
    from qucumber.callbacks import ModelSaver, LambdaCallback
    rng = np.random.default_rng(seed)
    torch.manual_seed(seed)
    tmp = os.path.realpath(tempfile.mkdtemp(prefix="vf_c17r_"))
    here = os.getcwd()
    fails = []
    try:
        a, b, c = (os.path.join(tmp, x) for x in "ABC")
        for x in (a, b, c):
            os.mkdir(x)
        os.chdir(a)
        sv = ModelSaver(1, "ckpt", "m_{}.pt", save_initial=True)
        os.chdir(b)
        pw = C.make_state("positive", 2, 2)
        data = torch.tensor(rng.integers(0, 2, size=(4, 2)), dtype=torch.double)
        snaps = {}
        mover = LambdaCallback(on_epoch_start=lambda s, e: os.chdir(c) if e == 2 else None,
                               on_epoch_end=lambda s, e: snaps.__setitem__(e, s.rbm_am.weights.detach().clone()))
        pw.fit(data, epochs=2, pos_batch_size=2, neg_batch_size=2, k=1, lr=0.05, callbacks=[mover, sv])
        os.chdir(here)
        got = sorted(os.listdir(os.path.join(a, "ckpt"))) if os.path.isdir(os.path.join(a, "ckpt")) else None
        if got != ["m_1.pt", "m_2.pt", "m_initial.pt"]:
            fails.append(("relative folder: the files are not in the folder the path named when the ModelSaver was built", got))
        stray = [x for x in (b, c) if os.listdir(x)]
        if stray:
            fails.append(("relative folder: files were written under a later working directory", [os.path.relpath(x, tmp) for x in stray]))
        if not fails:
            for e in (1, 2):
                w = torch.load(os.path.join(a, "ckpt", "m_%d.pt" % e), weights_only=False)["rbm_am"]["weights"]
                if not torch.equal(w, snaps[e]):
                    fails.append(("relative folder: m_%d.pt does not hold the parameters at the end of epoch %d" % (e, e), None))
    except Exception as e:                           # noqa: BLE001
        fails.append(("relative folder: %r" % (e,), None))
    finally:
        os.chdir(here)
        shutil.rmtree(tmp, ignore_errors=True)
    return fails


def clashing_names(seed=0):
    """Metrics / observables whose names are also attributes of the evaluator: subscripting gives the recorded values."""
    from qucumber.callbacks import MetricEvaluator, ObservableEvaluator
    from qucumber.observables import SigmaZ
    rng = np.random.default_rng(seed)
    torch.manual_seed(seed)
    st = C.make_state("positive", 2, 2)
    data = torch.tensor(rng.integers(0, 2, size=(4, 2)), dtype=torch.double)
    ret = {"wsum": [], "last": [], "epochs": [], "period": []}

    def mk(nm, f):
        def m(s, **k):
            v = f(s)
            ret[nm].append(v)
            return v
        return m
    me = MetricEvaluator(2, {"wsum": mk("wsum", lambda s: float(s.rbm_am.weights.sum())), "last": mk("last", lambda s: float(s.rbm_am.visible_bias.sum())),
                             "epochs": mk("epochs", lambda s: float(s.rbm_am.hidden_bias.sum())), "period": mk("period", lambda s: 1.5)})
    oz = SigmaZ()
    oz.name = "period"
    oe = ObservableEvaluator(3, [SigmaZ(), oz], num_samples=8, burn_in=1, steps=1)
    # names that need quoting in a CSV file, logged to disk and read back with the csv module
    tmp = tempfile.mkdtemp(prefix="vf_c17q_")
    awkward = {"KL(p,q)": lambda s, **k: float(s.rbm_am.weights.sum()), 'fidelity "Z"': lambda s, **k: 0.25, "plain": lambda s, **k: -1.0,
               "text, value": lambda s, **k: "a,b"}
    mq = MetricEvaluator(2, awkward, log=os.path.join(tmp, "mq.csv"))
    oq_obs = SigmaZ()
    oq_obs.name = "sigma_z, site average"
    oq = ObservableEvaluator(3, iter([oq_obs, SigmaZ()]), num_samples=8, burn_in=1, steps=1, log=os.path.join(tmp, "oq.csv"))    # a one-shot iterable
    st.fit(data, epochs=9, pos_batch_size=2, neg_batch_size=2, k=1, lr=0.05, callbacks=[me, oe, mq, oq])
    fails = []
    try:
        rows = list(csv.DictReader(open(os.path.join(tmp, "mq.csv"), newline="")))
        if [r.get("epoch") for r in rows] != ["2", "4", "6", "8"] or any(set(r) != {"epoch"} | set(awkward) for r in rows) or \
                any(r[nm] != str(v[nm]) for r, (_, v) in zip(rows, mq.past_values) for nm in awkward):
            fails.append(("metric CSV log with names / values that contain commas and quotes does not read back as the records", None))
        rows = list(csv.DictReader(open(os.path.join(tmp, "oq.csv"), newline="")))
        cols = ["%s_%s" % (nm, s_) for nm in ("sigma_z, site average", "SigmaZ") for s_ in ("mean", "variance", "std_error")]
        if [r.get("epoch") for r in rows] != ["3", "6", "9"] or any(set(r) != {"epoch"} | set(cols) for r in rows) or \
                any(float(r["%s_%s" % (nm, s_)]) != float(v[nm][s_]) for r, (_, v) in zip(rows, oq.past_values)
                    for nm in ("sigma_z, site average", "SigmaZ") for s_ in ("mean", "variance", "std_error")):
            fails.append(("observable CSV log with a name that contains a comma does not read back as the records", None))
    except Exception as e:                           # noqa: BLE001
        fails.append(("reading the CSV logs back raised %r" % (e,), None))
    finally:
        shutil.rmtree(tmp, ignore_errors=True)
    # every accessor of the evaluators against the raw records of this run
    try:
        recs = oe.past_values
        for nm in ("SigmaZ", "period"):
            stats = oe[nm]
            for stat, plural in (("mean", "means"), ("variance", "variances"), ("std_error", "std_errors")):
                want = [float(v[nm][stat]) for _, v in recs]
                for form, arr in ((stat, getattr(stats, stat)), (plural, getattr(stats, plural)), ("[%r]" % stat, stats[stat])):
                    if [float(x) for x in arr] != want:
                        fails.append(("ObservableEvaluator[%r].%s is not the list of recorded values" % (nm, form), None))
            if oe.get_value(nm) != recs[-1][1][nm] or oe.get_value(nm, 0) != recs[0][1][nm] or oe.get_value(nm, -len(recs)) != recs[0][1][nm]:
                fails.append(("ObservableEvaluator.get_value(%r[, index]) is not the record at that index (default: the last one)" % nm, None))
        if [int(e) for e in oe.epochs] != [e for e, _ in recs] or len(oe) != len(recs) or oe.names != ["SigmaZ", "period"]:
            fails.append(("ObservableEvaluator.epochs / len / names disagree with the records", None))
        empty = ObservableEvaluator(3, [SigmaZ()])
        if len(empty) != 0 or len(empty["SigmaZ"].means) != 0 or len(empty["SigmaZ"]["variance"]) != 0 or len(empty.epochs) != 0:
            fails.append(("accessors of an evaluator without records are not empty", None))
        for nm in ret:
            if float(me.get_value(nm)) != ret[nm][-1] or float(me.get_value(nm, 0)) != ret[nm][0] or float(me.get_value(nm, -2)) != ret[nm][-2]:
                fails.append(("MetricEvaluator.get_value(%r[, index]) is not the value recorded at that index" % nm, None))
    except Exception as e:                           # noqa: BLE001
        fails.append(("an accessor of the evaluators raised %r" % (e,), None))
    for nm in ret:
        try:
            got = [float(x) for x in me[nm]]
        except Exception as e:                       # noqa: BLE001
            got = repr(e)
        if got != ret[nm]:
            fails.append(("MetricEvaluator[%r] is not the list of values recorded for that metric" % nm, got))
    try:
        ok = [float(x) for x in oe["period"]["mean"]] == [float(v["period"]["mean"]) for _, v in oe.past_values]
    except Exception as e:                           # noqa: BLE001
        ok = False
    if not ok:
        fails.append(("ObservableEvaluator['period']['mean'] is not the recorded means of the observable named 'period'", None))
    return fails


def native_check(quick=True):
    fails, n = [], 0
    f = clashing_names()
    n += 1
    if f:
        fails.append((("names that are also attributes of the evaluator",), f[:2]))
    f = late_metadata()
    n += 1
    if f:
        fails.append((("metadata dictionary filled after construction",), f[:2]))
    f = relative_folder()
    n += 1
    if f:
        fails.append((("relative folder, working directory changed",), f[:2]))
    f = failed_save()
    n += 1
    if f:
        fails.append((("failed save, ModelSaver reused",), f[:2]))
    for kind in ("positive", "complex"):
        f = failed_evaluation(kind)
        n += 1
        if f:
            fails.append((("failed evaluation, resumed", kind), f[:2]))
    runs = [("positive", 1, 6, (1, 2, 3, 4), None, "callable"), ("complex", 2, 7, (2, 3, 2, 1), 5, "dict"), ("mixed", 1, 4, (1, 1, 2, 3), 3, "dict"),
            ("positive", 3, 9, (3, 2, 4, 5), 8, "none"), ("complex", 1, 4, (2, 2, 2, 2), None, "callable"),
            ("positive", 1, 5, (3, 4, 5, 2), None, "dict"), ("positive", 3, 7, (4, 5, 6, 7), None, "none")]      # evaluators that fire exactly once
    if not quick:
        runs += [(k, se, ep, ps, stp, md) for k in ("positive", "complex", "mixed") for (se, ep) in ((1, 5), (4, 9)) for ps in ((1, 2, 3, 5), (2, 2, 1, 1))
                 for stp in (None, 4) for md in ("dict", "callable")]
    for r in runs:
        f = one_run(*r)
        n += 1
        if f:
            fails.append((r, f[:2]))
    return fails, n


def replay(cfg):
    f, n = native_check(True)
    return {"reproduced": bool(f), "failed_clauses": [str(x)[:400] for x in f[:3]]}


def bounded(tier, seed):
    f, n = native_check(tier == "quick")
    return {"driver": "drivers/C17.one_run", "label": "bounded", "evaluations": n, "failures": len(f),
            "bound": "real fit with MetricEvaluator, ObservableEvaluator, ModelSaver (callable / dict / no metadata) and Logger at different periods, with and without a stop; records, CSV logs and reloaded files compared with per-epoch parameter snapshots",
            "first_failures": [str(x)[:400] for x in f[:3]]}
