"""C12 — training follows the documented event protocol and honours stop requests (front end A)."""
from qv import astvc as A
from qv.astvc import VC, AND, OR, NOT
from contracts import fitworld as FW

LEVEL = "proof"
MANIFEST = {
    "engine": "qv-astvc",
    "category": "proof",
    "technique": "contract on NeuralStateBase.fit (and the three overrides' guards): source recompiled in a sandbox, epoch and batch loops replaced by Hoare cut points with invariants over a ghost protocol monitor; CallbackList dispatch loops, LambdaCallback and Timer contracts; obligations discharged by z3",
    "text": "fit is executed for symbolic starting_epoch, epochs, N, batch sizes and k against a ghost protocol monitor; a stop request may arrive at every event (explored both ways) and fit itself must never write the flag. Proved for every number of epochs and batches: train_start once and first; epochs starting_epoch..epochs consecutively (empty ranges allowed); per epoch epoch_start, batches 0,1,... as start/end pairs, epoch_end; all batches / epochs run unless a stop was requested; parameters (optimizer.step, gradient writes) only inside a batch pair; after a stop seen at a batch end no further batch starts, epoch_end and train_end still fire, no further epoch starts; train_end exactly once; a run started with the flag set emits nothing and touches nothing. CallbackList dispatches each event to every callback in list order; LambdaCallback's arity table and Timer's read-only behaviour are decided on the real classes.",
    "note": "user callbacks interact with fit only through stop_training (and may set it at any event); mathematical integers; the loops' ghost frames are explicit (only the cells a loop can write are havocked); tqdm is the identity iterator",
}
EXPLANATION = "ghost protocol monitor with symbolic counters; loop invariants proved preserved by one arbitrary iteration"
TRUSTED = ["user callbacks touch the training state only through stop_training", "tqdm iterates its argument unchanged"]


def configs(tier):
    out = []
    for nets in (["rbm_am"], ["rbm_am", "rbm_ph"]):
        for sched in (False, True):
            out.append({"part": "fit", "nets": nets, "bases": len(nets) == 2, "scheduler": sched, "data": "tensor"})
    out.append({"part": "fit", "nets": ["rbm_am"], "bases": False, "scheduler": False, "data": "array"})
    out.append({"part": "already-stopped"})
    out.append({"part": "callback-list"})
    out.append({"part": "lambda-timer"})
    out.append({"part": "overrides"})
    # the callee whose contract fixes how many batches an epoch has (one start/end pair each): _shuffle_data itself
    for bases in (False, True):
        out.append({"part": "shuffle", "bases": bases, "neg": "different"})
    return out


def canaries(tier):
    return [({"part": "fit", "nets": ["rbm_am"], "bases": False, "scheduler": False, "data": "tensor"}, "spec-no-epoch-end-after-stop")]


def _shuffle_contract(ctx, cfg):
    from lemmas import C07
    return C07._shuffle(ctx, cfg)


def run_config(ctx, cfg):
    return {"shuffle": _shuffle_contract, "fit": fit_part, "already-stopped": _already_stopped, "callback-list": _cblist, "lambda-timer": _lambda_timer,
            "overrides": _overrides}[cfg["part"]](ctx, cfg)


def fit_part(ctx, cfg, prop="C12"):
    from qucumber.nn_states.neural_state import NeuralStateBase
    canary = getattr(ctx, "canary", None)
    vc = VC(ctx)
    ctx.under_contract("NeuralStateBase.fit")
    ctx.stub("CallbackList", "optimizer", "scheduler", "_shuffle_data", "compute_batch_gradients", "vector_to_grads", "extract_refbasis_samples", "tqdm")
    holder = {}

    def run():
        w = FW.FitWorld(vc, prop, cfg["nets"], cfg["bases"], cfg["scheduler"], cfg["data"], canary=canary)
        f, rew = FW.make_sandbox(vc, w, NeuralStateBase.fit, NeuralStateBase)
        holder["rew"] = rew
        ret, me, data = FW.run_fit(vc, w, f, time=cfg.get("time", False))
        w.check("C12", "post/fit returns None", ret is None)
        w.check("C12", "post/train_end fired (exactly once, last)", w.phase == "ENDED")
        w.check("C12", "post/fit never writes the stop flag itself", not w.fit_wrote_stop)
        if canary == "spec-no-epoch-end-after-stop":
            w.check("C12", "canary/epoch_end never follows a stop", NOT(w.stop))
        w.check("C07", "post/the caller's data and bases are never written", not w.data_written)
        w.check(("C12", "C06"), "post/no parameter update outside the run", True)
    vc.explore(run, "fit")
    ctx.rewritten = holder.get("rew", [])
    vc.flush()
    ctx.holds("exploration/paths explored", vc.paths > 4, str(vc.paths))


def _already_stopped(ctx, cfg):
    from qucumber.nn_states.neural_state import NeuralStateBase
    vc = VC(ctx)
    ctx.under_contract("NeuralStateBase.fit")

    def run():
        w = FW.FitWorld(vc, "C12", ["rbm_am"], False, False, "tensor", stop_initially=True)
        f, rew = FW.make_sandbox(vc, w, NeuralStateBase.fit, NeuralStateBase)
        ret, me, data = FW.run_fit(vc, w, f)
        w.check("C12", "already-stopped/returns at once", ret is None)
        w.check("C12", "already-stopped/no event is emitted", w.phase == "IDLE" and w.events == 0)
        w.check("C12", "already-stopped/no optimizer is built, nothing is shuffled or written", w.optimizer_obj is None and w.param_version == 0 and w.train_obj is None)
        w.check("C12", "already-stopped/the request persists", w.stop is True and not w.fit_wrote_stop)
    vc.explore(run, "already stopped")
    vc.flush()


def _cblist(ctx, cfg):
    from qucumber.callbacks import CallbackList, CallbackBase
    ctx.under_contract("CallbackList.on_train_start", "CallbackList.on_train_end", "CallbackList.on_epoch_start", "CallbackList.on_epoch_end",
                       "CallbackList.on_batch_start", "CallbackList.on_batch_end", "CallbackList.append", "CallbackList.insert")
    log = []

    class Rec(CallbackBase):
        def __init__(self, tag):
            self.tag = tag

        def __getattribute__(self, n):
            if n.startswith("on_"):
                return lambda *a: log.append((object.__getattribute__(self, "tag"), n, a))
            return object.__getattribute__(self, n)
    class St:
        """training state as the dispatch loop may see it: the stop flag readable, nothing writable"""

        def __init__(self, stop):
            object.__setattr__(self, "stop_training", stop)
            object.__setattr__(self, "writes", [])

        def __setattr__(self, k, v):
            self.writes.append(k)
    for stop in (False, True):
        for ncb in (0, 1, 2, 3):
            cbs = [Rec(i) for i in range(ncb)]
            cl = CallbackList(cbs)
            S = St(stop)
            for ev, args in (("on_train_start", (S,)), ("on_epoch_start", (S, 4)), ("on_batch_start", (S, 4, 2)),
                             ("on_batch_end", (S, 4, 2)), ("on_epoch_end", (S, 4)), ("on_train_end", (S,))):
                del log[:]
                r = getattr(cl, ev)(*args)
                ctx.holds("CallbackList.%s dispatches once to every callback in list order with the same arguments, stop requested or not[n=%d stop=%s]" % (ev, ncb, stop),
                          r is None and log == [(i, ev, args) for i in range(ncb)] and S.writes == [], str(log)[:200])
    # user callbacks are opaque objects: they may compare equal to each other (dataclasses with the same settings), be
    # falsy, have a length of 0 or be unhashable, and the same object may be listed twice - every entry of the list
    # receives every event
    class Odd(Rec):
        __hash__ = None

        def __eq__(self, other):
            return True

        def __ne__(self, other):
            return False

        def __bool__(self):
            return False

        def __len__(self):
            return 0
    # ... and what a handler returns is nobody's business: handlers returning truthy values hide nothing from later entries
    class Ret(Rec):
        def __getattribute__(self, n):
            if n.startswith("on_"):
                return lambda *a: (log.append((object.__getattribute__(self, "tag"), n, a)), "done")[1]
            return object.__getattribute__(self, n)
    for first in (Ret("r0"), Ret("r1")):
        cl = CallbackList([first, Rec("plain"), Ret("r2"), Rec("last")])
        S = St(False)
        for ev, args in (("on_train_start", (S,)), ("on_epoch_start", (S, 4)), ("on_batch_start", (S, 4, 2)), ("on_batch_end", (S, 4, 2)),
                         ("on_epoch_end", (S, 4)), ("on_train_end", (S,))):
            del log[:]
            r = getattr(cl, ev)(*args)
            ctx.holds("CallbackList.%s reaches every callback whatever the handlers of earlier ones return" % ev,
                      [x[0] for x in log] == [first.tag, "plain", "r2", "last"], str([x[0] for x in log]))
    o0, o1 = Odd("o0"), Odd("o1")
    for how in ("constructor", "append", "insert", "concatenation"):
        if how == "constructor":
            cl = CallbackList([o0, o1, o0])
        elif how == "append":
            cl = CallbackList([o0])
            cl.append(o1)
            cl.append(o0)
        elif how == "insert":
            cl = CallbackList([o0])
            cl.insert(0, o1)
            cl.insert(0, o0)
        else:
            cl = CallbackList([o0]) + CallbackList([o1, o0])
        S = St(False)
        for ev, args in (("on_train_start", (S,)), ("on_batch_end", (S, 4, 2)), ("on_epoch_end", (S, 4)), ("on_train_end", (S,))):
            del log[:]
            getattr(cl, ev)(*args)
            ctx.holds("CallbackList.%s reaches every entry of the list in order: callbacks that compare equal, are falsy, unhashable, or listed twice [built by %s]" % (ev, how),
                      [x[0] for x in log] == ["o0", "o1", "o0"] and all(x[1] == ev and x[2] == args for x in log), str([x[0] for x in log]))
    # a stop requested by an earlier callback during the dispatch must not hide the event from the later ones
    for ev, args in (("on_batch_end", (4, 2)), ("on_epoch_end", (4,)), ("on_epoch_start", (4,)), ("on_batch_start", (4, 2))):
        S = St(False)
        seen = []

        class Stopper(CallbackBase):
            pass
        stp = Stopper()
        setattr(stp, ev, lambda st_, *a: object.__setattr__(st_, "stop_training", True))
        later = Rec("later")
        del log[:]
        getattr(CallbackList([stp, later]), ev)(S, *args)
        ctx.holds("CallbackList.%s still reaches the callbacks listed after one that requested a stop" % ev, log == [("later", ev, (S,) + args)], str(log)[:200])
    cl = CallbackList([Rec(0)])
    cl.append(Rec(1))
    cl.insert(0, Rec(2))
    del log[:]
    cl.on_epoch_end(St(False), 1)
    ctx.holds("CallbackList append / insert keep list order", [x[0] for x in log] == [2, 0, 1])
    for bad in ("append", "insert", "setitem"):
        try:
            if bad == "append":
                cl.append(object())
            elif bad == "insert":
                cl.insert(0, object())
            else:
                cl[0] = object()
            ctx.holds("CallbackList refuses non-callbacks (%s)" % bad, False)
        except TypeError:
            ctx.holds("CallbackList refuses non-callbacks (%s)" % bad, True)
    ctx.holds("CallbackList + CallbackList concatenates", [c.tag for c in (CallbackList([Rec(7)]) + CallbackList([Rec(8)]))] == [7, 8])
    # the receivers of a run are fixed when the list is built: the caller's own list object is neither kept nor changed
    for form in ("list", "tuple", "generator"):
        mine = [Rec(10), Rec(11)]
        given = mine if form == "list" else tuple(mine) if form == "tuple" else (c for c in mine)
        cl2 = CallbackList(given)
        cl2.append(Rec(12))
        ctx.holds("CallbackList/the caller's %s is not changed by appending to the CallbackList" % form, [c.tag for c in mine] == [10, 11])
        mine.append(Rec(13))
        del mine[0]
        del log[:]
        cl2.on_epoch_end(St(False), 1)
        ctx.holds("CallbackList/later edits of the caller's %s do not change who receives the events" % form, [x[0] for x in log] == [10, 11, 12], str([x[0] for x in log]))


def _lambda_timer(ctx, cfg):
    from qucumber.callbacks import LambdaCallback, Timer
    ctx.under_contract("LambdaCallback.__init__", "LambdaCallback._validate_function", "Timer.on_train_start", "Timer.on_batch_end",
                       "Timer.on_epoch_end", "Timer.on_train_end")
    arity = {"on_train_start": 1, "on_train_end": 1, "on_epoch_start": 2, "on_epoch_end": 2, "on_batch_start": 3, "on_batch_end": 3}
    for ev, n in arity.items():
        seen = []
        fn = eval("lambda %s: seen.append((%s))" % (", ".join("a%d" % i for i in range(n)), ", ".join("a%d" % i for i in range(n)) + ","), {"seen": seen})
        cb = LambdaCallback(**{ev: fn})
        getattr(cb, ev)(*range(n))
        ctx.holds("LambdaCallback/%s calls the function with the event's %d arguments" % (ev, n), seen == [tuple(range(n))])
        for other, m in arity.items():
            if other != ev:
                ctx.holds("LambdaCallback/%s unset is a no-op (given %s)" % (other, ev), getattr(cb, other)(*range(m)) is None)
        for wrong in (n - 1, n + 1):
            if wrong < 0:
                continue
            bad = eval("lambda %s: None" % ", ".join("a%d" % i for i in range(wrong)))
            try:
                LambdaCallback(**{ev: bad})
                ctx.holds("LambdaCallback/%s with %d parameters rejected" % (ev, wrong), False)
            except ValueError:
                ctx.holds("LambdaCallback/%s with %d parameters rejected" % (ev, wrong), True)
        try:
            LambdaCallback(**{ev: 5})
            ctx.holds("LambdaCallback/%s non-callable rejected" % ev, False)
        except TypeError:
            ctx.holds("LambdaCallback/%s non-callable rejected" % ev, True)

    class St:
        def __init__(self):
            object.__setattr__(self, "writes", [])
            object.__setattr__(self, "stop_training", True)

        def __setattr__(self, k, v):
            self.writes.append(k)
    st = St()
    import io
    import contextlib
    t = Timer(verbose=True)
    buf = io.StringIO()
    with contextlib.redirect_stdout(buf):
        t.on_train_start(st)
        t.on_batch_end(st, 1, 0)
        t.on_batch_end(st, 1, 1)
        t.on_epoch_end(st, 1)
        t.on_train_end(st)
    ctx.holds("Timer only reads the training state", st.writes == [])
    ctx.holds("Timer reports a stop once and the elapsed time", buf.getvalue().count("Training terminated") == 1 and "Total time elapsed" in buf.getvalue()
              and t.training_time >= 0)


def _overrides(ctx, cfg):
    """The three fit overrides delegate to the base fit with every argument passed through; complex / mixed refuse
    missing bases before anything happens (also C20)."""
    from qucumber.nn_states import PositiveWaveFunction, ComplexWaveFunction, DensityMatrix
    from qucumber.nn_states.neural_state import NeuralStateBase
    from unittest import mock
    import torch
    ctx.under_contract("PositiveWaveFunction.fit", "ComplexWaveFunction.fit", "DensityMatrix.fit")
    args = dict(epochs=7, pos_batch_size=3, neg_batch_size=2, k=4, lr=0.5, progbar="notebook", starting_epoch=3, time=True,
                callbacks=["cb"], optimizer="OPT", optimizer_args={"a": 1}, scheduler="SCH", scheduler_args={"b": 2})
    for cls, mk in ((PositiveWaveFunction, lambda: PositiveWaveFunction(2, gpu=False)), (ComplexWaveFunction, lambda: ComplexWaveFunction(2, gpu=False)),
                    (DensityMatrix, lambda: DensityMatrix(2, gpu=False))):
        st = mk()
        with mock.patch.object(NeuralStateBase, "fit", autospec=True) as base:
            base.return_value = None
            if cls is PositiveWaveFunction:
                st.fit("DATA", input_bases="IGNORED", **args)
                want_bases = None
            else:
                st.fit("DATA", input_bases="BASES", **args)
                want_bases = "BASES"
            ok = base.call_count == 1
            if ok:
                c = base.call_args
                got = dict(c.kwargs)
                pos = list(c.args)
                ok = pos[0] is st and (got.get("data", pos[1] if len(pos) > 1 else None) == "DATA") and got.get("input_bases") == want_bases \
                    and all(got.get(k) == v for k, v in args.items())
            ctx.holds("%s.fit passes every argument through to the base fit" % cls.__name__, ok)
        if cls is not PositiveWaveFunction:
            # every parameter of every network holds some non-zero value (a state built around a trained module carries
            # them all, the phase network's auxiliary bias included); no write at all may reach them (version counters)
            gen = torch.Generator().manual_seed(5)
            for net in st.networks:
                for p in getattr(st, net).parameters():
                    p.data = torch.randn(p.shape, generator=gen, dtype=torch.double) + 0.3
            before = {(net, n): p.detach().clone() for net in st.networks for n, p in getattr(st, net).named_parameters()}
            vers = {(net, n): p._version for net in st.networks for n, p in getattr(st, net).named_parameters()}
            events = []
            from qucumber.callbacks import LambdaCallback
            cb = LambdaCallback(on_train_start=lambda s: events.append("start"))
            for flag in (True, False):
                st.stop_training = flag          # left over from an earlier run that was stopped: the refusal does not depend on it
                try:
                    st.fit(torch.zeros(4, 2, dtype=torch.double), epochs=1)
                    ctx.holds("%s.fit without input_bases is refused whatever the stop flag says[stop_training=%s]" % (cls.__name__, flag), False, "returned normally")
                except ValueError:
                    ctx.holds("%s.fit without input_bases is refused whatever the stop flag says[stop_training=%s]" % (cls.__name__, flag), True)
            try:
                st.fit(torch.zeros(4, 2, dtype=torch.double), epochs=1, callbacks=[cb])
                ctx.holds("%s.fit without input_bases is refused" % cls.__name__, False)
            except ValueError:
                same = all(torch.equal(p, before[(net, n)]) and p._version == vers[(net, n)] for net in st.networks for n, p in getattr(st, net).named_parameters())
                ctx.holds("%s.fit without input_bases is refused before any event or parameter change" % cls.__name__, same and events == [] and st.stop_training is False)


def replay(o):
    if o["cfg"].get("part") == "shuffle":
        from lemmas import C07
        return C07.replay(o)
    from drivers import C12 as D
    return D.replay(o["cfg"], (o.get("witness") or {}).get("model") or {}, o.get("short") or "")
