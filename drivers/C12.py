"""C12 concrete driver: the real fit with a recording callback / optimizer; a stop injected at a chosen event."""
import math

import numpy as np
import torch

from . import common as C


class Recorder:
    def __init__(self, stop_at=None):
        self.ev = []
        self.stop_at = stop_at          # index of the event at which stop_training is requested

    def _rec(self, st, name, *a):
        self.ev.append((name,) + a + (self.version(st),))
        if self.stop_at is not None and len(self.ev) - 1 == self.stop_at:
            st.stop_training = True

    def version(self, st):
        return tuple(float(p.detach().sum()) for net in st.networks for p in getattr(st, net).parameters())


def make_cb(rec):
    from qucumber.callbacks import CallbackBase

    class EventLog(CallbackBase):
        def on_train_start(self, s): rec._rec(s, "train_start")
        def on_train_end(self, s): rec._rec(s, "train_end")
        def on_epoch_start(self, s, e): rec._rec(s, "epoch_start", e)
        def on_epoch_end(self, s, e): rec._rec(s, "epoch_end", e)
        def on_batch_start(self, s, e, b): rec._rec(s, "batch_start", e, b)
        def on_batch_end(self, s, e, b): rec._rec(s, "batch_end", e, b)

    class CB(EventLog):          # the user's callback inherits its hooks from a base class of the user's
        pass
    return CB()


def check_trace(ev, se, ep, N, B, stop_at):
    """Documented grammar + stop semantics on a recorded trace. Returns list of failures."""
    f = []
    nb = math.ceil(N / B)
    names = [e[0] for e in ev]
    if not ev:
        return ["no events"]
    if names[0] != "train_start" or names.count("train_start") != 1:
        f.append("train_start not first / once")
    if names[-1] != "train_end" or names.count("train_end") != 1:
        f.append("train_end not last / once")
    i = 1
    epoch = se
    stop_idx = stop_at
    stopped_seen = False
    while i < len(ev) - 1:
        if ev[i][0] != "epoch_start" or ev[i][1] != epoch:
            f.append("expected epoch_start(%d) at %d, got %s" % (epoch, i, ev[i][:3]))
            break
        if stop_idx is not None and stop_idx < i and any(ev[j][0] == "epoch_end" for j in range(stop_idx, i)):
            f.append("an epoch began after a stop was requested at/before an epoch end")
        i += 1
        b = 0
        while i < len(ev) and ev[i][0] == "batch_start":
            if ev[i][1:3] != (epoch, b):
                f.append("batch_start numbering %s expected %s" % (ev[i][1:3], (epoch, b)))
            if stop_idx is not None and any(ev[j][0] == "batch_end" for j in range(stop_idx, i)):
                f.append("a batch began after a stop was requested at/before a batch end")
            if i + 1 >= len(ev) or ev[i + 1][0] != "batch_end" or ev[i + 1][1:3] != (epoch, b):
                f.append("batch_start without matching batch_end")
                break
            i += 2
            b += 1
        if i >= len(ev) or ev[i][0] != "epoch_end" or ev[i][1] != epoch:
            f.append("missing epoch_end(%d)" % epoch)
            break
        requested = stop_idx is not None and stop_idx <= i
        if not requested and b != nb:
            f.append("epoch %d ran %d batches, expected %d" % (epoch, b, nb))
        if b > nb:
            f.append("too many batches")
        i += 1
        epoch += 1
    requested = stop_idx is not None and stop_idx < len(ev)
    if not requested and epoch != max(se, ep + 1):
        f.append("epochs ran up to %d, expected %d..%d" % (epoch - 1, se, ep))
    # parameters change only inside a batch pair
    for j in range(1, len(ev)):
        if ev[j][-1] != ev[j - 1][-1] and not (ev[j][0] == "batch_end" and ev[j - 1][0] == "batch_start"):
            f.append("parameters changed between %s and %s" % (ev[j - 1][0], ev[j][0]))
    return f


def run(kind, se, ep, N, B, stop_at, seed=0):
    rng = np.random.default_rng(seed)
    torch.manual_seed(seed)
    st = C.make_state(kind, 2, 2, 1)
    data = torch.tensor(rng.integers(0, 2, size=(N, 2)), dtype=torch.double)
    bases = None
    if kind != "positive":
        bases = np.array([list(rng.choice(["XZ", "ZZ", "ZY", "ZZ"])) for _ in range(N)])
        bases[0] = list("ZZ")
    rec = Recorder(stop_at)
    kw = dict(epochs=ep, pos_batch_size=B, starting_epoch=se, k=1, lr=0.1, callbacks=[make_cb(rec)])
    if bases is not None:
        kw["input_bases"] = bases
    st.fit(data, **kw)
    return rec.ev, st


def continued(kind, seed=0):
    """History: a state that was trained before is trained again with a scheduler and starting_epoch > 1: the parameters
    at the first event are those at the call, and they change only inside batch event pairs."""
    rng = np.random.default_rng(seed)
    torch.manual_seed(seed)
    st = C.make_state(kind, 2, 2, 1)
    data = torch.tensor(rng.integers(0, 2, size=(4, 2)), dtype=torch.double)
    kw = {} if kind == "positive" else {"input_bases": np.array([list("ZZ"), list("XZ"), list("ZZ"), list("ZY")])}
    st.fit(data, epochs=2, pos_batch_size=2, k=1, lr=0.1, **kw)
    out = []
    for sched_kw in ({}, {"scheduler": torch.optim.lr_scheduler.StepLR, "scheduler_args": {"step_size": 1, "gamma": 0.5}}):
        rec = Recorder()
        before = rec.version(st)
        st.fit(data, epochs=4, pos_batch_size=2, k=1, lr=0.1, starting_epoch=3, callbacks=[make_cb(rec)], **kw, **sched_kw)
        if not rec.ev or rec.ev[0][0] != "train_start" or rec.ev[0][-1] != before:
            out.append("parameters changed between the call of fit and train_start (scheduler=%s, starting_epoch=3, state trained before)" % bool(sched_kw))
        out += check_trace(rec.ev, 3, 4, 4, 2, None)
    return out


def callers_list(seed=0):
    """The caller's own list of callbacks is neither kept nor changed by fit: time=True does not leave a Timer in it, and a
    callback that edits the list during the run changes nothing about who receives this run's events."""
    from qucumber.callbacks import LambdaCallback
    rng = np.random.default_rng(seed)
    torch.manual_seed(seed)
    st = C.make_state("positive", 2, 2)
    data = torch.tensor(rng.integers(0, 2, size=(4, 2)), dtype=torch.double)
    rec = Recorder()
    logger = make_cb(rec)
    mine = []
    editor = LambdaCallback(on_epoch_start=lambda s, e: (mine.remove(logger) if logger in mine else None))
    mine.extend([editor, logger])
    st.fit(data, epochs=2, pos_batch_size=2, k=1, lr=0.01, time=True, callbacks=mine)
    out = []
    if any(type(c).__name__ == "Timer" for c in mine):
        out.append("fit(time=True) left its Timer in the caller's list of callbacks")
    out += check_trace(rec.ev, 1, 2, 4, 2, None)
    return out


def equal_callbacks():
    """Two callbacks that compare equal (a dataclass with the same settings) and one listed twice: every entry of the list
    sees the whole run."""
    import dataclasses
    from qucumber.callbacks import CallbackBase

    @dataclasses.dataclass(eq=True)
    class Counter(CallbackBase):
        period: int = 1

        def __post_init__(self):
            object.__setattr__(self, "seen", [])

        def on_epoch_end(self, s, e):
            self.seen.append(("epoch_end", e))

        def on_train_end(self, s):
            self.seen.append(("train_end",))
    a, b = Counter(1), Counter(1)
    a.seen, b.seen = [], []
    st = C.make_state("positive", 2, 2, 1)
    st.fit(torch.zeros(4, 2, dtype=torch.double), epochs=2, pos_batch_size=2, callbacks=[a, b, a])
    # a handler that returns a value (a lambda around file.write, say) in front of the others
    from qucumber.callbacks import LambdaCallback
    c2 = Counter(7)
    c2.seen = []
    st2 = C.make_state("positive", 2, 2, 1)
    st2.fit(torch.zeros(4, 2, dtype=torch.double), epochs=2, pos_batch_size=2, time=True,
            callbacks=[LambdaCallback(on_epoch_end=lambda s, e: e, on_train_end=lambda s: "bye", on_batch_end=lambda s, e, b: [b]), c2])
    want = [("epoch_end", 1), ("epoch_end", 2), ("train_end",)]
    if c2.seen != want:
        return ["a callback listed after one whose handlers return values saw %s instead of the whole run" % (c2.seen,)]
    f = []
    if b.seen != want:
        f.append("a callback that compares equal to an earlier one saw %s instead of the whole run" % (b.seen,))
    if sorted(a.seen) != sorted(want + want):
        f.append("a callback listed twice saw %s" % (a.seen,))
    return f


def native_check(quick=True):
    fails = []
    n = 0
    f = equal_callbacks()
    n += 1
    if f:
        fails.append(({"callbacks that compare equal / one listed twice": True}, f[:2]))
    f = callers_list()
    n += 1
    if f:
        fails.append(({"caller's callback list edited during the run, time=True": True}, f[:2]))
    for kind in ("positive", "complex"):
        f = continued(kind)
        n += 1
        if f:
            fails.append(({"kind": kind, "continued run of a trained state": True}, f[:2]))
    grid = [(1, 2, 5, 2), (2, 3, 4, 4), (1, 1, 3, 5), (3, 2, 4, 2), (1, 2, 6, 3)] if quick else \
        [(se, ep, N, B) for se in (1, 2, 4) for ep in (0, 1, 3) for N in (1, 4, 5) for B in (1, 2, 5, 7)]
    for kind in ("positive", "complex", "mixed"):
        for (se, ep, N, B) in grid:
            ev0, _ = run(kind, se, ep, N, B, None)
            n += 1
            f = check_trace(ev0, se, ep, N, B, None)
            if f:
                fails.append(({"kind": kind, "starting_epoch": se, "epochs": ep, "N": N, "B": B, "stop_at": None}, f[:2]))
            for s in range(len(ev0)):
                ev, st = run(kind, se, ep, N, B, s)
                n += 1
                f = check_trace(ev, se, ep, N, B, s)
                if not st.stop_training:
                    f.append("stop request did not persist")
                if f:
                    fails.append(({"kind": kind, "starting_epoch": se, "epochs": ep, "N": N, "B": B, "stop_at_event": s}, f[:2]))
            if len(fails) > 5:
                return fails, n
        st = C.make_state(kind, 2, 2, 1)
        st.stop_training = True
        rec = Recorder()
        before = rec.version(st)
        kw = {"input_bases": np.array([list("ZZ")] * 3)} if kind != "positive" else {}
        st.fit(torch.zeros(3, 2, dtype=torch.double), epochs=2, callbacks=[make_cb(rec)], **kw)
        n += 1
        if rec.ev or rec.version(st) != before or st.stop_training is not True:
            fails.append(({"kind": kind, "already_stopped": True}, ["events emitted / parameters changed"]))
    return fails, n


def replay(cfg, model, short):
    f, n = native_check(True)
    return {"reproduced": bool(f), "failed_clauses": [str(x)[:300] for x in f[:3]], "solver_model": {k: v for k, v in (model or {}).items() if k.startswith("@")}}


def bounded(tier, seed):
    f, n = native_check(tier == "quick")
    return {"driver": "drivers/C12.native_check", "label": "bounded", "evaluations": n, "failures": len(f),
            "bound": "real fit on 3 state types, small (starting_epoch, epochs, N, batch) grid, a stop injected at every event index of every run",
            "first_failures": [str(x)[:300] for x in f[:3]]}
