/-
Size-generic lemmas connecting the per-sample values that the observables are proved (front end G, for every chain
length and batch size) to compute with the quantum-mechanical expectation values the property C08 speaks about.
Checked by Lean 4 + Mathlib; no `sorry`, no extra axioms.
-/
import Mathlib.Analysis.SpecialFunctions.Exp
import Mathlib.Algebra.BigOperators.Ring.Finset
import Mathlib.Data.Fintype.BigOperators
import Mathlib.Data.Complex.BigOperators

open Finset BigOperators

namespace QuCumber

/-- |ψ|² · (ψ'/ψ) = conj(ψ) · ψ' : the importance-sampling weight times the sampling probability -/
theorem normSq_mul_ratio (ψ ψ' : ℂ) (h : ψ ≠ 0) :
    ((Complex.normSq ψ : ℝ) : ℂ) * (ψ' / ψ) = (starRingEnd ℂ ψ) * ψ' := by
  rw [Complex.normSq_eq_conj_mul_self]
  field_simp

/-- flipping spin `i` of a configuration -/
def flip {n : ℕ} (i : Fin n) (σ : Fin n → Bool) : Fin n → Bool := Function.update σ i (!σ i)

/-- C08, Pauli X on site i, pure state: the |ψ|²-weighted sum of the local values Re(ψ(σ^i)/ψ(σ)) is
    Re <ψ| X_i |ψ> = Re Σ_σ conj ψ(σ) ψ(σ^i), for every number of sites -/
theorem sigmaX_local_estimator (n : ℕ) (ψ : (Fin n → Bool) → ℂ) (hne : ∀ σ, ψ σ ≠ 0) (i : Fin n) :
    ∑ σ : Fin n → Bool, Complex.normSq (ψ σ) * ((ψ (flip i σ)) / ψ σ).re
      = (∑ σ : Fin n → Bool, (starRingEnd ℂ (ψ σ)) * ψ (flip i σ)).re := by
  rw [Complex.re_sum]
  refine Finset.sum_congr rfl fun σ _ => ?_
  rw [← normSq_mul_ratio _ _ (hne σ), Complex.re_ofReal_mul]

/-- C08, Pauli Y on site i: the coefficient is i·(+1) for bit 1 and i·(-1) for bit 0 (what SigmaY.apply multiplies by) -/
theorem sigmaY_local_estimator (n : ℕ) (ψ : (Fin n → Bool) → ℂ) (hne : ∀ σ, ψ σ ≠ 0) (i : Fin n) :
    ∑ σ : Fin n → Bool, Complex.normSq (ψ σ) *
        ((ψ (flip i σ)) * (Complex.I * (if σ i then (1 : ℂ) else (-1 : ℂ))) / ψ σ).re
      = (∑ σ : Fin n → Bool, (starRingEnd ℂ (ψ σ)) * (Complex.I * (if σ i then (1 : ℂ) else (-1 : ℂ))) * ψ (flip i σ)).re := by
  rw [Complex.re_sum]
  refine Finset.sum_congr rfl fun σ _ => ?_
  rw [mul_assoc, ← normSq_mul_ratio _ _ (hne σ), Complex.re_ofReal_mul, mul_comm (Complex.I * _)]

/-- the site average: what `SigmaX.apply` returns per sample is (1/n) Σ_i of the local values -/
theorem sigmaX_site_average (n : ℕ) (_hn : 0 < n) (ψ : (Fin n → Bool) → ℂ) (hne : ∀ σ, ψ σ ≠ 0) :
    ∑ σ : Fin n → Bool, Complex.normSq (ψ σ) * ((1 / (n : ℝ)) * ∑ i : Fin n, ((ψ (flip i σ)) / ψ σ).re)
      = (1 / (n : ℝ)) * ∑ i : Fin n, (∑ σ : Fin n → Bool, (starRingEnd ℂ (ψ σ)) * ψ (flip i σ)).re := by
  simp_rw [← sigmaX_local_estimator n ψ hne]
  rw [Finset.sum_comm, Finset.mul_sum]
  refine Finset.sum_congr rfl fun σ _ => ?_
  rw [Finset.mul_sum, Finset.mul_sum, Finset.mul_sum]
  refine Finset.sum_congr rfl fun i _ => ?_
  ring

end QuCumber

#print axioms QuCumber.normSq_mul_ratio
#print axioms QuCumber.sigmaX_local_estimator
#print axioms QuCumber.sigmaY_local_estimator
#print axioms QuCumber.sigmaX_site_average
