#!/usr/bin/env python3
"""Systematic mutation campaign against the checks (not part of any registered command).

  gen     enumerate single-node source mutants inside the functions the properties are anchored in
          (properties.jsonl -> anchors.mechanism[].where line ranges), sample a fixed number per property
  tests   run the pinned test suite on a scratch copy with each mutant applied: killed / survived
  checks  run `./vf check <prop> --tier quick` for every surviving mutant and every property anchored on its lines
  report  table: survivors of the test suite that the checks report / leave undecided / pass

A mutant the tests kill is uninteresting (the brief asks for changes that pass the tests).  A survivor that a check
passes is either equivalent, outside what the property states, or a miss: those are triaged by hand (triage.json).

Scratch copies live under --work (default /tmp/vfmc) and are removed after use.
"""
import argparse, ast, json, os, random, re, shutil, subprocess, sys, hashlib
from concurrent.futures import ThreadPoolExecutor

VERIF = os.path.dirname(os.path.dirname(os.path.abspath(__file__)))
REPO = os.environ.get("QUCUMBER_REPO", "/repo")

BIN = {ast.Add: ast.Sub, ast.Sub: ast.Add, ast.Mult: ast.Div, ast.Div: ast.Mult, ast.FloorDiv: ast.Mult, ast.Mod: ast.FloorDiv}
CMP = {ast.Lt: ast.LtE, ast.LtE: ast.Lt, ast.Gt: ast.GtE, ast.GtE: ast.Gt, ast.Eq: ast.NotEq, ast.NotEq: ast.Eq,
       ast.Is: ast.IsNot, ast.IsNot: ast.Is, ast.In: ast.NotIn, ast.NotIn: ast.In}
NAMES = {"add_": "sub_", "sub_": "add_", "sum": "mean", "mean": "sum", "cos": "sin", "sin": "cos", "min": "max", "max": "min",
         "zeros_like": "ones_like", "ones_like": "zeros_like", "zeros": "ones", "ones": "zeros", "floor": "ceil", "ceil": "floor",
         "ge": "gt", "gt": "ge", "lt": "le", "le": "lt", "mul_": "div_", "div_": "mul_", "addmm": "mm", "sigmoid": "tanh",
         "append": "extend", "mul": "add", "add": "sub", "sub": "add", "exp": "expm1", "log": "log1p", "sqrt": "abs",
         "real": "imag", "imag": "real", "randperm": "arange", "bernoulli": "round", "t": "clone"}


def _where(s):
    out = []
    for part in s.split(";"):
        part = part.strip()
        m = re.match(r"(\S+\.py):([\d,\-\s]+)$", part)
        if not m:
            continue
        for r in m.group(2).split(","):
            r = r.strip()
            if not r:
                continue
            a, _, b = r.partition("-")
            out.append((m.group(1), int(a), int(b or a)))
    return out


def anchored_functions():
    """file -> list of (funcnode, set(props))"""
    props = [json.loads(l) for l in open(os.path.join(VERIF, "properties.jsonl"))]
    byfile = {}
    for p in props:
        for mech in p["anchors"].get("mechanism", []) + p["anchors"].get("state", []):
            for f, a, b in _where(mech.get("where", "")):
                byfile.setdefault(f, []).append((a, b, p["id"]))
    res = {}
    for f, ranges in byfile.items():
        path = os.path.join(REPO, f)
        if not os.path.exists(path):
            continue
        tree = ast.parse(open(path).read())
        for node in ast.walk(tree):
            if isinstance(node, (ast.FunctionDef, ast.AsyncFunctionDef)):
                ps = {pid for a, b, pid in ranges if not (node.end_lineno < a - 12 or node.lineno > b + 12)}
                if ps:
                    res.setdefault(f, []).append((node, ps))
    return res


def _seg(src_lines, node):
    if node.lineno == node.end_lineno:
        return src_lines[node.lineno - 1][node.col_offset:node.end_col_offset]
    parts = [src_lines[node.lineno - 1][node.col_offset:]] + src_lines[node.lineno:node.end_lineno - 1] + [src_lines[node.end_lineno - 1][:node.end_col_offset]]
    return "\n".join(parts)


def mutants_of(func, src):
    """yield (node, replacement text, operator name)"""
    body_doc = None
    if func.body and isinstance(func.body[0], ast.Expr) and isinstance(getattr(func.body[0], "value", None), ast.Constant) and isinstance(func.body[0].value.value, str):
        body_doc = func.body[0]
    for node in ast.walk(func):
        if node is func or node is body_doc or (body_doc is not None and node is body_doc.value):
            continue
        if isinstance(node, ast.BinOp) and type(node.op) in BIN:
            n2 = ast.BinOp(left=node.left, op=BIN[type(node.op)](), right=node.right)
            yield node, "(" + ast.unparse(n2) + ")", "binop"
        elif isinstance(node, ast.Compare) and len(node.ops) == 1 and type(node.ops[0]) in CMP:
            n2 = ast.Compare(left=node.left, ops=[CMP[type(node.ops[0])]()], comparators=node.comparators)
            yield node, "(" + ast.unparse(n2) + ")", "compare"
        elif isinstance(node, ast.BoolOp):
            n2 = ast.BoolOp(op=(ast.Or() if isinstance(node.op, ast.And) else ast.And()), values=node.values)
            yield node, "(" + ast.unparse(n2) + ")", "boolop"
        elif isinstance(node, ast.UnaryOp) and isinstance(node.op, (ast.Not, ast.USub)):
            yield node, "(" + ast.unparse(node.operand) + ")", "unary"
        elif isinstance(node, ast.Constant):
            v = node.value
            if isinstance(v, bool):
                yield node, repr(not v), "const"
            elif isinstance(v, int):
                yield node, repr(v + 1), "const"
                if v != 0:
                    yield node, repr(v - 1), "const"
            elif isinstance(v, float):
                yield node, repr(v * 2 if v else 1.0), "const"
        elif isinstance(node, ast.AugAssign) and type(node.op) in BIN:
            n2 = ast.AugAssign(target=node.target, op=BIN[type(node.op)](), value=node.value)
            yield node, ast.unparse(n2), "augassign"
            yield node, "pass", "delete"
        elif isinstance(node, ast.Expr) and isinstance(node.value, ast.Call):
            yield node, "pass", "delete"
        elif isinstance(node, (ast.Break, ast.Continue)):
            yield node, "pass", "delete"
        elif isinstance(node, ast.If):
            yield node.test, "(not (" + ast.unparse(node.test) + "))", "negate-if"
        elif isinstance(node, ast.Call):
            f = node.func
            if isinstance(f, ast.Attribute) and f.attr in ("clone", "detach", "copy", "contiguous") and not node.args:
                yield node, "(" + ast.unparse(f.value) + ")", "drop-" + f.attr
            if isinstance(f, ast.Attribute) and f.attr in NAMES:
                n2 = ast.Call(func=ast.Attribute(value=f.value, attr=NAMES[f.attr], ctx=ast.Load()), args=node.args, keywords=node.keywords)
                yield node, "(" + ast.unparse(n2) + ")", "rename-call"
            if len(node.args) >= 2 and not any(isinstance(a, ast.Starred) for a in node.args):
                n2 = ast.Call(func=f, args=[node.args[1], node.args[0]] + node.args[2:], keywords=node.keywords)
                yield node, "(" + ast.unparse(n2) + ")", "swap-args"


def apply(src, node, text):
    lines = src.split("\n")
    pre = lines[node.lineno - 1][:node.col_offset]
    post = lines[node.end_lineno - 1][node.end_col_offset:]
    new = pre + text + post
    lines[node.lineno - 1:node.end_lineno] = new.split("\n")
    return "\n".join(lines)


def cmd_gen(a):
    rnd = random.Random(a.seed)
    allm = {}
    perprop = {}
    for f, funcs in anchored_functions().items():
        src = open(os.path.join(REPO, f)).read()
        lines = src.split("\n")
        for func, ps in funcs:
            for node, text, op in mutants_of(func, src):
                old = _seg(lines, node)
                if old.strip() == text.strip():
                    continue
                new = apply(src, node, text)
                try:
                    compile(new, f, "exec")
                except SyntaxError:
                    continue
                key = hashlib.sha1((f + new).encode()).hexdigest()[:10]
                if key in allm:
                    allm[key]["props"] = sorted(set(allm[key]["props"]) | ps)
                    continue
                allm[key] = {"id": key, "file": f, "func": func.name, "line": node.lineno, "op": op,
                             "old": old[:160], "new": text[:160], "props": sorted(ps),
                             "span": [node.lineno, node.col_offset, node.end_lineno, node.end_col_offset], "text": text}
    for m in allm.values():
        for p in m["props"]:
            perprop.setdefault(p, []).append(m["id"])
    chosen = set()
    for p in sorted(perprop):
        ids = sorted(perprop[p])
        rnd.shuffle(ids)
        chosen.update(ids[:a.per_property])
    out = [allm[k] for k in sorted(chosen)]
    os.makedirs(a.work, exist_ok=True)
    json.dump(out, open(os.path.join(a.work, "mutants.json"), "w"), indent=1)
    print("enumerated %d mutants in %d files; sampled %d (<= %d per property)" % (len(allm), len({m['file'] for m in allm.values()}), len(out), a.per_property))
    byop = {}
    for m in out:
        byop[m["op"]] = byop.get(m["op"], 0) + 1
    print(byop)


class _Span:
    def __init__(self, s):
        self.lineno, self.col_offset, self.end_lineno, self.end_col_offset = s


def _scratch(a, m):
    d = os.path.join(a.work, "wt_" + m["id"])
    if os.path.exists(d):
        shutil.rmtree(d)
    os.makedirs(d)
    for name in ("qucumber", "tests"):
        shutil.copytree(os.path.join(REPO, name), os.path.join(d, name), ignore=shutil.ignore_patterns("__pycache__"))
    for name in ("setup.py", "tox.ini", "README.md"):
        if os.path.exists(os.path.join(REPO, name)):
            shutil.copy(os.path.join(REPO, name), d)
    p = os.path.join(d, m["file"])
    src = open(p).read()
    open(p, "w").write(apply(src, _Span(m["span"]), m["text"]))
    return d


def _load(a, name):
    p = os.path.join(a.work, name)
    return json.load(open(p)) if os.path.exists(p) else {}


def cmd_tests(a):
    muts = json.load(open(os.path.join(a.work, "mutants.json")))
    res = _load(a, "tests.json")

    def one(m):
        if m["id"] in res:
            return
        d = _scratch(a, m)
        try:
            r = subprocess.run(["/venv/bin/python", "-m", "pytest", "-q", "-p", "no:cacheprovider", "--timeout=900",
                                "--continue-on-collection-errors"], cwd=d, capture_output=True, text=True, timeout=1800,
                               env=dict(os.environ, PYTHONDONTWRITEBYTECODE="1", OMP_NUM_THREADS="1", MKL_NUM_THREADS="1"))
            tail = r.stdout.strip().splitlines()[-1] if r.stdout.strip() else ""
            res[m["id"]] = {"survived": ("245 passed" in tail and " failed" not in tail), "tail": tail[-120:]}
        except subprocess.TimeoutExpired:
            res[m["id"]] = {"survived": False, "tail": "timeout"}
        finally:
            shutil.rmtree(d, ignore_errors=True)

    with ThreadPoolExecutor(a.jobs) as ex:
        for i, _ in enumerate(ex.map(one, muts)):
            if i % 25 == 24:
                json.dump(res, open(os.path.join(a.work, "tests.json"), "w"), indent=0)
                print("tests %d/%d survived so far %d" % (i + 1, len(muts), sum(1 for v in res.values() if v["survived"])), flush=True)
    json.dump(res, open(os.path.join(a.work, "tests.json"), "w"), indent=0)
    print("survived %d of %d" % (sum(1 for v in res.values() if v["survived"]), len(res)))


def cmd_checks(a):
    muts = json.load(open(os.path.join(a.work, "mutants.json")))
    tests = _load(a, "tests.json")
    res = _load(a, "checks.json")
    todo = [m for m in muts if tests.get(m["id"], {}).get("survived")]
    if a.only:
        todo = [m for m in todo if m["id"] in a.only.split(",")]

    def one(m):
        if m["id"] in res and not a.only:
            return
        d = _scratch(a, m)
        out = {}
        try:
            for p in m["props"]:
                env = dict(os.environ, QUCUMBER_REPO=d, VF_EVIDENCE_DIR=os.path.join(d, ".vf/ev"), VF_REPLAY_DIR=os.path.join(d, ".vf/replay"),
                           PYTHONDONTWRITEBYTECODE="1")
                try:
                    r = subprocess.run([os.path.join(VERIF, "vf"), "check", p, "--tier", "quick"], cwd=VERIF, capture_output=True, text=True, timeout=3000, env=env)
                    lines = [l for l in r.stdout.splitlines() if l.startswith(("VIOLATION", "UNDECIDED", "CHECKER", "DEAD"))]
                    viol = [l for l in lines if l.startswith("VIOLATION")]
                    out[p] = {"exit": r.returncode, "contract": sum(1 for l in viol if "bounded-driver" not in l),
                              "driver": sum(1 for l in viol if "bounded-driver" in l),
                              "first": [re.sub(r"replay=\S+ ", "", l)[:200] for l in lines[:2]]}
                except subprocess.TimeoutExpired:
                    out[p] = {"exit": 124, "contract": 0, "driver": 0, "first": ["timeout"]}
            res[m["id"]] = out
        finally:
            shutil.rmtree(d, ignore_errors=True)

    with ThreadPoolExecutor(a.jobs) as ex:
        for i, _ in enumerate(ex.map(one, todo)):
            if i % 10 == 9:
                json.dump(res, open(os.path.join(a.work, "checks.json"), "w"), indent=0)
                print("checks %d/%d" % (i + 1, len(todo)), flush=True)
    json.dump(res, open(os.path.join(a.work, "checks.json"), "w"), indent=0)


def cmd_report(a):
    muts = json.load(open(os.path.join(a.work, "mutants.json")))
    tests = _load(a, "tests.json")
    checks = _load(a, "checks.json")
    tri = {}
    tp = os.path.join(VERIF, "mutants", "campaign_triage.json")
    if os.path.exists(tp):
        tri = json.load(open(tp))
    rows = {"killed_by_tests": 0, "survived": 0, "reported": 0, "reported_by_contract": 0, "undecided_only": 0, "crash": 0, "passed": 0}
    passed = []
    for m in muts:
        t = tests.get(m["id"])
        if not t:
            continue
        if not t["survived"]:
            rows["killed_by_tests"] += 1
            continue
        c = checks.get(m["id"])
        if c is None:
            continue
        rows["survived"] += 1
        exits = [v["exit"] for v in c.values()]
        if 1 in exits:
            rows["reported"] += 1
            if any(v["contract"] for v in c.values()):
                rows["reported_by_contract"] += 1
        elif 3 in exits or 124 in exits:
            rows["crash"] += 1
            passed.append((m, c, "crash"))
        elif 2 in exits:
            rows["undecided_only"] += 1
            passed.append((m, c, "undecided"))
        else:
            rows["passed"] += 1
            passed.append((m, c, "passed"))
    print(json.dumps(rows))
    for m, c, kind in passed:
        print("%s %s %s %s:%d [%s] %s  ->  %s   props=%s exits=%s  triage=%s" % (kind, m["id"], m["op"], m["file"], m["line"], m["func"], m["old"].replace("\n", " ")[:70],
              m["new"].replace("\n", " ")[:70], ",".join(m["props"]), {p: v["exit"] for p, v in c.items()}, tri.get(m["id"], {}).get("verdict", "-")))
    if a.save:
        keep = {"counts": rows, "not_reported": [dict({k: m[k] for k in ("id", "file", "func", "line", "op", "old", "new", "props")},
                 result=kind, triage=tri.get(m["id"], {})) for m, c, kind in passed]}
        json.dump(keep, open(os.path.join(VERIF, "mutants", "campaign.json"), "w"), indent=1)


if __name__ == "__main__":
    ap = argparse.ArgumentParser()
    ap.add_argument("cmd", choices=["gen", "tests", "checks", "report"])
    ap.add_argument("--work", default="/tmp/vfmc")
    ap.add_argument("--per-property", type=int, default=40)
    ap.add_argument("--seed", type=int, default=20261004)
    ap.add_argument("--jobs", type=int, default=12)
    ap.add_argument("--only", default="")
    ap.add_argument("--save", action="store_true")
    a = ap.parse_args()
    globals()["cmd_" + a.cmd](a)
