"""C01 concrete driver: Born rule on the real code with float parameters."""
import numpy as np
import torch

from . import common as C


def native_check(cfg, env=None, seed=0, scale=1.0):
    """Returns list of failed clauses (empty = property holds at this point)."""
    rng = np.random.default_rng(seed)
    C.VIA[0] = cfg.get("via")
    st = C.make_state(cfg["kind"], cfg["nv"], cfg["nh"])
    C.randomize(st, rng, scale)
    C.set_env(st, env)
    nv = cfg["nv"]
    space = st.generate_hilbert_space(nv)
    fails = []
    am = C.np_params(st.rbm_am)
    marg = np.array([C.marginal_np(am, v) for v in C.bits(nv)])
    before = {(net, n): p.detach().clone() for net in st.networks for n, p in getattr(st, net).named_parameters()}
    psi = st.psi(space).detach().numpy()
    prob = st.probability(space).detach().numpy()
    Z = float(st.normalization(space))
    amp = st.amplitude(space).detach().numpy()
    if psi.shape != (2, 2 ** nv):
        fails.append(("psi-shape", psi.shape))
    else:
        if not C.close(psi[0] ** 2 + psi[1] ** 2, prob):
            fails.append(("born: |psi|^2 != probability", (psi[0] ** 2 + psi[1] ** 2 - prob).tolist()))
    if not C.close(prob, marg):
        fails.append(("probability != hidden marginal", (prob - marg).tolist()))
    if not C.close(Z, marg.sum()):
        fails.append(("normalization != sum of probabilities", Z - marg.sum()))
    if not C.close(amp ** 2, marg) or (amp < 0).any():
        fails.append(("amplitude^2 != marginal or negative", (amp ** 2 - marg).tolist()))
    E = st.rbm_am.effective_energy(space).detach().numpy()
    if not C.close(np.exp(-E), marg):
        fails.append(("exp(-effective_energy) != marginal", (np.exp(-E) - marg).tolist()))
    ph = st.phase(space).detach().numpy()
    if cfg["kind"] == "complex":
        pm = C.np_params(st.rbm_ph)
        margp = np.array([C.marginal_np(pm, v) for v in C.bits(nv)])
        if not C.close(ph, 0.5 * np.log(margp)):
            fails.append(("phase != -E_mu/2", (ph - 0.5 * np.log(margp)).tolist()))
        if not C.close(psi[0], amp * np.cos(ph)) or not C.close(psi[1], amp * np.sin(ph)):
            fails.append(("psi != amp*cis(phase)", None))
    else:
        if np.any(ph != 0) or ph.shape != (2 ** nv,):
            fails.append(("positive phase not identically zero", ph.tolist()))
        if np.any(psi[1] != 0) or np.any(psi[0] < 0) or not C.close(psi[0], amp):
            fails.append(("positive psi not real non-negative", None))
    # normalised probabilities, Z handed over as a Python float and as the tensor normalization() returns
    for zform, zz in (("Python float", Z), ("tensor", st.normalization(space)), ("awkward float", 0.1 * Z)):
        pn = st.probability(space, zz).detach().numpy() * (0.1 if zform == "awkward float" else 1.0)
        if not np.allclose(pn * Z, marg, rtol=1e-12, atol=0) or abs(pn.sum() - 1.0) > 1e-12:
            fails.append(("probability(v, Z) with Z as a %s: not exp(-E)/Z at double precision" % zform, float(np.max(np.abs(pn * Z / marg - 1.0)))))
    # basis states handed over in other tensor types
    for tname, conv in (("int64", lambda t: t.long()), ("bool", lambda t: t.bool()), ("float32", lambda t: t.float()), ("uint8", lambda t: t.to(torch.uint8))):
        vv = conv(space)
        if not C.close(st.psi(vv).detach().numpy(), psi) or not C.close(st.probability(vv).detach().numpy(), prob) or not C.close(st.amplitude(vv).detach().numpy(), amp) \
                or not C.close(st.phase(vv).detach().numpy(), ph) or not C.close(st.psi(vv[-1]).detach().numpy(), psi[:, -1]):
            fails.append(("psi / probability / amplitude / phase of basis states given as a %s tensor differ from the double-precision call" % tname, None))
    # history: the same object after its parameters were rearranged in place (entries exchanged inside a tensor, so that
    # sums, norms and shapes of every tensor stay what they were): every quantity follows the current parameters
    with torch.no_grad():
        for net in st.networks:
            for _n, p in getattr(st, net).named_parameters():
                if p.numel() > 1:
                    p.copy_(p.flatten().roll(1).reshape(p.shape))
    am2 = C.np_params(st.rbm_am)
    marg2 = np.array([C.marginal_np(am2, v) for v in C.bits(nv)])
    if not C.close(float(st.normalization(space)), marg2.sum()) or not C.close(st.probability(space).detach().numpy(), marg2) \
            or not C.close(np.exp(-st.rbm_am.effective_energy(space).detach().numpy()), marg2):
        fails.append(("history: after the parameters were rearranged in place, normalization / probability / effective energy are not those of the current parameters",
                      float(st.normalization(space)) - marg2.sum()))
    if cfg["kind"] == "complex":
        pm2 = C.np_params(st.rbm_ph)
        if not C.close(st.phase(space).detach().numpy(), 0.5 * np.log(np.array([C.marginal_np(pm2, v) for v in C.bits(nv)]))):
            fails.append(("history: after the parameters were rearranged in place, the phase is not that of the current parameters", None))
    with torch.no_grad():
        for (net, n), p in before.items():
            getattr(getattr(st, net), n).copy_(p)
    # parameters installed the way a user would (`rbm.weights = nn.Parameter(W)`, requires_grad=True by default) and
    # evaluated with autograd on: the same values
    import torch.nn as nn
    keepp = {(net, n): p for net in st.networks for n, p in getattr(st, net).named_parameters()}
    try:
        for (net, n), p in keepp.items():
            setattr(getattr(st, net), n, nn.Parameter(p.detach().clone()))
        with torch.enable_grad():
            psi_g = st.psi(space).detach().numpy()
            prob_g = st.probability(space).detach().numpy()
            Zg = float(st.normalization(space))
        if not C.close(psi_g, psi) or not C.close(prob_g, prob) or not C.close(Zg, Z):
            fails.append(("parameters that require grad (the default of nn.Parameter), autograd on: psi / probability / normalization differ", None))
    finally:
        for (net, n), p in keepp.items():
            setattr(getattr(st, net), n, p)
    # vector call forms
    for r in (0, 2 ** nv - 1):
        v = space[r]
        if not C.close(st.probability(v).detach().numpy(), prob[r]) or not C.close(st.psi(v).detach().numpy(), psi[:, r]):
            fails.append(("vector call form disagrees with batched", r))
    for net in st.networks:
        for n, p in getattr(st, net).named_parameters():
            if not torch.equal(p, before[(net, n)]):
                fails.append(("parameter changed by evaluation", n))
    return fails


def large_regime(cfg, seed=0, scale=10.0):
    """Parameter magnitudes up to ~30 (the property's range): compared in the log domain with a brute-force log-sum-exp over
    all hidden configurations, where nothing overflows.  Catches formulations that are equal over the reals but lose
    all precision (or overflow) for large pre-activations."""
    import itertools
    from scipy.special import logsumexp
    rng = np.random.default_rng(seed)
    st = C.make_state(cfg["kind"], cfg["nv"], cfg["nh"])
    C.randomize(st, rng, scale)
    for net in st.networks:
        for _n, p in getattr(st, net).named_parameters():
            p.data.clamp_(-30.0, 30.0)
    nv, nh = cfg["nv"], cfg["nh"]
    space = st.generate_hilbert_space(nv)
    fails = []

    def log_marginal(par):
        W, b, c = par["weights"], par["visible_bias"], par["hidden_bias"]
        out = []
        for v in C.bits(nv):
            v = np.array(v, dtype=float)
            th = c + W @ v
            out.append(b @ v + logsumexp([float(np.dot(h, th)) for h in itertools.product((0.0, 1.0), repeat=nh)]))
        return np.array(out)
    lm = log_marginal(C.np_params(st.rbm_am))
    E = st.rbm_am.effective_energy(space).detach().numpy()
    if not np.all(np.isfinite(E)) or not np.allclose(-E, lm, rtol=1e-9, atol=1e-9):
        fails.append(("large parameters: -effective_energy != log of the hidden marginal", float(np.nanmax(np.abs(-E - lm)))))
    with np.errstate(over="ignore"):
        lp = np.log(st.probability(space).detach().numpy())
    ok = np.isfinite(lm) & (lm < 700)
    if not np.allclose(lp[ok], lm[ok], rtol=1e-9, atol=1e-9):
        fails.append(("large parameters: log probability != log of the hidden marginal", float(np.nanmax(np.abs(lp[ok] - lm[ok])))))
    if cfg["kind"] == "complex":
        lmp = log_marginal(C.np_params(st.rbm_ph))
        ph = st.phase(space).detach().numpy()
        if not np.all(np.isfinite(ph)) or not np.allclose(ph, 0.5 * lmp, rtol=1e-9, atol=1e-9):
            fails.append(("large parameters: phase != -E_mu/2", float(np.nanmax(np.abs(ph - 0.5 * lmp)))))
    return fails


def tied_regime(cfg):
    """Parameters that are symmetric under permutations of the visible units: several basis states share the LARGEST
    Boltzmann weight exactly (a sum over the basis must count every one of them)."""
    nv, nh = cfg["nv"], cfg["nh"]
    if nv < 2 or nh < 2:
        return []
    st = C.make_state(cfg["kind"], nv, nh)
    # symmetric under exchanging sites 0 and 1 together with hidden units 0 and 1; the two states with exactly one of
    # the two sites up share the largest weight
    W = torch.full((nh, nv), 0.1, dtype=torch.double)
    W[:, 0] = 0.3
    W[:, 1] = 0.3
    W[0, 0], W[0, 1], W[1, 0], W[1, 1] = 6.0, -6.0, -6.0, 6.0
    b = torch.full((nv,), -8.0, dtype=torch.double)
    b[0] = b[1] = -1.0
    with torch.no_grad():
        st.rbm_am.weights.copy_(W)
        st.rbm_am.hidden_bias.fill_(0.25)
        st.rbm_am.visible_bias.copy_(b)
    space = st.generate_hilbert_space(nv)
    prob = st.probability(space).detach().numpy()
    Z = float(st.normalization(space))
    fails = []
    if abs(Z - prob.sum()) > 1e-9 * prob.sum():
        fails.append(("tied largest weights: normalization != sum of probabilities over the basis", (Z, float(prob.sum()))))
    perm = torch.randperm(2 ** nv, generator=torch.Generator().manual_seed(3))
    Z2 = float(st.normalization(space[perm]))
    if abs(Z2 - prob.sum()) > 1e-9 * prob.sum():
        fails.append(("normalization depends on the order of the basis rows", (Z2, float(prob.sum()))))
    return fails


def bounded(tier, seed):
    n = 0
    bad = []
    archs = [(1, 1), (2, 3), (3, 2), (5, 6)] if tier == "quick" else [(a, b) for a in range(1, 6) for b in range(1, 7)]
    for kind in ("positive", "complex"):
        for (nv, nh) in archs:
            for s, scale in ((seed, 1.0), (seed + 1, 3.0), (seed + 2, 6.0 / max(nv, nh))):
                f = native_check({"kind": kind, "nv": nv, "nh": nh}, None, s, scale)
                n += 1
                if f:
                    bad.append(({"kind": kind, "nv": nv, "nh": nh, "seed": s, "scale": scale}, f[:2]))
            f = tied_regime({"kind": kind, "nv": nv, "nh": nh})
            n += 1
            if f:
                bad.append(({"kind": kind, "nv": nv, "nh": nh, "regime": "permutation-symmetric parameters (tied largest weights)"}, f[:2]))
            for s in (seed, seed + 7):
                f = large_regime({"kind": kind, "nv": nv, "nh": nh}, s)
                n += 1
                if f:
                    bad.append(({"kind": kind, "nv": nv, "nh": nh, "seed": s, "regime": "magnitudes up to 30"}, f[:2]))
        for via in ("deepcopy", "pickle"):
            f = native_check({"kind": kind, "nv": 2, "nh": 3, "via": via}, None, seed + 3, 1.0)
            n += 1
            if f:
                bad.append(({"kind": kind, "nv": 2, "nh": 3, "via": via}, f[:2]))
    C.VIA[0] = None
    return {"driver": "drivers/C01.native_check + large_regime + tied_regime", "label": "bounded", "evaluations": n, "failures": len(bad),
            "bound": "float64, one state per kind reached by deepcopy / pickle round trip, %d architectures x 3 random parameter draws (non-zero biases, gaussian scale 1, 3, 6/size) 2 draws with magnitudes up to 30 compared in the log domain, and one permutation-symmetric setting with tied largest weights (also with shuffled basis rows)" % len(archs),
            "first_failures": bad[:2]}
