"""SymTensor: a genuine torch.Tensor wrapper subclass whose payload is a NumPy
object array of exact scalars (qv.alg.P).  Every public torch call that involves
one is routed through __torch_function__ to the assumed contracts (models) of
the primitives below; __torch_dispatch__ raises, so nothing falls through to
real kernels.  Views share NumPy memory exactly where torch shares storage.

SymNd is the ndarray subclass used when the real code leaves torch (cplx.numpy,
unitaries._rotate_basis_state ...).
"""
import math
from fractions import Fraction as Fr

import numpy as np
import torch

from . import alg
from .alg import P, Unmodelled, ValueDependent, to_P

# ----------------------------------------------------------------------------
# storage / frames
# ----------------------------------------------------------------------------


class Storage:
    __slots__ = ("owner", "frozen", "version", "twin", "root", "cast")

    def __init__(self, owner=None, frozen=False):
        self.cast = None     # "f32" / "int" / "bool" when the storage belongs to a tensor that is not double precision
        self.owner = owner
        self.frozen = frozen
        self.version = 0
        self.twin = None     # concrete tensor this storage was converted from by x.to(sym) (torch returns x itself)
        self.root = None


REQUIRES_GRAD = [False]    # set by a lemma that installs parameters the way `nn.Parameter(W)` does (requires_grad=True)
_NO_GRAD_RESULT = {"detach", "detach_", "eq", "ne", "lt", "le", "gt", "ge", "argmax", "argmin", "nonzero", "size", "dim", "numel", "item", "tolist",
                   "isnan", "isfinite", "isinf", "numpy", "__len__", "shape", "stride", "is_contiguous", "data_ptr", "bernoulli", "bernoulli_",
                   "requires_grad_", "type", "is_floating_point", "is_complex", "element_size", "storage_offset", "get_device", "allclose", "equal"}


class TorchRefuses(RuntimeError):
    """The modelled precondition of a torch primitive fails: the real call raises RuntimeError."""


def _any_rg(args, kwargs):
    stack = list(args) + [v for k_, v in kwargs.items() if k_ != "out"]
    while stack:
        a = stack.pop()
        if isinstance(a, (tuple, list)):
            stack.extend(a)
        elif getattr(a, "_rg", False):
            return True
    return False


FRAME_VIOLATIONS = []      # (owner, primitive) for writes into frozen storages
PRIMS_USED = {}            # primitive name -> call count
ASSUMED = set()            # modelling assumptions actually exercised (strings)
RNG_LOG = []               # records of intercepted RNG primitives
BERNOULLI_HOOK = [None]    # callable(probs ndarray[P]) -> ndarray of 0/1 outcomes


def reset_logs():
    del FRAME_VIOLATIONS[:]
    del RNG_LOG[:]


_vec_toP = np.frompyfunc(to_P, 1, 1)


def map1(f, arr):
    """Elementwise f over an object array, always returning an ndarray of the same shape."""
    arr = np.asarray(arr, dtype=object)
    out = np.empty(arr.shape, dtype=object)
    if arr.shape == ():
        out[()] = f(arr[()])
        return out
    fo, fi = out.reshape(-1), arr.reshape(-1)
    for i in range(fi.shape[0]):
        fo[i] = f(fi[i])
    return out


def _obj(a):
    """ndarray(object) of P from anything array-like."""
    if isinstance(a, SymTensor):
        return a._arr
    if isinstance(a, torch.Tensor):
        n = a.detach().cpu().numpy()
        if n.dtype == np.bool_:
            n = n.astype(np.int64)
        out = np.empty(n.shape, dtype=object)
        if n.shape == ():
            out[()] = to_P(n.item())
        else:
            flat = out.reshape(-1)
            src = n.reshape(-1).tolist()
            for i, x in enumerate(src):
                flat[i] = to_P(x)
        return out
    if isinstance(a, np.ndarray):
        if a.dtype == object:
            return a
        out = np.empty(a.shape, dtype=object)
        flat = out.reshape(-1)
        for i, x in enumerate(a.reshape(-1).tolist()):
            flat[i] = to_P(x)
        return out
    out = np.empty((), dtype=object)
    out[()] = a.p if isinstance(a, SymFloat) else to_P(a)
    return out


def _is_sym(x):
    return isinstance(x, SymTensor)


class SymTensor(torch.Tensor):
    @staticmethod
    def __new__(cls, arr, base=None):
        if not (isinstance(arr, np.ndarray) and arr.dtype == object):
            arr = _obj(arr)
        t = torch.Tensor._make_wrapper_subclass(cls, tuple(arr.shape), dtype=torch.double, device="cpu")
        t._arr = arr
        t._stor = base if base is not None else Storage()
        t._stale = False
        return t

    def __init__(self, *a, **k):
        pass

    @classmethod
    def __torch_dispatch__(cls, func, types, args=(), kwargs=None):
        raise Unmodelled("aten-level call reached SymTensor (no assumed contract): %s" % func)

    @classmethod
    def __torch_function__(cls, func, types, args=(), kwargs=None):
        kwargs = kwargs or {}
        name = getattr(func, "__name__", None) or str(func)
        if name == "__get__":
            return _getter(func, args)
        if name == "__set__":
            return _setter(func, args)
        h = HANDLERS.get(name)
        if h is None:
            raise Unmodelled("torch primitive without assumed contract: %s" % name)
        for a in args:
            if isinstance(a, SymTensor) and a._stale:
                raise Unmodelled("use of a tensor after an in-place shape change (%s)" % name)
        PRIMS_USED[name] = PRIMS_USED.get(name, 0) + 1
        # autograd bookkeeping (only when a lemma installs parameters that require grad): a result requires grad when
        # autograd records and an operand does; torch refuses out= calls with such operands
        rg = REQUIRES_GRAD[0] and torch.is_grad_enabled() and name not in _NO_GRAD_RESULT and _any_rg(args, kwargs)
        if rg and kwargs.get("out") is not None:
            raise TorchRefuses("%s(): functions with out=... arguments don't support automatic differentiation, but one of the arguments requires grad." % name)
        res = h(*args, **kwargs)
        if rg:
            for r in (res if isinstance(res, (tuple, list)) else (res,)):
                if isinstance(r, SymTensor):
                    r._rg = True
        return res

    def __repr__(self):
        return "SymTensor(shape=%s)" % (tuple(self._arr.shape),)

    __str__ = __repr__

    def __format__(self, spec):
        return repr(self)

    def __deepcopy__(self, memo):
        r = SymTensor(self._arr.copy())
        if getattr(self, "_is_param", False):
            r._is_param = True
        memo[id(self)] = r
        return r

    def __reduce_ex__(self, proto):
        raise Unmodelled("pickling a symbolic tensor")

    # convenience for lemma code (not used by repo code)
    def entries(self):
        return self._arr


def sym(arr, owner=None, frozen=False):
    return SymTensor(_obj(arr) if not (isinstance(arr, np.ndarray) and arr.dtype == object) else arr,
                     Storage(owner, frozen))


def fresh(shape, prefix, owner=None, frozen=False, mk=alg.par):
    """A SymTensor of fresh parameter atoms named prefix[i,j,...]."""
    arr = np.empty(shape, dtype=object)
    for idx in np.ndindex(*shape):
        arr[idx] = mk("%s[%s]" % (prefix, ",".join(map(str, idx))) if shape else prefix)
    return SymTensor(arr, Storage(owner, frozen))


# ----------------------------------------------------------------------------
# helpers
# ----------------------------------------------------------------------------
def _passthrough(func, args, kwargs=None):
    with torch._C.DisableTorchFunctionSubclass():
        return func(*args, **(kwargs or {}))


def _getter(func, args):
    pname = getattr(func.__self__, "__name__", None)
    self = args[0]
    if pname == "data":
        return _alias(self)
    if pname == "shape":
        return torch.Size(self._arr.shape)          # the payload is the truth (in-place shape changes update it)
    if pname == "ndim":
        return self._arr.ndim
    if pname in ("dtype", "device", "requires_grad", "is_cuda", "layout", "ndim", "is_leaf",
                 "grad_fn", "is_sparse", "is_quantized", "is_meta", "names", "is_mkldnn", "is_xpu",
                 "is_nested", "is_cpu", "is_mps", "itemsize", "nbytes", "is_ipu", "is_xla", "is_maia",
                 "is_mtia", "is_vulkan", "output_nr", "_version"):
        return _passthrough(func, args)
    if pname == "grad":
        return getattr(self, "_grad_sym", None)
    if pname == "T":
        return SymTensor(self._arr.T, self._stor)
    if pname == "real":
        return self
    raise Unmodelled("tensor property without contract: %s" % pname)


def _setter(func, args):
    pname = getattr(func.__self__, "__name__", None)
    self, val = args[0], args[1]
    if pname == "grad":
        self._grad_sym = val
        GRAD_LOG.append((self, val))
        return None
    if pname == "data":
        _write(self, "data.setter")
        self._arr[...] = _obj(val)
        return None
    if pname == "requires_grad":
        return None
    raise Unmodelled("tensor property setter without contract: %s" % pname)


GRAD_LOG = []


def _alias(t):
    r = SymTensor(t._arr, t._stor)
    return r


def _view(t, arr):
    """Wrap `arr` (result of a numpy op on t._arr) keeping the storage when it is a view.  A selection / reshaping that
    has to copy keeps the element type of its operand."""
    if arr is t._arr or (isinstance(arr, np.ndarray) and arr.base is not None and np.shares_memory(arr, t._arr)):
        return SymTensor(arr, t._stor)
    r = SymTensor(arr)
    r._stor.cast = getattr(t._stor, "cast", None)
    return r


def _new(arr):
    if not isinstance(arr, np.ndarray):
        a = np.empty((), dtype=object)
        a[()] = arr
        arr = a
    return SymTensor(arr)


def _write(t, prim):
    t._stor.version += 1
    if t._stor.twin is not None:
        _link(t._stor, prim)
    if t._stor.frozen:
        FRAME_VIOLATIONS.append((t._stor.owner, prim))


def _promote(t, prim):
    """A concrete tensor that is about to receive symbolic values becomes a SymTensor
    *in place* (same python object, so every holder of the reference sees it).  Only
    legal when no other tensor aliases its storage (no views exist), which is checked."""
    if isinstance(t, SymTensor):
        return t
    if not isinstance(t, torch.Tensor):
        raise Unmodelled("in-place write into a non-tensor (%s)" % prim)
    with torch._C.DisableTorchFunctionSubclass():
        if t._is_view():
            raise Unmodelled("in-place write of symbolic values into a view of a concrete tensor (%s)" % prim)
        stor = t.untyped_storage()
        if torch._C._storage_Use_Count(stor._cdata) != 2:
            raise Unmodelled("in-place write of symbolic values into a concrete tensor that has live views (%s)" % prim)
        cast = None if t.dtype == torch.double else "f32" if t.dtype == torch.float else "bool" if t.dtype == torch.bool else \
            "int" if t.dtype in (torch.int64, torch.int32, torch.int16, torch.int8, torch.uint8) else "?"
        if cast == "?":
            raise Unmodelled("in-place write of symbolic values into a %s tensor (%s)" % (t.dtype, prim))
        arr = _obj(t)
    t.__class__ = SymTensor
    t._arr = arr
    t._stor = Storage()
    t._stor.cast = cast          # element type of the tensor the storage belongs to: what is written is converted to it
    t._stale = False
    return t


def _cast_written(t):
    """After a write into a tensor that is not double precision: every entry holds the converted value."""
    kind = getattr(t._stor, "cast", None)
    if kind:
        t._arr[...] = map1(lambda e: alg.cast(e, kind), t._arr)


def _assign(dst, arr, prim):
    """In-place overwrite of dst's entries."""
    if not _is_sym(dst):
        _promote(dst, prim)
    _write(dst, prim)
    dst._arr[...] = arr
    _cast_written(dst)
    return dst


def _out(res, out, prim):
    if out is None:
        return _new(res)
    if not _is_sym(out):
        _promote(out, prim)
    if tuple(out._arr.shape) != tuple(np.shape(res)):
        if out._arr.size != int(np.prod(np.shape(res))):
            raise Unmodelled("out= buffer needs resizing (%s): %s vs %s" % (prim, out._arr.shape, np.shape(res)))
        # torch resizes an out= buffer of another shape (deprecated, with a warning): same storage when the element count
        # agrees; the buffer object takes the result's shape
        ASSUMED.add("out= buffer of another shape with the same number of elements is resized in place (torch's deprecated behaviour)")
        _write(out, prim)
        flat = out._arr.reshape(-1)
        flat[...] = np.asarray(res, dtype=object).reshape(-1)
        out._arr = flat.reshape(np.shape(res))
        _cast_written(out)
        return out
    return _assign(out, res, prim)


def _ew(f):
    uf = np.frompyfunc(f, 1, 1)

    def g(arr):
        r = uf(arr)
        if not isinstance(r, np.ndarray):
            a = np.empty((), dtype=object)
            a[()] = r
            r = a
        return r
    return g


_exp, _log, _sqrt, _cos, _sin = map(_ew, (alg.exp, alg.log, alg.sqrt, alg.cos, alg.sin))
_softplus, _sigmoid, _abs = map(_ew, (alg.softplus, alg.sigmoid, alg.absval))
_atan2 = np.frompyfunc(alg.atan2, 2, 1)


def _idx(i):
    """Convert a torch index (possibly containing tensors) to a numpy index."""
    if isinstance(i, tuple):
        return tuple(_idx(j) for j in i)
    if isinstance(i, SymTensor):
        a = i._arr
        vals = np.empty(a.shape, dtype=np.int64)
        for k in np.ndindex(*a.shape):
            v = a[k].const_value()      # raises ValueDependent on symbolic entries
            if v != int(v):
                raise Unmodelled("non-integer index")
            vals[k] = int(v)
        return vals
    if isinstance(i, torch.Tensor):
        n = i.detach().cpu().numpy()
        if n.dtype in (np.float32, np.float64):
            raise Unmodelled("float tensor index")
        return n
    if isinstance(i, list):
        return [(_idx(j) if isinstance(j, (torch.Tensor,)) else j) for j in i]
    return i


def _dim_kw(kw, *names):
    for n in names:
        if n in kw:
            return kw[n]
    return None


# ----------------------------------------------------------------------------
# handlers
# ----------------------------------------------------------------------------
HANDLERS = {}


def H(*names):
    def deco(f):
        for n in names:
            HANDLERS[n] = f
        return f
    return deco


@H("to", "type_as")
def _to(self, *a, **k):
    tgt_dtype = k.get("dtype")
    tgt_cast = None
    for x in a:
        if isinstance(x, torch.dtype):
            tgt_dtype = x
        elif isinstance(x, SymTensor):
            tgt_cast = getattr(x._stor, "cast", None) or "f64"
        elif isinstance(x, torch.Tensor):
            with torch._C.DisableTorchFunctionSubclass():
                tgt_dtype = x.dtype
    if tgt_dtype is not None:
        tgt_cast = "f64" if tgt_dtype == torch.double else "f32" if tgt_dtype == torch.float else "bool" if tgt_dtype == torch.bool else \
            "int" if tgt_dtype in (torch.int64, torch.int32, torch.int16, torch.int8, torch.uint8) else "?"
    if _is_sym(self):
        have = getattr(self._stor, "cast", None) or "f64"
        if tgt_cast is None or tgt_cast == have:
            return self
        if tgt_cast == "?":
            raise Unmodelled("to(dtype=%s) of a symbolic tensor" % tgt_dtype)
        # conversion to another element type: a new tensor holding the converted values (exact for double precision)
        if tgt_cast == "f64":
            return SymTensor(self._arr.copy())
        r = SymTensor(map1(lambda e: alg.cast(e, tgt_cast), self._arr))
        r._stor.cast = tgt_cast
        return r
    # concrete tensor converted "like" a symbolic one (x.to(sym)): torch returns x itself when dtype and
    # device already match.  The result is a symbolic twin; the first in-place write through it links
    # the concrete tensor to the same storage (see _link), so aliasing with the caller's tensor is kept.
    with torch._C.DisableTorchFunctionSubclass():
        same = self.dtype == torch.double and self.device.type == "cpu"
    r = SymTensor(_obj(self))
    if same:
        r._stor.twin = self
        r._stor.root = r._arr
    return r


def _link(stor, prim):
    tw = stor.twin
    stor.twin = None
    with torch._C.DisableTorchFunctionSubclass():
        if tw._is_view() or torch._C._storage_Use_Count(tw.untyped_storage()._cdata) != 2:
            raise Unmodelled("in-place write through the .to() alias of a concrete tensor that has views (%s)" % prim)
    tw.__class__ = SymTensor
    tw._arr = stor.root
    tw._stor = stor
    tw._stale = False


@H("double", "cpu", "float64", "requires_grad_", "coalesce", "resolve_conj", "resolve_neg")
def _ident(self, *a, **k):
    return self


@H("contiguous")
def _contiguous(self, *a, **k):
    # memory layout is the layout of the payload array (views are numpy views): torch returns the tensor itself when it
    # is already contiguous and a fresh row-major copy otherwise
    if self._arr.flags["C_CONTIGUOUS"]:
        return self
    r = SymTensor(np.ascontiguousarray(self._arr))
    r._stor.cast = getattr(self._stor, "cast", None)
    return r


@H("is_contiguous")
def _is_contiguous(self, *a, **k):
    return bool(self._arr.flags["C_CONTIGUOUS"])


@H("detach")
def _detach(self):
    return _alias(self)


@H("clone")
def _clone(self, *a, memory_format=None, **k):
    # torch.preserve_format: a dense non-overlapping tensor keeps its strides (a transposed tensor stays transposed)
    r = SymTensor(np.ascontiguousarray(self._arr).copy()) if memory_format is torch.contiguous_format else SymTensor(self._arr.copy(order="K"))
    r._stor.cast = getattr(self._stor, "cast", None)
    return r


@H("numpy")
def _numpy(self, *a, **k):
    return self._arr.view(SymNd)


@H("dim", "ndimension")
def _dim(self):
    return self._arr.ndim


@H("size")
def _size(self, d=None):
    s = torch.Size(self._arr.shape)
    return s if d is None else s[d]


@H("numel", "nelement")
def _numel(self):
    return int(self._arr.size)


@H("__len__")
def _len(self):
    if self._arr.ndim == 0:
        raise TypeError("len() of a 0-d tensor")
    return self._arr.shape[0]


@H("is_floating_point")
def _isfp(self):
    return True


@H("is_complex", "is_conj", "is_neg", "is_inference", "_is_view")
def _false(self):
    return False


@H("get_device")
def _getdev(self):
    return -1


@H("__getitem__")
def _getitem(self, idx):
    if not _is_sym(self):
        # concrete tensor indexed by a symbolic index
        raise ValueDependent("indexing with a symbolic index")
    r = self._arr[_idx(idx)]
    if not isinstance(r, np.ndarray):
        a = np.empty((), dtype=object)
        a[()] = r
        z = SymTensor(a)             # a 0-d copy; torch would give a view, writes through 0-d views are not modelled
        z._stor.cast = getattr(self._stor, "cast", None)
        return z
    return _view(self, r)


@H("__setitem__")
def _setitem(self, idx, val):
    if not _is_sym(self):
        _promote(self, "__setitem__")
    _write(self, "__setitem__")
    v = _obj(val)
    self._arr[_idx(idx)] = v if v.shape != () else v[()]
    _cast_written(self)
    return None


def _shape_args(shape):
    if len(shape) == 1 and isinstance(shape[0], (tuple, list, torch.Size)):
        shape = tuple(shape[0])
    return tuple(int(s) for s in shape)


@H("reshape")
def _reshapeop(self, *shape, **k):
    return _reshaped(self, _shape_args(shape), "reshape")


@H("view")
def _viewop(self, *shape, **k):
    shape = _shape_args(shape)
    r = self._arr.reshape(shape)
    if self._arr.size > 1 and not np.shares_memory(r, self._arr):
        ASSUMED.add("Tensor.view raises exactly when numpy's no-copy reshape rule needs a copy")
        raise RuntimeError("view size is not compatible with input tensor's size and stride (at least one dimension spans "
                           "across two contiguous subspaces). Use .reshape(...) instead.")
    return _view(self, r)


def _reshaped(self, shape, prim):
    """numpy and torch share the no-copy reshape rule: a view when the strides allow it, else a copy that no longer
    aliases the operand"""
    r = self._arr.reshape(shape)
    v = _view(self, r)
    if self._arr.size > 1 and v._stor is not self._stor:
        ASSUMED.add("reshape of a non-contiguous tensor returns a copy exactly when numpy's no-copy reshape rule needs one")
    return v


@H("view_as")
def _view_as(self, other):
    return _reshaped(self, tuple(other.shape), "view_as")


@H("flatten")
def _flatten(self, start_dim=0, end_dim=-1):
    nd = self._arr.ndim
    s, e = start_dim % max(nd, 1), end_dim % max(nd, 1)
    shp = self._arr.shape
    new = shp[:s] + (int(np.prod(shp[s:e + 1])) if nd else 1,) + shp[e + 1:]
    return _view(self, self._arr.reshape(new))


@H("unsqueeze")
def _unsqueeze(self, dim):
    d = dim if dim >= 0 else dim + self._arr.ndim + 1
    return _view(self, np.expand_dims(self._arr, d))


@H("unsqueeze_")
def _unsqueeze_(self, dim):
    # in-place shape change: the same python object gets the new shape (every shape query reads the payload)
    d = dim if dim >= 0 else dim + self._arr.ndim + 1
    self._arr = np.expand_dims(self._arr, d)
    return self


@H("squeeze")
def _squeeze(self, dim=None):
    if dim is None:
        return _view(self, self._arr.squeeze())
    d = dim % max(self._arr.ndim, 1)
    if self._arr.ndim and self._arr.shape[d] == 1:
        return _view(self, self._arr.squeeze(d))
    return _alias(self)


@H("squeeze_")
def _squeeze_(self, dim=None):
    if dim is None:
        self._arr = self._arr.squeeze()
    else:
        d = dim % max(self._arr.ndim, 1)
        if self._arr.ndim and self._arr.shape[d] == 1:
            self._arr = self._arr.squeeze(d)
    return self


@H("t")
def _t(self):
    if self._arr.ndim > 2:
        raise RuntimeError("t() expects a tensor with <= 2 dimensions")
    return _view(self, self._arr.T)


@H("transpose", "swapaxes")
def _transpose(self, d0, d1):
    return _view(self, np.swapaxes(self._arr, d0, d1))


@H("permute")
def _permute(self, *dims):
    if len(dims) == 1 and isinstance(dims[0], (tuple, list)):
        dims = tuple(dims[0])
    return _view(self, np.transpose(self._arr, dims))


@H("expand")
def _expand(self, *sizes):
    if len(sizes) == 1 and isinstance(sizes[0], (tuple, list, torch.Size)):
        sizes = tuple(sizes[0])
    shp = self._arr.shape
    nd = len(sizes)
    full = (1,) * (nd - len(shp)) + tuple(shp)
    tgt = tuple(full[i] if s == -1 else int(s) for i, s in enumerate(sizes))
    return SymTensor(np.broadcast_to(self._arr.reshape(full), tgt), self._stor)


@H("expand_as")
def _expand_as(self, other):
    return _expand(self, *tuple(other.shape))


@H("repeat")
def _repeat(self, *reps):
    if len(reps) == 1 and isinstance(reps[0], (tuple, list, torch.Size)):
        reps = tuple(reps[0])
    a = self._arr
    a = a.reshape((1,) * (len(reps) - a.ndim) + a.shape)
    return _new(np.tile(a, reps))


@H("cat", "concatenate", "concat")
def _cat(tensors, dim=0, out=None):
    arrs = [_obj(t) for t in tensors]
    return _out(np.concatenate(arrs, axis=dim), out, "cat")


@H("stack")
def _stack(tensors, dim=0, out=None):
    arrs = [_obj(t) for t in tensors]
    return _out(np.stack(arrs, axis=dim), out, "stack")


@H("zeros_like")
def _zeros_like(x, **k):
    a = np.empty(tuple(x.shape), dtype=object)
    a[...] = alg.ZERO
    return _new(a)


@H("ones_like")
def _ones_like(x, **k):
    a = np.empty(tuple(x.shape), dtype=object)
    a[...] = alg.ONE
    return _new(a)


_UNINIT = [0]


def _uninitialised(shape):
    """torch.empty*: the contents are whatever the allocator left there - fresh, unconstrained symbols (a result that
    depends on them cannot be proved equal to anything)"""
    _UNINIT[0] += 1
    return fresh(tuple(int(s) for s in shape), "uninitialised_memory_%d" % _UNINIT[0])


@H("empty_like")
def _empty_like(x, **k):
    return _uninitialised(tuple(x.shape))


@H("new_empty")
def _new_empty(self, *size, **k):
    if len(size) == 1 and isinstance(size[0], (tuple, list, torch.Size)):
        size = tuple(size[0])
    return _uninitialised(size)


# ---- arithmetic
def _binop(op, prim):
    def f(a, b, *, alpha=None, out=None, **k):
        if k.get("rounding_mode") is not None:
            raise Unmodelled("div rounding_mode")
        A, B = _obj(a), _obj(b)
        if alpha is not None and alpha != 1:
            B = B * to_P(alpha)
        return _out(op(A, B), out, prim)
    return f


def _ibinop(op, prim):
    def f(self, b, *, alpha=None, **k):
        B = _obj(b)
        if alpha is not None and alpha != 1:
            B = B * to_P(alpha)
        if not _is_sym(self):
            _promote(self, prim)
        res = op(self._arr, B)
        if np.shape(res) != self._arr.shape:
            raise RuntimeError("in-place result shape mismatch")
        return _assign(self, res, prim)
    return f


import operator as _op

for _names, _o in ((("add", "__add__", "__radd__"), _op.add), (("mul", "__mul__", "__rmul__", "multiply"), _op.mul)):
    for _n in _names:
        HANDLERS[_n] = _binop(_o, _n)
for _n in ("sub", "__sub__", "subtract"):
    HANDLERS[_n] = _binop(_op.sub, _n)
for _n in ("div", "__truediv__", "true_divide", "divide"):
    HANDLERS[_n] = _binop(_op.truediv, _n)
HANDLERS["__rsub__"] = lambda a, b: _new(_obj(b) - _obj(a))
HANDLERS["rsub"] = lambda a, b, **k: _new(_obj(b) - _obj(a))
HANDLERS["__rtruediv__"] = lambda a, b: _new(_obj(b) / _obj(a))
HANDLERS["__rdiv__"] = HANDLERS["__rtruediv__"]
for _n in ("add_", "__iadd__"):
    HANDLERS[_n] = _ibinop(_op.add, _n)
for _n in ("sub_", "__isub__"):
    HANDLERS[_n] = _ibinop(_op.sub, _n)
for _n in ("mul_", "__imul__"):
    HANDLERS[_n] = _ibinop(_op.mul, _n)
for _n in ("div_", "__itruediv__", "__idiv__"):
    HANDLERS[_n] = _ibinop(_op.truediv, _n)


@H("neg", "__neg__", "negative")
def _neg(a, out=None):
    return _out(-_obj(a), out, "neg")


@H("pow", "__pow__")
def _pow(a, e, out=None):
    e = e if not isinstance(e, torch.Tensor) else to_P(e).const_value()
    f = np.frompyfunc(lambda x: x ** e, 1, 1)
    return _out(f(_obj(a)), out, "pow")


@H("pow_")
def _pow_(self, e):
    f = np.frompyfunc(lambda x: x ** e, 1, 1)
    return _assign(self, f(self._arr), "pow_")


@H("square")
def _square(a):
    A = _obj(a)
    return _new(A * A)


def _unary(fn, prim):
    def f(a, out=None):
        return _out(fn(_obj(a)), out, prim)
    return f


def _iunary(fn, prim):
    def f(self):
        return _assign(self, fn(self._arr), prim)
    return f


for _n, _f in (("exp", _exp), ("log", _log), ("sqrt", _sqrt), ("cos", _cos), ("sin", _sin),
               ("sigmoid", _sigmoid), ("abs", _abs), ("absolute", _abs)):
    HANDLERS[_n] = _unary(_f, _n)
    HANDLERS[_n + "_"] = _iunary(_f, _n + "_")
HANDLERS["__abs__"] = HANDLERS["abs"]


@H("softplus")
def _softplus_h(x, beta=1, threshold=20):
    if beta != 1:
        raise Unmodelled("softplus beta")
    ASSUMED.add("softplus threshold branch ignored (floats as reals)")
    return _new(_softplus(_obj(x)))


@H("atan2", "arctan2")
def _atan2_h(y, x, out=None):
    return _out(_atan2(_obj(y), _obj(x)), out, "atan2")


_EPS = float(torch.finfo(torch.double).eps)


def _clamp_check(arr, lo, hi, prim):
    lo = None if lo is None else (float(lo) if not isinstance(lo, torch.Tensor) else float(lo))
    hi = None if hi is None else (float(hi) if not isinstance(hi, torch.Tensor) else float(hi))
    if lo is not None and hi is not None and abs(lo - _EPS) < 1e-30 and abs(hi - (1 - _EPS)) < 1e-18:
        ASSUMED.add("probs_to_logits epsilon clamp treated as identity (floats as reals)")
        return arr
    out = np.empty(arr.shape, dtype=object)
    for k in np.ndindex(*arr.shape):
        x = arr[k]
        if x.is_const():
            v = x.const_value()
            if lo is not None and v < lo:
                v = lo
            if hi is not None and v > hi:
                v = hi
            out[k] = to_P(v)
            continue
        need_lo = lo is not None and not alg.is_nonneg(x - to_P(lo))
        need_hi = hi is not None and not alg.is_nonneg(to_P(hi) - x)
        # a bound that provably never binds disappears; otherwise the clamp stays as an opaque atom with a numeric reading
        out[k] = alg.clampf(x, lo if need_lo else None, hi if need_hi else None)
    return out


@H("clamp", "clip")
def _clamp(a, min=None, max=None, out=None):
    return _out(_clamp_check(_obj(a), min, max, "clamp"), out, "clamp")


@H("clamp_", "clip_")
def _clamp_(self, min=None, max=None):
    return _assign(self, _clamp_check(self._arr, min, max, "clamp_"), "clamp_")


# ---- reductions
def _axis(dim):
    if dim is None:
        return None
    if isinstance(dim, (tuple, list)):
        return tuple(int(d) for d in dim)
    return int(dim)


@H("sum")
def _sum(a, *args, dim=None, keepdim=False, dtype=None, out=None, axis=None):
    if args:
        dim = args[0]
        if len(args) > 1:
            keepdim = args[1]
    if axis is not None:
        dim = axis
    A = _obj(a)
    if A.size == 0:
        shp = list(A.shape)
        r = np.empty([s for i, s in enumerate(shp) if dim is None or i != (dim % len(shp))] if dim is not None else (), dtype=object)
        r[...] = alg.ZERO
        return _out(r, out, "sum")
    r = np.sum(A, axis=_axis(dim), keepdims=bool(keepdim))
    if not isinstance(r, np.ndarray):
        x = np.empty((), dtype=object)
        x[()] = r
        r = x
    return _out(r, out, "sum")


@H("mean")
def _mean(a, *args, dim=None, keepdim=False, dtype=None, out=None):
    if args:
        dim = args[0]
        if len(args) > 1:
            keepdim = args[1]
    A = _obj(a)
    ax = _axis(dim)
    n = A.size if ax is None else int(np.prod([A.shape[i] for i in (ax if isinstance(ax, tuple) else (ax,))]))
    r = np.sum(A, axis=ax, keepdims=bool(keepdim))
    if not isinstance(r, np.ndarray):
        x = np.empty((), dtype=object)
        x[()] = r
        r = x
    return _out(r / n, out, "mean")


@H("prod")
def _prod(a, dim=None, keepdim=False, **k):
    A = _obj(a)
    r = np.prod(A, axis=_axis(dim), keepdims=bool(keepdim))
    if not isinstance(r, np.ndarray):
        x = np.empty((), dtype=object)
        x[()] = r
        r = x
    return _new(r)


@H("logsumexp")
def _logsumexp(a, dim, keepdim=False, out=None):
    A = _obj(a)
    E = _exp(A)
    S = np.sum(E, axis=_axis(dim), keepdims=bool(keepdim))
    if not isinstance(S, np.ndarray):
        x = np.empty((), dtype=object)
        x[()] = S
        S = x
    return _out(_log(S), out, "logsumexp")


# ---- linear algebra
@H("matmul", "__matmul__", "mm", "bmm")
def _matmul(a, b, out=None):
    A, B = _obj(a), _obj(b)
    if A.ndim == 0 or B.ndim == 0:
        raise RuntimeError("matmul of a 0-d tensor")
    return _out(np.matmul(A, B), out, "matmul")


@H("__rmatmul__")
def _rmatmul(a, b):
    return _matmul(b, a)


@H("mv")
def _mv(a, b, out=None):
    A, B = _obj(a), _obj(b)
    if A.ndim != 2 or B.ndim != 1:
        raise RuntimeError("mv expects a matrix and a vector")
    return _out(np.matmul(A, B), out, "mv")


@H("dot", "vdot", "inner")
def _dot(a, b, out=None):
    A, B = _obj(a), _obj(b)
    if A.ndim != 1 or B.ndim != 1:
        raise RuntimeError("1D tensors expected")
    if A.shape != B.shape:
        raise RuntimeError("inconsistent tensor size")
    r = np.empty((), dtype=object)
    r[()] = sum((x * y for x, y in zip(A, B)), alg.ZERO)
    return _out(r, out, "dot")


@H("ger", "outer")
def _ger(a, b, out=None):
    A, B = _obj(a), _obj(b)
    if A.ndim != 1 or B.ndim != 1:
        raise RuntimeError("outer: 1D tensors expected")
    return _out(np.multiply.outer(A, B), out, "ger")


@H("linear")
def _linear(x, w, b=None):
    X, W = _obj(x), _obj(w)
    r = np.matmul(X, W.T)
    if b is not None:
        r = r + _obj(b)
    return _new(r)


@H("einsum")
def _einsum(eq, *ops):
    if len(ops) == 1 and isinstance(ops[0], (list, tuple)):
        ops = tuple(ops[0])
    arrs = [_obj(o) for o in ops]
    lhs, _, rhs = eq.replace(" ", "").partition("->")
    if "..." in eq:
        # expand ellipsis by hand (object einsum supports it, but keep explicit)
        pass
    r = np.einsum(eq, *arrs)
    if not isinstance(r, np.ndarray):
        x = np.empty((), dtype=object)
        x[()] = r
        r = x
    if r.dtype != object:
        r = _obj(r)
    return _new(r)


@H("roll")
def _roll(a, shifts, dims=None):
    return _new(np.roll(_obj(a), shifts, axis=dims))


@H("diagonal")
def _diagonal(a, offset=0, dim1=0, dim2=1):
    v = np.diagonal(a._arr, offset, dim1, dim2)
    if a._arr.flags.writeable:
        v.flags.writeable = True        # torch's diagonal is an ordinary (writable) view; numpy marks its own read-only
    return _view(a, v)


@H("diag")
def _diag(a, diagonal=0):
    return _new(np.diag(_obj(a), diagonal))


@H("trace")
def _trace(a):
    return _new(np.trace(_obj(a)))


# ---- copy / fill
@H("copy_")
def _copy_(self, src, *a, **k):
    if not _is_sym(self):
        _promote(self, "copy_")
    return _assign(self, np.broadcast_to(_obj(src), self._arr.shape), "copy_")


@H("zero_")
def _zero_(self):
    z = np.empty(self._arr.shape, dtype=object)
    z[...] = alg.ZERO
    return _assign(self, z, "zero_")


@H("fill_")
def _fill_(self, v):
    z = np.empty(self._arr.shape, dtype=object)
    z[...] = to_P(v)
    return _assign(self, z, "fill_")


# ---- value extraction: only legal on concrete entries
@H("item")
def _item(self):
    if self._arr.size != 1:
        raise RuntimeError("item() of a tensor with more than one element")
    x = self._arr.reshape(-1)[0]
    if x.is_const():
        v = x.const_value()
        return float(v)
    return SymFloat(x)


@H("tolist")
def _tolist(self):
    return [float(x.const_value()) for x in self._arr.reshape(-1)] if self._arr.ndim == 1 else \
        np.vectorize(lambda x: float(x.const_value()), otypes=[float])(self._arr).tolist()


@H("__bool__", "__float__", "__int__", "__index__", "__complex__")
def _concretise(self):
    x = self._arr.reshape(-1)[0] if self._arr.size == 1 else None
    if x is None:
        raise RuntimeError("only one-element tensors can be converted to Python scalars")
    return x.const_value() if not x.is_const() else x.const_value()


def _const_array(x):
    """float ndarray of a tensor-like whose entries are all concrete, else None"""
    if isinstance(x, SymTensor):
        a = x._arr
        out = np.empty(a.shape, dtype=float)
        for k in np.ndindex(*a.shape):
            if not a[k].is_const():
                return None
            v = a[k].const_value()
            if isinstance(v, complex):
                return None
            out[k] = float(v)
        return out
    if isinstance(x, torch.Tensor):
        return x.detach().numpy().astype(float)
    return np.asarray(float(x))


def _mk_cmp(opname):
    op = getattr(_op, opname)

    def f(a, b):
        A_, B_ = _const_array(a), _const_array(b)
        if A_ is None or B_ is None:
            raise ValueDependent("comparison involving a symbolic tensor")
        return _real_tensor(op(A_, B_))          # entries are concrete: an ordinary bool tensor
    return f


for _n, _o in (("eq", "eq"), ("__eq__", "eq"), ("ne", "ne"), ("__ne__", "ne"), ("lt", "lt"), ("__lt__", "lt"), ("le", "le"), ("__le__", "le"),
               ("gt", "gt"), ("__gt__", "gt"), ("ge", "ge"), ("__ge__", "ge")):
    HANDLERS[_n] = _mk_cmp(_o)


def _real_tensor(x):
    return _PROXY._real.tensor(x) if "_PROXY" in globals() else torch.tensor(x)


def _entry_is_zero(p):
    """True / False when decidable without knowing parameter values (identically zero / a non-zero constant such as
    1/sqrt 2), else ValueDependent."""
    if alg.is_zero(p):
        return True
    if not alg.free_names(p):
        v = alg.evalf(p, {})
        return abs(v) < 1e-12
    raise ValueDependent("a comparison whose outcome depends on parameter values: %s" % p.short(60))


SPLIT_LOG = []      # parameter-name sets on which the code tested "is this tensor identically zero" (case split by re-run)


def _param_names(A_):
    """names of the parameters if every entry of the array is a plain parameter (or 0), else None"""
    names = []
    for i in np.ndindex(*A_.shape):
        p = A_[i]
        if not p.t:
            continue
        if len(p.t) != 1:
            return None
        (m, c), = p.t.items()
        if len(m) != 1 or m[0][1] != 1 or alg.atom(m[0][0]).kind != "par" or c != 1:
            return None
        names.append(alg.atom(m[0][0]).key[1])
    return names


@H("all")
def _all(a, *args, **k):
    if args or k:
        raise ValueDependent("all() along a dimension of a symbolic tensor")
    A_ = _obj(a)
    return _real_tensor(all(not _entry_is_zero(A_[i]) for i in np.ndindex(*A_.shape)))


@H("any")
def _any(a, *args, **k):
    if args or k:
        raise ValueDependent("any() along a dimension of a symbolic tensor")
    A_ = _obj(a)
    try:
        return _real_tensor(any(not _entry_is_zero(A_[i]) for i in np.ndindex(*A_.shape)))
    except ValueDependent:
        names = _param_names(A_)
        if not names:
            raise
        # "are these parameters all exactly zero?": the generic answer is no; the special case is decided by a second run
        # of the whole configuration with exactly these parameters held at 0 (cli._worker)
        if sorted(names) not in SPLIT_LOG:
            SPLIT_LOG.append(sorted(names))
        return _real_tensor(True)


@H("equal")
def _equal(a, b):
    A_, B_ = _obj(a), _obj(b)
    if A_.shape != B_.shape:
        return False
    return all(_entry_is_zero(A_[i] - B_[i]) for i in np.ndindex(*A_.shape))


@H("round")
def _round(self, *a, decimals=0, **k):
    """rounding to the nearest integer (ties to even, as torch and Python do): an atom valued numerically from its argument"""
    if a or decimals or k:
        raise ValueDependent("round with decimals")
    return _new(map1(lambda e: alg.cast(e, "rnd"), self._arr))


@H("nonzero", "argmax", "argmin", "max", "min", "sort", "argsort", "unique", "int", "long",
   "bool", "floor", "ceil", "sign", "isnan", "isinf", "isfinite", "allclose")
def _valdep(*a, **k):
    raise ValueDependent("value-dependent primitive on a symbolic tensor")


@H("where")
def _where(cond, x=None, y=None, **k):
    """torch.where(cond, x, y) with a concrete boolean condition selects entry-wise (broadcast); a symbolic condition
    or the one-argument form is value-dependent"""
    if isinstance(cond, SymTensor) or x is None or y is None or k:
        raise ValueDependent("value-dependent primitive on a symbolic tensor")
    c = np.asarray(cond.detach().cpu().numpy() if isinstance(cond, torch.Tensor) else cond)
    if c.dtype != bool:
        raise ValueDependent("where on a non-boolean condition")
    X, Y = _obj(x), _obj(y)
    shape = np.broadcast_shapes(c.shape, np.shape(X), np.shape(Y))
    cb, Xb, Yb = np.broadcast_to(c, shape), np.broadcast_to(X, shape), np.broadcast_to(Y, shape)
    out = np.empty(shape, dtype=object)
    for i in np.ndindex(*shape):
        out[i] = Xb[i] if cb[i] else Yb[i]
    return _new(out)


@H("bernoulli")
def _bernoulli(p, *a, out=None, generator=None, **k):
    if generator is not None:
        raise Unmodelled("bernoulli with an explicit generator")
    hook = BERNOULLI_HOOK[0]
    if hook is None:
        raise Unmodelled("torch.bernoulli on symbolic probabilities without a recording stub")
    P_ = _obj(p)
    draws = hook(P_)
    RNG_LOG.append(("bernoulli", P_.copy(), draws))
    return _out(_obj(draws), out, "bernoulli")


@H("__iter__")
def _iter(self):
    if self._arr.ndim == 0:
        raise TypeError("iteration over a 0-d tensor")
    return iter([_view(self, self._arr[i]) if isinstance(self._arr[i], np.ndarray) else _new(self._arr[i])
                 for i in range(self._arr.shape[0])])


@H("__hash__")
def _hash(self):
    return id(self)


@H("__deepcopy__")
def _deepcopy(self, memo):
    return SymTensor.__deepcopy__(self, memo)


@H("var_mean")
def _var_mean(a, *args, **k):
    """Assumed contract of torch.var_mean (whole tensor, unbiased): (sum (x-mean)^2 / (n-1), sum x / n)."""
    if args or any(v is not None for kk, v in k.items() if kk in ("dim",)) or k.get("unbiased", True) is not True or k.get("correction", 1) != 1:
        raise Unmodelled("var_mean with dim / biased estimator")
    A_ = _obj(a).reshape(-1)
    n = A_.shape[0]
    if n < 2:
        raise Unmodelled("var_mean of fewer than two symbolic samples (NaN)")
    mean = sum(A_, alg.ZERO) / n
    var = sum(((x - mean) * (x - mean) for x in A_), alg.ZERO) / (n - 1)
    return _new(var), _new(mean)


# ----------------------------------------------------------------------------
# symbolic python float returned by .item() on a symbolic entry
# ----------------------------------------------------------------------------
class SymFloat(float):
    """Result of `.item()` on a symbolic entry: still a python float *type-wise*
    (so `isinstance(x, float)` contracts can be checked) carrying its exact value."""

    def __new__(cls, p):
        o = float.__new__(cls, float("nan"))
        o.p = p
        return o

    def _b(self, o):
        return o.p if isinstance(o, SymFloat) else to_P(o)

    def __add__(self, o): return SymFloat(self.p + self._b(o))
    __radd__ = __add__
    def __sub__(self, o): return SymFloat(self.p - self._b(o))
    def __rsub__(self, o): return SymFloat(self._b(o) - self.p)
    def __mul__(self, o): return SymFloat(self.p * self._b(o))
    __rmul__ = __mul__
    def __truediv__(self, o): return SymFloat(self.p / self._b(o))
    def __rtruediv__(self, o): return SymFloat(self._b(o) / self.p)
    def __neg__(self): return SymFloat(-self.p)
    def __pow__(self, e): return SymFloat(self.p ** e)
    def __abs__(self): return SymFloat(alg.absval(self.p))
    def __bool__(self): raise ValueDependent("truth value of a symbolic float")
    def __lt__(self, o): raise ValueDependent("comparison of a symbolic float")
    __le__ = __gt__ = __ge__ = __lt__
    def __eq__(self, o): raise ValueDependent("comparison of a symbolic float")
    __hash__ = None
    def __repr__(self): return "SymFloat(%s)" % self.p.short(60)

    def __array_ufunc__(self, ufunc, method, *inputs, **kwargs):
        nm = ufunc.__name__
        if method != "__call__" or kwargs.get("out") is not None:
            raise Unmodelled("numpy ufunc %s.%s on a symbolic float" % (nm, method))
        vals = [x.p if isinstance(x, SymFloat) else to_P(x) for x in inputs]
        if nm == "sqrt":
            return SymFloat(alg.sqrt(vals[0]))
        if nm in ("add", "subtract", "multiply", "true_divide", "divide"):
            op = {"add": _op.add, "subtract": _op.sub, "multiply": _op.mul, "true_divide": _op.truediv, "divide": _op.truediv}[nm]
            return SymFloat(op(vals[0], vals[1]))
        if nm in ("absolute", "fabs"):
            return SymFloat(alg.absval(vals[0]))
        raise Unmodelled("numpy ufunc without assumed contract on a symbolic float: %s" % nm)


# ----------------------------------------------------------------------------
# SymNd
# ----------------------------------------------------------------------------
class SymNd(np.ndarray):
    """object-dtype ndarray of P following the repo's NumPy paths.

    Object arrays already give exact semantics for + - * /, fancy indexing,
    prod, einsum, conj (calls .conjugate()), exp (calls .exp()).  .real/.imag of
    an object array are silently wrong in NumPy, and in-place ufuncs whose output
    is a concrete complex array cannot cast; both are overridden here."""

    @property
    def real(self):
        return map1(alg.re, np.asarray(self)).view(SymNd)

    @property
    def imag(self):
        return map1(alg.im, np.asarray(self)).view(SymNd)

    def __array_ufunc__(self, ufunc, method, *inputs, out=None, **kwargs):
        if method != "__call__":
            ins = [np.asarray(x) if isinstance(x, SymNd) else x for x in inputs]
            return getattr(ufunc, method)(*ins, **kwargs)
        ins = []
        for x in inputs:
            if isinstance(x, SymNd):
                ins.append(np.asarray(x))
            elif isinstance(x, np.ndarray) and x.dtype != object:
                ins.append(_obj(x))
            else:
                ins.append(x)
        nm = ufunc.__name__
        table = {"add": _op.add, "subtract": _op.sub, "multiply": _op.mul, "true_divide": _op.truediv,
                 "divide": _op.truediv, "negative": _op.neg, "positive": _op.pos}
        if nm in table:
            r = table[nm](*[(i if isinstance(i, np.ndarray) else to_P(i)) for i in ins])
        elif nm == "conjugate":
            r = map1(alg.conj, ins[0])
        elif nm == "exp":
            r = _exp(ins[0])
        elif nm == "sqrt":
            r = _sqrt(ins[0])
        elif nm == "log":
            r = _log(ins[0])
        elif nm in ("absolute", "fabs"):
            r = map1(_modulus, ins[0])
        elif nm == "power":
            e = inputs[1]
            r = map1(lambda x: x ** e, ins[0])
        elif nm == "matmul":
            r = np.matmul(ins[0], ins[1])
        else:
            raise Unmodelled("numpy ufunc without assumed contract: %s" % nm)
        PRIMS_USED["np." + nm] = PRIMS_USED.get("np." + nm, 0) + 1
        if not isinstance(r, np.ndarray):
            x = np.empty((), dtype=object)
            x[()] = r
            r = x
        # `out=` (in-place on a concrete array): return a new array; python rebinds the name
        return r.view(SymNd)

    def __array_function__(self, func, types, args, kwargs):
        nm = func.__name__
        allowed = {"prod", "sum", "einsum", "conj", "conjugate", "real", "imag", "matmul", "dot", "stack",
                   "concatenate", "transpose", "reshape", "squeeze", "expand_dims", "ones", "ones_like",
                   "zeros_like", "broadcast_to", "shares_memory", "may_share_memory", "copyto", "ndim", "shape",
                   "size", "moveaxis", "swapaxes", "trace", "diagonal", "array_equal", "tile", "repeat", "copy",
                   "atleast_1d", "atleast_2d", "asarray", "array", "result_type", "can_cast", "isscalar",
                   "iscomplexobj", "isrealobj", "empty_like", "full_like", "outer", "kron", "tensordot", "abs",
                   "absolute", "sqrt", "exp", "mean", "roll", "where", "take", "diag"}
        if nm == "real":
            return args[0].real if isinstance(args[0], SymNd) else np.asarray(args[0]).real
        if nm == "imag":
            return args[0].imag if isinstance(args[0], SymNd) else np.asarray(args[0]).imag
        if nm in ("eigvals", "eig", "eigh", "eigvalsh", "inv", "det", "svd", "sqrtm", "solve", "norm"):
            hook = LINALG_HOOK.get(nm)
            if hook is None:
                raise Unmodelled("numpy.linalg.%s on symbolic values" % nm)
            return hook(*args, **kwargs)
        if nm not in allowed:
            raise Unmodelled("numpy function without assumed contract: %s" % nm)
        PRIMS_USED["np." + nm] = PRIMS_USED.get("np." + nm, 0) + 1
        args2 = tuple(np.asarray(a) if isinstance(a, SymNd) else a for a in args)
        if nm == "einsum":
            args2 = tuple(_obj(a) if isinstance(a, np.ndarray) and a.dtype != object else a for a in args2)
        r = func(*args2, **kwargs)
        if isinstance(r, np.ndarray) and r.dtype == object:
            return r.view(SymNd)
        if isinstance(r, P):
            return r
        return r

    def astype(self, dtype, *a, **k):
        if dtype in (object, "O"):
            return self
        if dtype in (complex, np.complex128, float, np.float64):
            return self
        raise Unmodelled("astype(%s) of a symbolic array" % (dtype,))


LINALG_HOOK = {}


def _modulus(x):
    if alg.is_real(x):
        return alg.absval(x)
    return alg.sqrt(alg.re(x * alg.conj(x)))


# torch.tensor(list-of-SymNd) / torch.tensor(SymNd) cannot be intercepted by
# __torch_function__ (no tensor argument).  Front end N binds the name `torch`
# in the sandboxed module namespace to this proxy where the repo code needs it.
class TorchProxy:
    def __init__(self, real=torch):
        self.__dict__["_real"] = real

    def __getattr__(self, n):
        return getattr(self._real, n)

    def tensor(self, data, *a, **k):
        def has_sym(d):
            if isinstance(d, SymNd) or (isinstance(d, np.ndarray) and d.dtype == object):
                return True
            if isinstance(d, (P, SymFloat, SymTensor)):
                return True
            if isinstance(d, (list, tuple)):
                return any(has_sym(x) for x in d)
            return False
        if has_sym(data):
            def conv(d):
                if isinstance(d, SymTensor):
                    return conv(d._arr)
                if isinstance(d, SymFloat):
                    return d.p
                if isinstance(d, (list, tuple)):
                    return [conv(x) for x in d]
                if isinstance(d, np.ndarray):
                    return conv(d.tolist()) if d.ndim else d[()]
                return d
            d = conv(data)
            arr = np.empty(np.shape(np.array(d, dtype=object)), dtype=object)
            arr[...] = np.array(d, dtype=object)
            arr = _obj(np.asarray(arr)) if arr.dtype != object else np.frompyfunc(to_P, 1, 1)(arr)
            if not isinstance(arr, np.ndarray):
                x = np.empty((), dtype=object)
                x[()] = arr
                arr = x
            PRIMS_USED["torch.tensor(sym)"] = PRIMS_USED.get("torch.tensor(sym)", 0) + 1
            return SymTensor(np.asarray(arr, dtype=object))
        return self._real.tensor(data, *a, **k)


# torch.tensor(<symbolic ndarray / nested list of symbolic values>) has no tensor argument and
# cannot be seen by __torch_function__; the checker process replaces the *name* torch.tensor by
# its assumed contract (build a tensor holding exactly the given entries).  Concrete data is
# passed to the real torch.tensor unchanged.
_PROXY = TorchProxy(torch)
if not getattr(torch.tensor, "_qv_patched", False):
    _real_tensor = torch.tensor

    def _tensor(data, *a, **k):
        return _PROXY.tensor(data, *a, **k)
    _tensor._qv_patched = True
    _PROXY.__dict__["_real"] = type("R", (), {"tensor": staticmethod(_real_tensor)})()
    torch.tensor = _tensor


# ---------------------------------------------------------------------------- further primitives (equivalent spellings
# a maintainer may use; each is expressed through the operations above)
@H("reciprocal")
def _reciprocal(a, out=None):
    return _out(map1(lambda x: alg.inv(x), _obj(a)), out, "reciprocal")


@H("reciprocal_")
def _reciprocal_(self):
    return _assign(self, map1(lambda x: alg.inv(x), self._arr), "reciprocal_")


@H("rsqrt")
def _rsqrt(a, out=None):
    return _out(map1(lambda x: alg.inv(alg.sqrt(x)), _obj(a)), out, "rsqrt")


@H("neg_")
def _neg_(self):
    return _assign(self, -self._arr, "neg_")


@H("tanh")
def _tanh(a, out=None):
    def f(x):
        e = alg.exp(2 * x)
        return (e - 1) * alg.inv(e + 1)
    return _out(map1(f, _obj(a)), out, "tanh")


@H("relu")
def _relu(a, inplace=False):
    r = map1(lambda x: (x + alg.absval(x)) / 2, _obj(a))
    return _assign(a, r, "relu") if inplace else _new(r)


@H("log1p")
def _log1p(a, out=None):
    return _out(map1(lambda x: alg.log(alg.ONE + x), _obj(a)), out, "log1p")


@H("expm1")
def _expm1(a, out=None):
    return _out(map1(lambda x: alg.exp(x) - alg.ONE, _obj(a)), out, "expm1")


@H("tan")
def _tan(a, out=None):
    return _out(map1(lambda x: alg.sin(x) * alg.inv(alg.cos(x)), _obj(a)), out, "tan")


@H("atan", "arctan")
def _atan(a, out=None):
    return _out(map1(lambda x: alg.atan2(x, alg.ONE), _obj(a)), out, "atan")


@H("sinh")
def _sinh(a, out=None):
    return _out(map1(lambda x: (alg.exp(x) - alg.exp(-x)) / 2, _obj(a)), out, "sinh")


@H("cosh")
def _cosh(a, out=None):
    return _out(map1(lambda x: (alg.exp(x) + alg.exp(-x)) / 2, _obj(a)), out, "cosh")


@H("logaddexp")
def _logaddexp(a, b, out=None):
    A_, B_ = np.broadcast_arrays(_obj(a), _obj(b))
    r = np.empty(A_.shape, dtype=object)
    for k in np.ndindex(*A_.shape):
        r[k] = alg.log(alg.exp(A_[k]) + alg.exp(B_[k]))
    return _out(r, out, "logaddexp")


@H("addcmul")
def _addcmul(a, t1, t2, *, value=1, out=None):
    return _out(_obj(a) + to_P(value) * (_obj(t1) * _obj(t2)), out, "addcmul")


@H("addcmul_")
def _addcmul_i(self, t1, t2, *, value=1):
    return _assign(self, _obj(self) + to_P(value) * (_obj(t1) * _obj(t2)), "addcmul_")


@H("addcdiv_")
def _addcdiv_i(self, t1, t2, *, value=1):
    return _assign(self, _obj(self) + to_P(value) * (_obj(t1) / _obj(t2)), "addcdiv_")


@H("addcdiv")
def _addcdiv(a, t1, t2, *, value=1, out=None):
    return _out(_obj(a) + to_P(value) * (_obj(t1) / _obj(t2)), out, "addcdiv")


@H("addmm")
def _addmm(a, m1, m2, *, beta=1, alpha=1, out=None):
    return _out(to_P(beta) * _obj(a) + to_P(alpha) * np.matmul(_obj(m1), _obj(m2)), out, "addmm")


@H("addmv")
def _addmv(a, m, v, *, beta=1, alpha=1, out=None):
    return _out(to_P(beta) * _obj(a) + to_P(alpha) * np.matmul(_obj(m), _obj(v)), out, "addmv")


@H("select")
def _select(self, dim, index):
    return _view(self, np.take(self._arr, index, axis=dim)) if False else _view(self, self._arr[(slice(None),) * (dim % self._arr.ndim) + (index,)])


@H("narrow")
def _narrow(self, dim, start, length):
    return _view(self, self._arr[(slice(None),) * (dim % self._arr.ndim) + (slice(start, start + length),)])


@H("index_select")
def _index_select(self, dim, index):
    return _new(np.take(self._arr, _idx(index), axis=dim))


@H("flip")
def _flip(a, dims):
    return _new(np.flip(_obj(a), axis=tuple(dims) if isinstance(dims, (list, tuple)) else dims).copy())


@H("chunk")
def _chunk(a, chunks, dim=0):
    A_ = a._arr
    n = A_.shape[dim]
    size = -(-n // chunks)
    return tuple(_view(a, A_[(slice(None),) * (dim % A_.ndim) + (slice(s, min(s + size, n)),)]) for s in range(0, n, size))


@H("split")
def _split(a, split_size, dim=0):
    A_ = a._arr
    n = A_.shape[dim]
    if isinstance(split_size, int):
        bounds = [(s, min(s + split_size, n)) for s in range(0, n, split_size)]
    else:
        bounds, s = [], 0
        for L in split_size:
            bounds.append((s, s + L))
            s += L
    return tuple(_view(a, A_[(slice(None),) * (dim % A_.ndim) + (slice(lo, hi),)]) for lo, hi in bounds)


@H("unbind")
def _unbind(a, dim=0):
    A_ = a._arr
    return tuple(_view(a, A_[(slice(None),) * (dim % A_.ndim) + (i,)]) for i in range(A_.shape[dim]))


@H("movedim", "moveaxis")
def _movedim(a, src, dst):
    return _view(a, np.moveaxis(a._arr, src, dst))


@H("new_zeros")
def _new_zeros(self, *size, **k):
    if len(size) == 1 and isinstance(size[0], (tuple, list, torch.Size)):
        size = tuple(size[0])
    z = np.empty(tuple(int(s) for s in size), dtype=object)
    z[...] = alg.ZERO
    return _new(z)


@H("new_ones")
def _new_ones(self, *size, **k):
    r = _new_zeros(self, *size)
    r._arr[...] = alg.ONE
    return r


@H("full_like")
def _full_like(x, fill_value, **k):
    z = np.empty(tuple(x.shape), dtype=object)
    z[...] = to_P(fill_value)
    return _new(z)


@H("tensordot")
def _tensordot(a, b, dims=2, out=None):
    return _out(np.tensordot(_obj(a), _obj(b), axes=dims), out, "tensordot")


@H("outer")
def _outer2(a, b, out=None):
    return _ger(a, b, out)


@H("exp_")
def _exp_(self):
    return _assign(self, _exp(self._arr), "exp_")


@H("log_")
def _log_(self):
    return _assign(self, _log(self._arr), "log_")


@H("square_")
def _square_(self):
    return _assign(self, self._arr * self._arr, "square_")
