"""C08 — observable estimators are unbiased for the operator they name (front end N)."""
import itertools
from fractions import Fraction as Fr

import numpy as np
import torch

from qv import alg, native as N, symtensor as st
from qv.alg import I, ZERO, ONE
from contracts import rbm as R, unitary as U

LEVEL = "proof"
MANIFEST = {
    "engine": "qv-native+qv-gen",
    "category": "proof",
    "technique": "contracts on SigmaX/Y/Z.apply, NeighbourInteraction.apply, flip_spin, to_pm1 with the importance-sampling accessors stubbed by opaque specs; lemma sum_sigma p(sigma) apply(sigma) == tr(rho O) over symbolic states; obligations by normal form and z3",
    "text": "For X and Y the real apply is executed with importance_sampling_numerator/denominator replaced by opaque contract values (pure: psi(sigma'), psi(sigma); mixed: rho(sigma',sigma), [p(sigma),0]) and must equal Re sum_sigma' O[sigma,sigma'] w(sigma',sigma) for the dense operator O = (1/n) sum_i P_i built from Pauli matrices by the Kronecker definition; Z and the neighbour ZZ interaction (open / periodic, c = 1..n) do not touch the state and are decided exhaustively over all basis states against the diagonal of the dense operator. The unbiasedness lemma is discharged for arbitrary symbolic psi / rho, and end to end on the three real state types with symbolic parameters for small n. One real number per row and an unchanged sample array are obligations of every apply. Additionally (front end G) SigmaZ.apply (plain and absolute) equals the site mean of the Z eigenvalues, and SigmaX / SigmaY.apply on positive and complex wavefunctions equal (1/n) times the sum over sites of Re(<flipped|psi> coefficient / psi(sigma)), for every chain length and batch size: the loop over the sites is cut at a sidecar loop contract (numer_sum holds the terms of the sites before i) proved on entry, preserved by the real body and used at exit.",
    "note": "floats as reals; psi(sigma) != 0 (division precondition); shapes enumerated (quick n<=3 stubbed, n<=2 end-to-end; thorough n<=5 / n<=3); values unbounded; the shape-generic part (front end G) holds for all sizes and values, equalities decided by tensor-algebra normal form (sound, incomplete: a miss is undecided, never a violation without a replayed witness)",
}
EXPLANATION = "dense operators from Pauli matrices via Kronecker definition with site 0 leftmost; full basis as the batch"
TRUSTED = []

PAULI = {
    "X": [[ZERO, ONE], [ONE, ZERO]],
    "Y": [[ZERO, -I], [I, ZERO]],
    # Z in the library's documented spin convention (observables.utils.to_pm1: sample value 0 -> -1, 1 -> +1)
    "Z": [[-ONE, ZERO], [ZERO, ONE]],
    "1": [[ONE, ZERO], [ZERO, ONE]],
}


def dense_single(n, letter):
    """(1/n) sum_i P_i as a dense (2^n,2^n) object array."""
    D = 2 ** n
    O = np.empty((D, D), dtype=object)
    O[...] = ZERO
    for i in range(n):
        us = [np.array(PAULI[letter if s == i else "1"], dtype=object) for s in range(n)]
        O = O + U.kron_dense(us)
    return O / n


def dense_zz(n, c, periodic):
    D = 2 ** n
    O = np.empty((D, D), dtype=object)
    O[...] = ZERO
    pairs = [(i, (i + c) % n) for i in range(n)] if periodic else [(i, i + c) for i in range(n - c)]
    for (i, j) in pairs:
        if i == j:
            us = [np.array(PAULI["1"], dtype=object) for _ in range(n)]       # Z_i Z_i = 1
        else:
            us = [np.array(PAULI["Z" if s in (i, j) else "1"], dtype=object) for s in range(n)]
        O = O + U.kron_dense(us)
    return O / n


def configs(tier):
    out = []
    nmax = 3 if tier == "quick" else 5
    for n in range(1, nmax + 1):
        for flav in ("pure", "mixed"):
            if flav == "mixed" and n > (2 if tier == "quick" else 3):
                continue
            for letter in ("X", "Y"):
                out.append({"part": "stubbed", "obs": letter, "flavour": flav, "n": n})
        out.append({"part": "diagonal", "n": n})
    e2e = [("positive", 1), ("positive", 2), ("complex", 1), ("complex", 2), ("mixed", 1)] if tier == "quick" else \
        [("positive", 1), ("positive", 2), ("positive", 3), ("complex", 1), ("complex", 2), ("complex", 3), ("mixed", 1), ("mixed", 2)]
    for kind, n in e2e:
        for letter in ("X", "Y"):
            out.append({"part": "end-to-end", "obs": letter, "kind": kind, "n": n})
    for flav in ("pure", "mixed"):
        for letter in ("X", "Y"):
            out.append({"part": "stubbed", "obs": letter, "flavour": flav, "n": 2, "grad": "off"})      # observables evaluated under torch.no_grad()
    out.append({"part": "end-to-end", "obs": "Y", "kind": "complex", "n": 1, "via": "deepcopy"})      # observables of a copied state
    out.append({"part": "end-to-end", "obs": "X", "kind": "mixed", "n": 1, "via": "deepcopy"})
    out.append({"generic": "every shape"})
    out.append({"lean": "size-generic lemmas"})
    return out


def canaries(tier):
    return [({"part": "stubbed", "obs": "Y", "flavour": "pure", "n": 2}, "spec-Y-sign"),
            ({"part": "diagonal", "n": 3}, "spec-zz-wrong-distance")]


def run_config(ctx, cfg):
    if cfg.get("lean"):
        from contracts import leanlink
        return leanlink.run(ctx, "C08")
    if cfg.get("generic"):
        from contracts import gsets
        return gsets.run(ctx, "C08")
    if cfg["part"] == "stubbed":
        return _stubbed(ctx, cfg)
    if cfg["part"] == "diagonal":
        return _diagonal(ctx, cfg)
    return _e2e(ctx, cfg)


def _obs(letter, absolute=False):
    from qucumber.observables import SigmaX, SigmaY, SigmaZ
    return {"X": SigmaX, "Y": SigmaY, "Z": SigmaZ}[letter](absolute=absolute)


def _idx_rows(v):
    return [U.index_of(r) for r in v.reshape(-1, v.shape[-1]).tolist()]


def _stubbed(ctx, cfg):
    from drivers import common as DC
    canary = getattr(ctx, "canary", None)
    n, letter, flav = cfg["n"], cfg["obs"], cfg["flavour"]
    D = 2 ** n
    state = DC.make_state("complex" if flav == "pure" else "mixed", n, 1, 1)
    ctx.under_contract("Sigma%s.apply" % letter, "pauli.flip_spin", "observables.utils.to_pm1", "cplx.elementwise_division",
                       "cplx.elementwise_mult", "cplx.absolute_value")
    ctx.stub("nn_state.importance_sampling_numerator", "nn_state.importance_sampling_denominator")
    if flav == "pure":
        psi = [alg.par("psi_re[%d]" % k) + I * alg.par("psi_im[%d]" % k) for k in range(D)]
        num = lambda a, b: psi[a]
        den = lambda b: psi[b]
    else:
        rho = [[(alg.par("rho_re[%d,%d]" % (a, b)) + I * alg.par("rho_im[%d,%d]" % (a, b))) if a != b else alg.uf("p[%d]" % a, "pos")
                for b in range(D)] for a in range(D)]
        num = lambda a, b: rho[a][b]
        den = lambda b: rho[b][b]
    calls = []

    def num_stub(vp, v):
        ia, ib = _idx_rows(vp), _idx_rows(v)
        calls.append(("num", tuple(ia), tuple(ib)))
        out = np.empty((2, len(ia)), dtype=object)
        for r, (a, b) in enumerate(zip(ia, ib)):
            out[0, r], out[1, r] = alg.re(num(a, b)), alg.im(num(a, b))
        return st.SymTensor(out)

    def den_stub(v):
        ib = _idx_rows(v)
        out = np.empty((2, len(ib)), dtype=object)
        for r, b in enumerate(ib):
            out[0, r], out[1, r] = alg.re(den(b)), alg.im(den(b))
        return st.SymTensor(out)
    O = dense_single(n, letter)
    if canary == "spec-Y-sign":
        O = np.frompyfunc(alg.conj, 1, 1)(O)
    space = state.generate_hilbert_space(n)
    # batches with a repeated row, without repeats in descending order, and without repeats in a rotated order: one value
    # per row, in the order of the rows
    orders = [("", list(range(D))[::-1] + [0]), ("distinct-descending/", list(range(D))[::-1]), ("distinct-rotated/", list(range(1, D)) + [0])]
    unchanged = True
    for otag, order in orders:
        batch = space[order].clone()
        keep = batch.clone()
        with N.stubbed(state, "importance_sampling_numerator", num_stub), N.stubbed(state, "importance_sampling_denominator", den_stub):
            for absolute in (False, True):
                res = _obs(letter, absolute).apply(state, batch)
                tag = "abs" if absolute else "signed"
                ctx.holds("apply/" + otag + "%s/one-real-per-row" % tag, tuple(res.shape) == (len(order),) and all(alg.is_real(x) for x in res._arr), str(tuple(res.shape)))
                for r, k in enumerate(order):
                    d2 = alg.re(den(k) * alg.conj(den(k)))
                    want = ZERO
                    for kp in range(D):
                        if O[k, kp].t:
                            want = want + O[k, kp] * num(kp, k) * alg.conj(den(k))
                    want = alg.re(want)
                    if absolute:
                        ctx.eq("apply/" + otag + "abs/square == (local estimator)^2[row=%d]" % r, res._arr[r] * res._arr[r] * d2 * d2, want * want, z3_confirm=False)
                        ctx.nonneg("apply/" + otag + "abs/nonneg[row=%d]" % r, res._arr[r])
                    else:
                        ctx.eq("apply/" + otag + "signed == Re sum_s' O[s,s'] w(s',s)[row=%d]" % r, res._arr[r] * d2, want, z3_confirm=False)

        unchanged = unchanged and torch.equal(batch, keep) and not isinstance(batch, st.SymTensor)
    ctx.holds("apply/samples-unchanged", unchanged)

    # ---- lemma: sum_sigma p(sigma) apply(sigma) == Re tr(rho O) for the arbitrary symbolic state.
    # Step 1 (per state, small): p(s) * [num(s',s) / den(s)] == the matrix element rho(s',s)
    #         (pure: |psi_s|^2 psi_s' / psi_s == conj(psi_s) psi_s';  mixed: p_s rho(s',s)/p_s == rho(s',s)).
    # Step 2: the sum over s of Re sum_s' O[s,s'] rho(s',s) is Re tr(rho O) -- free of denominators.
    lhs, rhs = ZERO, ZERO
    for k in range(D):
        pk = alg.re(den(k) * alg.conj(den(k))) if flav == "pure" else den(k)
        for kp in range(D):
            if O[k, kp].t:
                elem = (psi[kp] * alg.conj(psi[k])) if flav == "pure" else rho[kp][k]
                ctx.eq("lemma/p(s) * w(s',s) == rho(s',s)[%d,%d]" % (kp, k), pk * (num(kp, k) * alg.inv(den(k))), elem, z3_confirm=False)
                lhs = lhs + O[k, kp] * elem
                rhs = rhs + ((alg.conj(psi[k]) * O[k, kp] * psi[kp]) if flav == "pure" else (O[k, kp] * rho[kp][k]))
    ctx.eq("lemma/unbiased: sum_s p(s) apply(s) == Re tr(rho O)", alg.re(lhs), alg.re(rhs), z3_confirm=False)


def _diagonal(ctx, cfg):
    """Z magnetisation and ZZ interactions never touch the state: decided exhaustively over all basis states."""
    from qucumber.observables import SigmaZ, NeighbourInteraction
    from drivers import common as DC
    canary = getattr(ctx, "canary", None)
    n = cfg["n"]
    D = 2 ** n
    state = DC.make_state("positive", n, 1)
    space = state.generate_hilbert_space(n)
    ctx.under_contract("SigmaZ.apply", "NeighbourInteraction.apply", "observables.utils.to_pm1")
    keep = space.clone()
    OZ = dense_single(n, "Z")
    for absolute in (False, True):
        res = SigmaZ(absolute=absolute).apply(state, space)
        ctx.holds("SigmaZ/%s/shape" % absolute, tuple(res.shape) == (D,))
        for k in range(D):
            want = Fr(OZ[k, k].const_value())
            want = abs(want) if absolute else want
            ctx.holds("SigmaZ/abs=%s == diag of (1/n) sum Z_i[row=%d]" % (absolute, k), abs(float(res[k]) - float(want)) <= 1e-15 * n, "%r vs %s" % (float(res[k]), want))
        offd = all(not OZ[a, b].t for a in range(D) for b in range(D) if a != b)
        ctx.holds("SigmaZ/operator-is-diagonal", offd)
    # history: the same observable object may have been applied to chains of other lengths (and other states) before
    others = {}
    for m in sorted({n + 2, n + 1, max(1, n - 1), 1} - {n}):
        so = DC.make_state("positive", m, 1)
        others[m] = (so, so.generate_hilbert_space(m))
    for c in range(1, n + 1):
        for periodic in (False, True):
            O = dense_zz(n, (c % n + 1) if canary == "spec-zz-wrong-distance" and n > 2 else c, periodic)
            for hist, ms in (("", ()), ("history: object used on shorter chains before/", [m for m in others if m < n]),
                             ("history: object used on longer chains before/", [m for m in others if m > n][::-1])):
                if hist and not [m for m in ms if c <= m]:
                    continue
                ob = NeighbourInteraction(periodic_bcs=periodic, c=c)
                for m in ms:
                    if c <= m:
                        ob.apply(*others[m])
                res = ob.apply(state, space)
                ctx.holds(hist + "ZZ/shape[c=%d periodic=%s]" % (c, periodic), tuple(res.shape) == (D,))
                for k in range(D):
                    want = Fr(O[k, k].const_value())
                    ctx.holds(hist + "ZZ == diag of (1/n) sum Z_i Z_(i+c)[c=%d periodic=%s row=%d]" % (c, periodic, k),
                              abs(float(res[k]) - float(want)) <= 1e-15 * n, "%r vs %s" % (float(res[k]), want))
    zob = SigmaZ()
    for m, (so, sp) in others.items():
        zob.apply(so, sp)
    res = zob.apply(state, space)
    for k in range(D):
        ctx.holds("history: object used on chains of other lengths before/SigmaZ[row=%d]" % k, abs(float(res[k]) - float(Fr(OZ[k, k].const_value()))) <= 1e-15 * n)
    ctx.holds("apply/samples-unchanged", torch.equal(space, keep))
    # lemma for diagonal operators: sum_s p(s) O[s,s] == tr(rho O) because p == diag rho (C01 / C02)
    p = [alg.uf("p[%d]" % k, "pos") for k in range(D)]
    lhs = sum((p[k] * OZ[k, k] for k in range(D)), ZERO)
    rhs = ZERO
    for a in range(D):
        for b in range(D):
            if OZ[a, b].t:
                rhs = rhs + OZ[a, b] * (p[a] if a == b else alg.par("rho_off[%d,%d]" % (b, a)))
    ctx.eq("lemma/diagonal-operators: sum_s p(s) O[s,s] == tr(rho O)", lhs, rhs)


def _e2e(ctx, cfg):
    """The real state types, unstubbed, symbolic parameters: p(s) apply(s) == Re sum_s' O[s,s'] rho_spec(s',s)."""
    from drivers import common as DC
    from lemmas import C02
    kind, n, letter = cfg["kind"], cfg["n"], cfg["obs"]
    D = 2 ** n
    state = DC.make_state(kind, n, 2 if kind != "mixed" else 1, 1)
    N.symbolize(state.rbm_am, "am")
    if kind == "complex":
        N.symbolize(state.rbm_ph, "ph")
    if kind == "mixed":
        N.symbolize(state.rbm_ph, "ph", zero=("aux_bias",))
    am = R.params_of(state.rbm_am)
    vs = R.bits(n)
    ctx.under_contract("Sigma%s.apply" % letter)
    if kind == "mixed":
        ph = R.params_of(state.rbm_ph)
        auxs = R.bits(1)
        PS = [[C02.Psi(am, ph, v, a) for a in auxs] for v in vs]
        rho = [[sum((PS[i][k] * alg.conj(PS[j][k]) for k in range(len(auxs))), ZERO) for j in range(D)] for i in range(D)]
    else:
        psi = []
        for v in vs:
            A = alg.sqrt(alg.exp(-state.rbm_am.effective_energy(torch.tensor(v, dtype=torch.double))._arr[()]))
            if kind == "complex":
                phi = -state.rbm_ph.effective_energy(torch.tensor(v, dtype=torch.double))._arr[()] / 2
                psi.append(A * alg.cis(phi))
            else:
                psi.append(A)
        rho = [[psi[i] * alg.conj(psi[j]) for j in range(D)] for i in range(D)]
    O = dense_single(n, letter)
    space = state.generate_hilbert_space(n)
    # history: the observable object was applied to another state with another number of sites first
    ob = _obs(letter)
    other = DC.make_state(kind, n + 1, 1, 1)
    ob.apply(other, other.generate_hilbert_space(n + 1))
    res = ob.apply(state, space)
    ctx.holds("end-to-end/shape", tuple(res.shape) == (D,))
    tot_l, tot_r = ZERO, ZERO
    for k in range(D):
        want = ZERO
        for kp in range(D):
            if O[k, kp].t:
                want = want + O[k, kp] * rho[kp][k]
        ctx.eq("end-to-end/p(s) apply(s) == Re sum_s' O[s,s'] rho(s',s)[row=%d]" % k, res._arr[k] * alg.re(rho[k][k]), alg.re(want), z3_confirm=False)
        tot_l = tot_l + res._arr[k] * alg.re(rho[k][k])
        tot_r = tot_r + want
    if kind != "mixed" or n == 1:
        # (for mixed states with n >= 2 the sum is implied by the per-row obligations above; forming it would put
        # every row's denominator into one query)
        ctx.eq("end-to-end/sum_s p(s) apply(s) == Re tr(rho O)", tot_l, alg.re(tot_r), z3_confirm=False)
    ctx.frame("end-to-end/parameters-not-written")


def replay(o):
    if o["cfg"].get("generic"):
        from contracts import gsets
        return gsets.replay("C08", o)
    from drivers import C08 as D
    return D.replay(o["cfg"], (o.get("witness") or {}).get("env") or {})
