/-
Size-generic lemmas over the contracts of front end G (qv/gen.py, contracts/grbm.py).

The contracts of BinaryRBM.effective_energy, prob_h_given_v, prob_v_given_h, PurificationRBM.effective_energy and
DensityMatrix.pi are closed forms in which the hidden / auxiliary units have been summed out one unit at a time.
The properties C01, C02, C05 speak about sums over *all* hidden configurations.  These lemmas connect the two for
every number of units.  Checked by `lake env lean` (Lean 4 + Mathlib); no `sorry`, no extra axioms.
-/
import Mathlib.Analysis.SpecialFunctions.Exp
import Mathlib.Analysis.SpecialFunctions.Log.Basic
import Mathlib.Analysis.SpecialFunctions.Complex.Log
import Mathlib.Algebra.BigOperators.Ring.Finset
import Mathlib.Data.Fintype.BigOperators

open Finset BigOperators

namespace QuCumber

variable {nv nh : ℕ}

/-- activation of hidden unit `j`: c_j + Σ_i W_ji v_i -/
noncomputable def act (W : Fin nh → Fin nv → ℝ) (c : Fin nh → ℝ) (v : Fin nv → ℝ) (j : Fin nh) : ℝ :=
  c j + ∑ i, W j i * v i

/-- joint energy E(v,h) = -(b·v + Σ_j h_j (c_j + W_j·v)) of a binary RBM -/
noncomputable def energy (W : Fin nh → Fin nv → ℝ) (b : Fin nv → ℝ) (c : Fin nh → ℝ)
    (v : Fin nv → ℝ) (h : Fin nh → Bool) : ℝ :=
  -(∑ i, v i * b i + ∑ j, (if h j then act W c v j else 0))

noncomputable def softplus (x : ℝ) : ℝ := Real.log (1 + Real.exp x)

noncomputable def sigmoid (x : ℝ) : ℝ := Real.exp x / (1 + Real.exp x)

/-- the closed form that `BinaryRBM.effective_energy` is proved (for every shape) to compute -/
noncomputable def effEnergy (W : Fin nh → Fin nv → ℝ) (b : Fin nv → ℝ) (c : Fin nh → ℝ) (v : Fin nv → ℝ) : ℝ :=
  -(∑ i, v i * b i + ∑ j, softplus (act W c v j))

/-- the basic identity: summing exp over all bit strings factorises -/
theorem sum_bool_exp (n : ℕ) (x : Fin n → ℝ) :
    ∑ h : Fin n → Bool, Real.exp (∑ j, (if h j then x j else 0)) = ∏ j, (1 + Real.exp (x j)) := by
  have key := Finset.prod_univ_sum (fun _ : Fin n => (Finset.univ : Finset Bool))
    (fun j (b : Bool) => Real.exp (if b then x j else 0))
  simp only [Fintype.piFinset_univ] at key
  simp only [Real.exp_sum]
  rw [← key]
  refine Finset.prod_congr rfl (fun j _ => ?_)
  simp [add_comm]

/-- C01: exp(-effective energy) is the marginal of the joint Boltzmann weight over all hidden configurations -/
theorem marginal_eq_exp_neg_effEnergy (W : Fin nh → Fin nv → ℝ) (b : Fin nv → ℝ) (c : Fin nh → ℝ) (v : Fin nv → ℝ) :
    ∑ h : Fin nh → Bool, Real.exp (-(energy W b c v h)) = Real.exp (-(effEnergy W b c v)) := by
  have h1 : ∀ h : Fin nh → Bool, Real.exp (-(energy W b c v h))
      = Real.exp (∑ i, v i * b i) * Real.exp (∑ j, (if h j then act W c v j else 0)) := by
    intro h
    rw [← Real.exp_add]
    simp [energy]
  simp only [h1]
  rw [← Finset.mul_sum, sum_bool_exp]
  unfold effEnergy
  rw [neg_neg, Real.exp_add]
  congr 1
  rw [Real.exp_sum]
  refine Finset.prod_congr rfl (fun j _ => ?_)
  unfold softplus
  rw [Real.exp_log]
  positivity

/-- C05: the conditional p(h | v) of the joint distribution is the product of independent Bernoulli laws with
    parameter sigmoid(c_j + W_j·v), which is what `prob_h_given_v` is proved to compute -/
theorem conditional_h_given_v (W : Fin nh → Fin nv → ℝ) (b : Fin nv → ℝ) (c : Fin nh → ℝ) (v : Fin nv → ℝ)
    (h : Fin nh → Bool) :
    Real.exp (-(energy W b c v h)) / ∑ h' : Fin nh → Bool, Real.exp (-(energy W b c v h'))
      = ∏ j, (if h j then sigmoid (act W c v j) else 1 - sigmoid (act W c v j)) := by
  have h1 : ∀ h : Fin nh → Bool, Real.exp (-(energy W b c v h))
      = Real.exp (∑ i, v i * b i) * Real.exp (∑ j, (if h j then act W c v j else 0)) := by
    intro h
    rw [← Real.exp_add]
    simp [energy]
  simp only [h1]
  rw [← Finset.mul_sum, sum_bool_exp]
  rw [mul_div_mul_left _ _ (Real.exp_pos _).ne', Real.exp_sum, ← Finset.prod_div_distrib]
  refine Finset.prod_congr rfl (fun j _ => ?_)
  have hpos : (0 : ℝ) < 1 + Real.exp (act W c v j) := by positivity
  unfold sigmoid
  cases h j
  · simp only [Bool.false_eq_true, if_false, Real.exp_zero]
    field_simp
    ring
  · simp

/-- the same identity over the complex numbers (auxiliary units of the purification, C02) -/
theorem sum_bool_cexp (n : ℕ) (z : Fin n → ℂ) :
    ∑ a : Fin n → Bool, Complex.exp (∑ j, (if a j then z j else 0)) = ∏ j, (1 + Complex.exp (z j)) := by
  have key := Finset.prod_univ_sum (fun _ : Fin n => (Finset.univ : Finset Bool))
    (fun j (b : Bool) => Complex.exp (if b then z j else 0))
  simp only [Fintype.piFinset_univ] at key
  simp only [Complex.exp_sum]
  rw [← key]
  refine Finset.prod_congr rfl (fun j _ => ?_)
  simp [add_comm]

/-- C02: `DensityMatrix.pi` returns (Σ_a log|w_a|, Σ_a arg w_a) with w_a = 1 + exp(x_a + i φ_a); exponentiating it gives
    the sum over all auxiliary configurations (the partial trace), provided no factor vanishes -/
theorem exp_pi_eq_sum_over_aux (n : ℕ) (x φ : Fin n → ℝ)
    (hne : ∀ j, (1 + Complex.exp ((x j : ℂ) + (φ j : ℂ) * Complex.I)) ≠ 0) :
    Complex.exp (((∑ j, Real.log (‖1 + Complex.exp ((x j : ℂ) + (φ j : ℂ) * Complex.I)‖) : ℝ) : ℂ)
        + ((∑ j, Complex.arg (1 + Complex.exp ((x j : ℂ) + (φ j : ℂ) * Complex.I)) : ℝ) : ℂ) * Complex.I)
      = ∑ a : Fin n → Bool, Complex.exp (∑ j, (if a j then ((x j : ℂ) + (φ j : ℂ) * Complex.I) else 0)) := by
  rw [sum_bool_cexp]
  have h1 : (((∑ j, Real.log (‖1 + Complex.exp ((x j : ℂ) + (φ j : ℂ) * Complex.I)‖) : ℝ) : ℂ)
        + ((∑ j, Complex.arg (1 + Complex.exp ((x j : ℂ) + (φ j : ℂ) * Complex.I)) : ℝ) : ℂ) * Complex.I)
      = ∑ j, Complex.log (1 + Complex.exp ((x j : ℂ) + (φ j : ℂ) * Complex.I)) := by
    rw [Complex.ofReal_sum, Complex.ofReal_sum, Finset.sum_mul, ← Finset.sum_add_distrib]
    rfl
  rw [h1, Complex.exp_sum]
  exact Finset.prod_congr rfl (fun j _ => Complex.exp_log (hne j))

private theorem re_im_aux (x φ : ℝ) :
    (1 + Complex.exp ((x : ℂ) + (φ : ℂ) * Complex.I)).re = 1 + Real.exp x * Real.cos φ ∧
    (1 + Complex.exp ((x : ℂ) + (φ : ℂ) * Complex.I)).im = Real.exp x * Real.sin φ := by
  constructor <;> simp [Complex.exp_re, Complex.exp_im]

/-- the real and imaginary part the code computes per auxiliary unit are log|w| and arg w -/
theorem abs_one_add_cexp (x φ : ℝ) :
    ‖1 + Complex.exp ((x : ℂ) + (φ : ℂ) * Complex.I)‖
      = Real.sqrt (1 + 2 * Real.exp x * Real.cos φ + Real.exp (2 * x)) := by
  obtain ⟨hre, him⟩ := re_im_aux x φ
  rw [Complex.norm_eq_sqrt_sq_add_sq, hre, him]
  congr 1
  have h2 : Real.exp (2 * x) = Real.exp x ^ 2 := by rw [← Real.exp_nat_mul]; norm_num
  rw [h2]
  nlinarith [Real.sin_sq_add_cos_sq φ]

theorem re_im_one_add_cexp (x φ : ℝ) :
    (1 + Complex.exp ((x : ℂ) + (φ : ℂ) * Complex.I)).re = 1 + Real.exp x * Real.cos φ ∧
    (1 + Complex.exp ((x : ℂ) + (φ : ℂ) * Complex.I)).im = Real.exp x * Real.sin φ := by
  exact re_im_aux x φ

end QuCumber

#print axioms QuCumber.marginal_eq_exp_neg_effEnergy
#print axioms QuCumber.conditional_h_given_v
#print axioms QuCumber.sum_bool_exp
#print axioms QuCumber.sum_bool_cexp
#print axioms QuCumber.exp_pi_eq_sum_over_aux
#print axioms QuCumber.abs_one_add_cexp
#print axioms QuCumber.re_im_one_add_cexp
