"""vf selftest: run the checks against deliberately changed scratch copies of the repository.

Property-breaking mutants must yield exit 1 with a VIOLATION line; benign refactorings must yield exit 0.
Scratch copies live under $TMPDIR and are removed immediately."""
import json
import os
import shutil
import subprocess
import sys
import tempfile
import time

VERIF = os.path.dirname(os.path.dirname(os.path.abspath(__file__)))


def main(only=None, tier="quick"):
    repo = os.environ.get("QUCUMBER_REPO", "/repo")
    muts = json.load(open(os.path.join(VERIF, "mutants", "mutants.json")))["mutants"]
    if only:
        muts = [m for m in muts if m["id"] in only.split(",") or m["prop"] in only.split(",")]
    bad = 0
    rows = []
    for m in muts:
        sc = tempfile.mkdtemp(prefix="vfself_")
        t0 = time.time()
        try:
            shutil.copytree(os.path.join(repo, "qucumber"), os.path.join(sc, "qucumber"))
            p = os.path.join(sc, "qucumber", m["file"])
            s = open(p).read()
            if m["old"] not in s:
                rows.append((m["id"], m["prop"], m["expect"], "PATTERN-NOT-FOUND", 0.0))
                bad += 1
                continue
            open(p, "w").write(s.replace(m["old"], m["new"], 1))
            env = dict(os.environ, QUCUMBER_REPO=sc, VF_EVIDENCE_DIR=os.path.join(sc, "ev"), VF_REPLAY_DIR=os.path.join(sc, "replay"))
            r = subprocess.run([os.path.join(VERIF, "vf"), "check", m["prop"], "--tier", tier], env=env, capture_output=True, text=True, timeout=3600)
            viol = [l for l in r.stdout.splitlines() if l.startswith("VIOLATION")]
            proved = [l for l in viol if "bounded-driver" not in l]
            if m["expect"] == "violation":
                ok = r.returncode == 1 and bool(viol)
                got = "VIOLATION x%d (%d by obligations%s)" % (len(viol), len(proved), ", driver too" if len(proved) < len(viol) else "") if viol else "exit %d, no violation" % r.returncode
            else:
                ok = r.returncode == 0 and not viol
                got = "exit %d%s" % (r.returncode, (" " + viol[0][:120]) if viol else "")
            if not ok:
                bad += 1
                got = "UNEXPECTED: " + got + " | " + r.stdout.strip().splitlines()[-1][:200] if r.stdout.strip() else got
            rows.append((m["id"], m["prop"], m["expect"], got, time.time() - t0))
        finally:
            shutil.rmtree(sc, ignore_errors=True)
        print("%-4s %-4s expect=%-9s %s  (%.0fs)" % rows[-1], flush=True)
    print("selftest: %d mutants, %d unexpected" % (len(rows), bad))
    return 1 if bad else 0
