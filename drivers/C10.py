"""C10 concrete driver: fidelity / KL / NLL vs numpy definitions on random states and targets (float64)."""
import itertools
from functools import reduce

import numpy as np
import torch

from . import common as C
from .C04 import _t2c, _c2t
from .C08 import rho_of


def _plain(x):
    return isinstance(x, float) and not isinstance(x, torch.Tensor)


def native_check(kind, n, env=None, seed=0):
    from qucumber.utils import training_statistics as ts, unitaries
    from scipy.linalg import sqrtm
    rng = np.random.default_rng(seed)
    st = C.make_state(kind, n, n + 1, 2)
    C.randomize(st, rng, 0.8)
    C.set_env(st, env)
    space = st.generate_hilbert_space(n)
    D = 2 ** n
    rho = rho_of(st, kind, space)
    Z = np.real(np.trace(rho))
    rn = rho / Z
    ud = unitaries.create_dict()
    strings = ["".join(s) for s in itertools.product("XYZ", repeat=n)]
    fails = []
    mixed = kind == "mixed"
    # targets
    if not mixed:
        t = rng.normal(size=D) + 1j * rng.normal(size=D)
        t /= np.linalg.norm(t)
        T = np.outer(t, t.conj())
        tt = _c2t(t)
        f = ts.fidelity(st, tt, space)
        psi = st.psi(space)
        psi = (psi[0].numpy() + 1j * psi[1].numpy()) / np.sqrt(Z)
        want = abs(np.vdot(t, psi)) ** 2
        if not _plain(f) or abs(f - want) > 1e-9:
            fails.append(("pure fidelity != |<t|psi>|^2 or not a float", (type(f).__name__, float(f), want)))
        f2 = ts.fidelity(st, _c2t(t * np.exp(0.7j)), space)
        if abs(f2 - f) > 1e-9:
            fails.append(("fidelity changed by a global phase", None))
        own = ts.fidelity(st, _c2t(psi), space)
        if abs(own - 1) > 1e-9:
            fails.append(("fidelity against own state != 1", own))
        own_t = _c2t(psi)
    else:
        A = rng.normal(size=(D, D)) + 1j * rng.normal(size=(D, D))
        T = A @ A.conj().T
        T /= np.trace(T).real
        tt = _c2t(T)
        f = ts.fidelity(st, tt, space)
        s = sqrtm(rn)
        want = np.real(np.trace(sqrtm(s @ T @ s))) ** 2
        if not _plain(f) or abs(f - want) > 1e-6:
            fails.append(("mixed fidelity != Uhlmann fidelity or not a float", (type(f).__name__, float(f), want)))
        if f < -1e-9 or f > 1 + 1e-6:
            fails.append(("fidelity outside [0,1]", f))
        own = ts.fidelity(st, _c2t(rn), space)
        if abs(own - 1) > 1e-6:
            fails.append(("fidelity against own state != 1", own))
        own_t = _c2t(rn)

    def born(M, b):
        Ud = reduce(np.kron, [_t2c(ud[c]) for c in b])
        return np.real(np.diag(Ud @ M @ Ud.conj().T))

    def kl_np(M, blist):
        tot = 0.0
        for b in blist:
            tp, qp = born(M, b), born(rn, b)
            tot += np.sum(tp * (np.log(tp) - np.log(qp)))
        return tot / len(blist)
    bl = [strings[i] for i in rng.integers(0, len(strings), size=3)]
    modes = (("bases=None", None, ["Z" * n]), ("list", bl, bl), ("all bases", strings, strings))
    if kind == "positive":
        modes = modes[:1]           # a positive state has no unitary dictionary: reference basis only
    for label, bases, blist in modes:
        try:
            v = ts.KL(st, tt, space, bases=bases)
        except Exception as e:
            fails.append(("KL(%s) raised" % label, repr(e)))
            continue
        want = kl_np(T, blist)
        if not _plain(v) or abs(v - want) > 1e-8 * (1 + abs(want)):
            fails.append(("KL(%s) != mean per-basis KL or not a float" % label, (type(v).__name__, float(v), want)))
        if v < -1e-9:
            fails.append(("KL(%s) negative" % label, v))
        v0 = ts.KL(st, own_t, space, bases=bases)
        if abs(v0) > 1e-8:
            fails.append(("KL(%s) against own state != 0" % label, float(v0)))
        # history: the target of an earlier call has been freed and another target sits where it was
        t2 = C.at_freed_address(lambda: tt.clone(), lambda a: ts.KL(st, a, space, bases=bases), lambda: own_t.clone())
        if t2 is not None:
            v1 = ts.KL(st, t2, space, bases=bases)
            if abs(v1) > 1e-8:
                fails.append(("KL(%s) against own state, the target tensor sitting at the address of a freed earlier target, != 0" % label, float(v1)))
    # the deprecated keywords of fidelity / KL name the same argument at every call, not just the first
    import warnings
    alias = "target_rho" if mixed else "target_psi"
    with warnings.catch_warnings():
        warnings.simplefilter("ignore")
        for rep in range(3):
            try:
                fa = ts.fidelity(st, space=space, **{alias: tt})
                ka = ts.KL(st, space=space, **{alias: tt})
            except Exception as e:                  # noqa: BLE001
                fails.append(("call %d of fidelity / KL through the deprecated keyword %s raised" % (rep + 1, alias), repr(e)))
                break
            if abs(fa - ts.fidelity(st, tt, space)) > 1e-12 or abs(ka - ts.KL(st, tt, space)) > 1e-12:
                fails.append(("fidelity / KL through the deprecated keyword %s differ from the positional call (call %d)" % (alias, rep + 1), None))
    # NLL
    M = 5
    samples = torch.tensor(rng.integers(0, 2, size=(M, n)), dtype=torch.double)
    sb = [strings[i] for i in rng.integers(0, len(strings), size=M)]
    sb[0] = "Z" * n
    idx = [int(sum(int(x) << (n - 1 - i) for i, x in enumerate(r))) for r in samples.tolist()]
    v = ts.NLL(st, samples, space)
    want = -np.mean([np.log(np.real(rn[k, k])) for k in idx])
    if not _plain(v) or abs(v - want) > 1e-9 * (1 + abs(want)):
        fails.append(("NLL(no bases) wrong or not a float", (type(v).__name__, float(v), want)))
    if kind != "positive":
        v = ts.NLL(st, samples, space, sample_bases=np.array([list(b) for b in sb]))
        want = -np.mean([np.log(born(rn, b)[k]) for k, b in zip(idx, sb)])
        if not _plain(v) or abs(float(v) - want) > 1e-7 * (1 + abs(want)):
            fails.append(("NLL(sample_bases) wrong or not a float", (type(v).__name__, float(v), want)))
        # a rotated basis measured exactly 2^n times (with arbitrary outcomes), other group sizes around it
        rot = [b for b in strings if set(b) != {"Z"}]
        if rot:
            for extra in (0, 1):
                M2 = 2 ** n + extra
                smp = torch.tensor(rng.integers(0, 2, size=(M2 + 2, n)), dtype=torch.double)
                sb2 = [rot[0]] * M2 + ["Z" * n, rot[-1]]
                idx2 = [int(sum(int(x) << (n - 1 - i) for i, x in enumerate(r))) for r in smp.tolist()]
                v = ts.NLL(st, smp, space, sample_bases=np.array([list(b) for b in sb2]))
                want = -np.mean([np.log(born(rn, b)[k]) for k, b in zip(idx2, sb2)])
                if not _plain(v) or abs(float(v) - want) > 1e-7 * (1 + abs(want)):
                    fails.append(("NLL(sample_bases, one basis measured %d times) wrong" % M2, (float(v), want)))
    return fails


def nll_space_order(kind, n, seed=0):
    """NLL uses `space` for the normalisation only: any enumeration of the basis states gives the same number."""
    from qucumber.utils import training_statistics as ts
    rng = np.random.default_rng(seed)
    st = C.make_state(kind, n, n + 1, 2)
    C.randomize(st, rng, 0.8)
    space = st.generate_hilbert_space(n)
    strings = ["".join(s) for s in itertools.product("XYZ", repeat=n)]
    M = 6
    samples = torch.tensor(rng.integers(0, 2, size=(M, n)), dtype=torch.double)
    sb = np.array([list(strings[i]) for i in rng.integers(0, len(strings), size=M)]) if kind != "positive" else None
    ref = ts.NLL(st, samples, space, sample_bases=sb)
    f = []
    for name, order in (("reversed", list(range(2 ** n))[::-1]), ("shuffled", list(rng.permutation(2 ** n))), ("bit-reversed", [int(format(k, "0%db" % n)[::-1], 2) for k in range(2 ** n)])):
        got = ts.NLL(st, samples, space[order].clone(), sample_bases=sb)
        if abs(got - ref) > 1e-9 * (1 + abs(ref)):
            f.append(("NLL with the basis states of `space` enumerated in another order (%s) differs: %r vs %r" % (name, got, ref), None))
    return f


def nll_every_basis(kind, n, seed=0):
    """NLL on a data set holding every basis string of an n-site chain (3^n bases, one or two samples each, shuffled),
    against minus the mean log Born probability computed per sample from the dense rotation."""
    from functools import reduce
    from qucumber.utils import training_statistics as ts, unitaries
    rng = np.random.default_rng(seed)
    st = C.make_state(kind, n, 2, 1)
    C.randomize(st, rng, 0.5)
    space = st.generate_hilbert_space(n)
    rho = rho_of(st, kind, space)
    rn = rho / np.real(np.trace(rho))
    ud = unitaries.create_dict()
    strings = ["".join(s) for s in itertools.product("XYZ", repeat=n)]
    bs = strings + list(rng.choice(strings, size=30))
    rng.shuffle(bs)
    rows = rng.integers(0, 2 ** n, size=len(bs))
    samples = space[rows].clone()
    got = ts.NLL(st, samples, space, sample_bases=np.array([list(b) for b in bs]))
    tot = 0.0
    cache = {}
    for b, k in zip(bs, rows):
        if b not in cache:
            Ub = reduce(np.kron, [ud[c][0].numpy() + 1j * ud[c][1].numpy() for c in b])
            cache[b] = np.real(np.einsum("ij,jk,ik->i", Ub, rn, Ub.conj()))
        tot -= np.log(cache[b][k])
    want = tot / len(bs)
    if not _plain(got) or abs(got - want) > 1e-9 * (1 + abs(want)):
        return [("NLL over every basis string of %d sites != -mean log P_b(s)" % n, (float(got), want))]
    return []


def replay(cfg, env, short):
    if cfg.get("fn") == "NLL-grouping":
        f = nll_every_basis("complex" if cfg.get("flavour") == "pure" else "mixed", cfg.get("n", 6), 0)
        return {"reproduced": bool(f), "failed_clauses": [(a, str(b)[:200]) for a, b in f[:2]], "cfg": cfg}
    kinds = ["positive", "complex"] if cfg.get("flavour") == "pure" else ["mixed"] if cfg.get("flavour") == "mixed" else ["complex", "mixed"]
    fails = []
    for kind in kinds:
        fails = nll_space_order(kind, 3, 0)
        if fails:
            return {"reproduced": True, "failed_clauses": [(a, str(b)[:200]) for a, b in fails[:4]], "cfg": cfg}
    for kind in kinds:
        for s in range(2):
            fails = native_check(kind, cfg.get("n", 2), env if s == 0 else None, s)
            if fails:
                break
        if fails:
            break
    return {"reproduced": bool(fails), "failed_clauses": [(a, str(b)[:200]) for a, b in fails[:4]], "cfg": cfg}


def bounded(tier, seed):
    n, bad = 0, []
    for kind in ("positive", "complex", "mixed"):
        for nv in ((1, 2) if tier == "quick" else (1, 2, 3)):
            f = native_check(kind, nv, None, seed)
            n += 1
            if f:
                bad.append((kind, nv, f[:3]))
    for kind in ("positive", "complex", "mixed"):
        f = nll_space_order(kind, 3, seed)
        n += 1
        if f:
            bad.append((kind, 3, f[:2]))
    for kind, nn in ((("complex", 6),) if tier == "quick" else (("complex", 6), ("mixed", 6), ("complex", 7))):
        f = nll_every_basis(kind, nn, seed)
        n += 1
        if f:
            bad.append((kind, nn, f[:2]))
    return {"driver": "drivers/C10.native_check + nll_every_basis", "label": "bounded", "evaluations": n, "failures": len(bad),
            "bound": "NLL over all 3^6 basis strings of a 6-site chain; float64; one random model and random normalised target per (state type, n); Uhlmann fidelity via scipy sqrtm; KL >= 0 and fidelity in [0,1] checked numerically",
            "first_failures": bad[:3]}
