"""Shape-generic contracts (front end G, qv/gen.py): a case names a real function, its inputs with *symbolic*
shapes, and the contract's tensor written with sums over whole dimensions.  One run per feasible sequence of size
decisions executes the real code on symbolic-shape tensors and compares normal forms, so a discharged obligation holds
for every size of every dimension (and every value), not for the enumerated shapes only.
"""
import os
import re

import numpy as np
import torch

from qv import astvc, gen as G
from qv.alg import Unmodelled


class Raises:
    def __init__(self, exc, when=None):
        self.exc = exc
        self.when = when      # optional: callable(dims) -> z3 condition under which the exception is required


class GCase:
    def __init__(self, name, inputs, call, spec, mutates=(), note=""):
        self.name = name
        self.inputs = inputs          # [(argname, shape, domain)]
        self.call = call              # call(**tensors) -> tensor | tuple of tensors | None
        self.spec = spec              # spec(**vals) -> Val | tuple of Vals | None | Raises
        self.mutates = set(mutates)   # inputs the contract allows the function to overwrite
        self.note = note
        self.canary_spec = None       # a deliberately wrong contract (must be refuted)
        self.fix = None               # precondition on drawn inputs (witness search, cross-check): fix(tensors, sizes, rnd)
        self.pre = None               # precondition on sizes: callable run at the start of every path (G.require_at_least ...)


def cbuild(shape, f):
    """Complex tensor (leading dimension 2) from f(*ix) -> (re, im)."""
    def g(c, *ix):
        re, im = f(*ix)
        return G.delta(c, 0) * G.to_E(re) + G.delta(c, 1) * G.to_E(im)
    return G.build((2,) + tuple(shape), g)


def cmul(a, b):
    return (a[0] * b[0] - a[1] * b[1], a[0] * b[1] + a[1] * b[0])


def cconj(a):
    return (a[0], -a[1])


def cel(v, *ix):
    return (v(0, *ix), v(1, *ix))


def run_cases(ctx, cases, prefix, canary=None, only=None):
    vc = astvc.VC(ctx)
    vc.max_paths = 200
    done = []
    sampled = set()
    for case in cases:
        if only and case.name not in only:
            continue

        bad_paths = []
        loop_skipped = []
        forked = [False]       # did any path of this case contain a decision about sizes?

        def thunk(case=case):
            try:
                try:
                    body(case)
                finally:
                    if _size_dependent(vc.pc):
                        forked[0] = True
            except G.LoopBroken as e:
                # the loop contract is not re-established by the current body: no certificate; the verdict comes from the real
                # code run with floats at small sizes of this path against the contract (bounded, labelled)
                nm = "generic/%s" % case.name
                pr = _probe(ctx, case, list(vc.pc)[:2] if False else [c for c in vc.pc if "loop" not in str(c)])
                if pr and pr.get("mismatch"):
                    vc._record(nm + "/loop contract not re-established: real code at small sizes vs the contract (bounded)", "violated",
                               "%s; real code %r, contract %r at element %s for sizes %s" % (e, pr["code_value"], pr["contract_value"], pr["element"], pr["sizes"]),
                               pr, 0.0, "loop contract + concrete run (bounded)")
                else:
                    loop_skipped.append((case.name, "loop contract not re-established (%s); the real code agrees with the contract at sizes %s" % (e, (pr or {}).get("sizes"))))
            except Unmodelled as e:
                bad_paths.append((list(vc.pc), str(e)[:200]))

        def body(case):
            if case.pre is not None:
                case.pre()
            ins = {}
            for n, shape, dom in case.inputs:
                ins[n] = G.inp(n, shape, frozen=n not in case.mutates, domain=dom)
            before = {n: G.val_of(t) for n, t in ins.items()}
            nm = "generic/%s" % case.name
            raised = None
            try:
                res = case.call(**ins)
            except (ValueError, RuntimeError, IndexError, TypeError, AttributeError, AssertionError) as e:
                if isinstance(e, Unmodelled):
                    raise
                # an exception counts as the library's behaviour only if the library raised it, or a primitive model raised
                # what the real primitive raises; anything else (a ghost object reaching code that cannot take it) is an
                # artefact of the symbolic run: no certificate, no verdict
                import traceback as _tb
                fr = _tb.extract_tb(e.__traceback__)
                last = fr[-1].filename if fr else ""
                if last.startswith("<sandbox:"):
                    last = os.path.join(os.path.realpath(os.environ.get("QUCUMBER_REPO", "/repo")), "sandboxed")      # recompiled library source
                else:
                    last = os.path.realpath(last)
                root = os.path.realpath(os.environ.get("QUCUMBER_REPO", "/repo"))
                if not (last.startswith(root + os.sep) or isinstance(e, (G.TorchRuntimeError, G.TorchIndexError))):
                    raise Unmodelled("artefact of the symbolic run (%s: %s at %s:%s)" % (type(e).__name__, str(e)[:120], os.path.basename(last), fr[-1].lineno if fr else "?"))
                raised = e
            want = case.spec(**before)
            if canary and canary.startswith("generic-") and case.canary_spec is not None:
                want = case.canary_spec(**before)
            if isinstance(want, Raises):
                vc._record(nm + "/rejected with %s" % want.exc.__name__,
                           "discharged" if isinstance(raised, want.exc) else "violated",
                           None if isinstance(raised, want.exc) else "no %s (got %r)" % (want.exc.__name__, raised),
                           None, 0.0, "tensor-normal-form(all shapes)")
                return
            if raised is not None:
                vc._record(nm + "/no exception on admissible shapes", "violated", "raised %r on the path %s" % (raised, vc.pc[-3:]),
                           {"sizes": (G._sizes_from_model(vc, 1) or [None])[0], "exception": repr(raised)}, 0.0, "tensor-normal-form")
                return
            vc._record(nm + "/no exception on admissible shapes", "discharged", None, None, 0.0, "tensor-normal-form(all shapes)")
            if want is None:
                vc._record(nm + "/returns None", "discharged" if res is None else "violated", None, None, 0.0, "structural")
            elif isinstance(want, (tuple, list)):
                ok = isinstance(res, (tuple, list)) and len(res) == len(want)
                vc._record(nm + "/returns %d tensors" % len(want), "discharged" if ok else "violated", None, None, 0.0, "structural")
                if ok:
                    for j, (r, w) in enumerate(zip(res, want)):
                        if isinstance(w, str) and w == "zeros":
                            rv = G.val_of(r)
                            w = G.Val(rv.shape, rv.ix, G.ZERO)        # all-zero, whatever its length
                        G.check_eq(vc, nm + "/component %d equals the contract for every shape" % j, r, w)
            else:
                if res is None or isinstance(res, (tuple, list)):
                    vc._record(nm + "/returns one tensor", "violated", "got %r" % (type(res).__name__,), None, 0.0, "structural")
                else:
                    G.check_eq(vc, nm + "/equals the contract for every shape", res, want)
            # sampled cross-check of the front end itself: the real code on float tensors against the contract evaluated
            # numerically (the symbolic run proved code == contract through the primitive models; a disagreement here
            # means a model of a torch primitive is wrong -> checker defect, exit 3, never a verdict)
            refuted = any(x[0] != "discharged" for k, v in vc.results.items() if k.startswith(nm + "/") for x in v)
            if not canary and want is not None and vc.pos == len(vc.prefix) and case.name not in sampled and not refuted:
                # (only where the symbolic run claims code == contract: a refuted case disagrees numerically by design)
                sampled.add(case.name)
                _cross_check(ctx, vc, case, want)
            # frame: inputs the contract does not hand over are not written, and still hold their values
            G.check_frame(vc, nm + "/read-only inputs are not written")
            for n, t in ins.items():
                if n not in case.mutates:
                    G.check_eq(vc, nm + "/input %s unchanged" % n, t, before[n])
        p0 = vc.paths
        pre = "generic/%s/" % case.name
        G.INPUT_FIX[0] = case.fix
        try:
            npaths = G.explore(vc, thunk, case.name)
            und = [k for k, v in vc.results.items() if k.startswith(pre) and any(x[0] == "undecided" for x in v)
                   and not any(x[0] == "violated" for x in v)]
            if und and not forked[0]:
                # the normal form is incomplete here (e.g. softplus written out as log(1 + exp)): no certificate for every
                # shape, no counterexample among the sampled sizes and values either; the per-shape proof of the same
                # function stands.  With a single path no size-dependent branch exists that only this run would see.
                for k in und:
                    why = [x[1] for x in vc.results[k] if x[0] == "undecided"][0]
                    ctx.generic_skipped = getattr(ctx, "generic_skipped", []) + [(case.name, "not decided by normal form: %s" % str(why)[:160])]
                    del vc.results[k]
            done.append((case.name, npaths))
            if loop_skipped:
                ctx.generic_skipped = getattr(ctx, "generic_skipped", []) + loop_skipped[:1]
                vc.results = {k: v for k, v in vc.results.items() if not k.startswith(pre) or any(x[0] == "violated" for x in v)}
            if bad_paths:
                raise Unmodelled(bad_paths[0][1])
        except Unmodelled as e:
            # outside the modelled fragment of front end G: no shape-generic certificate for this function (the
            # per-shape proof of the same property still stands); recorded, never counted
            npaths = vc.paths - p0
            vc.results = {k: v for k, v in vc.results.items() if not k.startswith(pre)}
            bad_paths = [bp for bp in bad_paths if _size_dependent(bp[0])]
            if not forked[0]:
                npaths = 1
            if npaths > 1 and bad_paths:
                # ... unless the code branches on a size: the enumerated shapes cannot vouch for the other branch.  The
                # branch is then decided by running the real code at the smallest sizes that reach it (bounded, labelled)
                for pc, why in bad_paths[:3]:
                    nm = pre + "a branch taken only for some sizes is outside the modelled fragment"
                    pr = _probe(ctx, case, pc)
                    if pr and pr.get("mismatch"):
                        vc._record(nm + ": real code at the smallest sizes of that branch vs the contract (bounded)", "violated",
                                   "real code %r, contract %r at element %s for sizes %s" % (pr["code_value"], pr["contract_value"], pr["element"], pr["sizes"]),
                                   pr, 0.0, "size-fork + concrete run (bounded)")
                    else:
                        vc._record(nm, "undecided", "unmodelled on a size-dependent path: %s%s" % (
                            why, "; the real code agrees with the contract at sizes %s" % (pr["sizes"],) if pr else ""), None, 0.0, "tensor-normal-form")
            elif npaths > 1:
                vc._record(pre + "a branch taken only for some sizes is outside the modelled fragment", "undecided",
                           "unmodelled on a size-dependent path: %s" % str(e)[:200], None, 0.0, "tensor-normal-form")
            else:
                ctx.generic_skipped = getattr(ctx, "generic_skipped", []) + [(case.name, str(e)[:200])]
    if canary and str(canary).startswith("generic-"):
        bearing = [c.name for c in cases if c.canary_spec is not None]
        skipped = {n for n, _w in getattr(ctx, "generic_skipped", [])}
        if bearing and all(n in skipped for n in bearing):
            # the functions carrying the deliberately wrong contract are outside the fragment on this tree: nothing was
            # decided about them in the main run either (recorded there); the canary says nothing
            ctx.canary_na = True
    vc.flush(prefix)
    ctx.generic_done = getattr(ctx, "generic_done", []) + done
    for a in sorted(G.ASSUMED):
        ctx.assumed.add(a)
    return done


def _size_dependent(pc):
    """Does this path condition contain a decision about sizes (beyond the stated preconditions n >= k)?  Loop forks
    and other free choices do not count."""
    for c in pc:
        s = str(c).replace("\n", " ")
        if "dim_" in s and not re.fullmatch(r"dim_[\w()*+]+ >= \d+", s.strip()):
            return True
    return False


def _cross_check(ctx, vc, case, want):
    import random
    rec = getattr(ctx, "gconf", None)
    if rec is None:
        rec = ctx.gconf = {"calls": 0, "mismatches": []}
    wants = list(want) if isinstance(want, (tuple, list)) else [want]
    rnd = random.Random(len(case.name))
    try:
        for sizes in G._sizes_from_model(vc, 2):
            tensors = G.draw_inputs(sizes, rnd)
            with torch._C.DisableTorchFunctionSubclass():
                pass
            real_in = {n: torch.tensor(tensors[n], dtype=torch.double) for n, _s, _d in case.inputs}
            saved = (torch.zeros, torch.ones)
            try:
                torch.zeros, torch.ones = G.REAL_FACTORIES
                res = case.call(**real_in)
            finally:
                torch.zeros, torch.ones = saved
            ress = list(res) if isinstance(res, (tuple, list)) else [res]
            for j, (r, w) in enumerate(zip(ress, wants)):
                if isinstance(w, str):
                    exp = np.zeros(tuple(r.shape))
                else:
                    exp = G.eval_val(w, sizes, tensors)
                got = r.detach().numpy() if isinstance(r, torch.Tensor) else np.asarray(float(r))
                rec["calls"] += 1
                if got.shape != exp.shape or not np.allclose(got, exp, rtol=1e-8, atol=1e-10):
                    rec["mismatches"].append(("generic case %s component %d at sizes %s" % (case.name, j, sizes),
                                              "real code %s vs contract %s" % (np.ravel(got)[:3], np.ravel(exp)[:3])))
    except (Unmodelled, KeyError, OverflowError, ZeroDivisionError, ValueError) as e:
        rec.setdefault("skipped", []).append((case.name, repr(e)[:120]))


def _probe(ctx, case, pc):
    """Run the real function with floats at the smallest sizes that satisfy the path condition pc and compare with the
    contract evaluated numerically there.  Returns a witness dict (mismatch True/False) or None."""
    import random
    out = {}
    vc2 = astvc.VC(ctx)
    vc2.probe = True

    def run():
        if case.pre is not None:
            case.pre()
        ins = {}
        for n, shape, dom in case.inputs:
            ins[n] = G.inp(n, shape, frozen=False, domain=dom)
        before = {n: G.val_of(t) for n, t in ins.items()}
        G.INPUT_FIX[0] = case.fix
        for c in pc:
            try:
                vc2.assume(astvc.SymBool(c))
            except Exception:
                return
        want = case.spec(**before)
        if isinstance(want, Raises) or want is None:
            return
        wants = list(want) if isinstance(want, (tuple, list)) else [want]
        sizes_l = G._sizes_from_model(vc2, 1, pc=pc)
        if not sizes_l:
            return
        sizes = sizes_l[0]
        if max(sizes.values()) > 5000:
            return
        rnd = random.Random(11)
        tensors = G.draw_inputs(sizes, rnd)
        real_in = {n: torch.tensor(tensors[n], dtype=torch.double) for n, _s, _d in case.inputs}
        saved = (torch.zeros, torch.ones)
        try:
            torch.zeros, torch.ones = G.REAL_FACTORIES
            res = case.call(**real_in)
        finally:
            torch.zeros, torch.ones = saved
        ress = list(res) if isinstance(res, (tuple, list)) else [res]
        out.update({"sizes": sizes, "inputs": {k: v.tolist() for k, v in tensors.items()}, "mismatch": False})
        for j, (r, w) in enumerate(zip(ress, wants)):
            if isinstance(w, str):
                continue
            exp = G.eval_val(w, sizes, tensors)
            got = r.detach().numpy() if isinstance(r, torch.Tensor) else np.asarray(float(r))
            if got.shape != exp.shape:
                out.update({"mismatch": True, "element": [], "component": j, "code_value": list(got.shape), "contract_value": list(exp.shape)})
                return
            bad = np.argwhere(~np.isclose(got, exp, rtol=1e-7, atol=1e-9))
            if len(bad):
                idx = tuple(int(x) for x in bad[0])
                out.update({"mismatch": True, "element": list(idx), "component": j, "code_value": float(got[idx]), "contract_value": float(exp[idx])})
                return
    try:
        G.explore(vc2, run, "probe")
    except Exception as e:       # the probe is an aid; it must never turn into a verdict by crashing
        return None
    return out or None


def replay_case(cases, o):
    """Replay a violated shape-generic obligation on the real code with floats: sizes and inputs of the witness."""
    w = o.get("witness") or {}
    name = o["short"] if "short" in o else o["name"]
    case = None
    for c in cases:
        if ("generic/%s/" % c.name) in o["name"]:
            case = c
    if case is None or "inputs" not in w:
        return {"reproduced": False, "note": "no concrete inputs in the witness"}
    ins = {n: torch.tensor(np.array(w["inputs"][n]), dtype=torch.double) for n, _s, _d in case.inputs if n in w["inputs"]}
    try:
        res = case.call(**ins)
    except Exception as e:
        return {"reproduced": True, "inputs": w["inputs"], "exception": repr(e)}
    if isinstance(res, (tuple, list)):
        import re
        m = re.search(r"component (\d+)", o["name"])
        res = res[int(m.group(1))] if m else res[int(w.get("component", 0))]
    m2 = [n for n, _s, _d in case.inputs if ("input %s unchanged" % n) in o["name"]]
    if m2:
        res = ins[m2[0]]
    if isinstance(w.get("contract_value"), list):          # the witness is a wrong SHAPE
        shp = [int(s) for s in getattr(res, "shape", ())]
        return {"reproduced": shp != [int(s) for s in w["contract_value"]], "sizes": w["sizes"], "inputs": w["inputs"],
                "real_code_shape": shp, "contract_shape": w["contract_value"]}
    got = float(res[tuple(w["element"])]) if w["element"] else float(res)
    bad = abs(got - w["contract_value"]) > 1e-7 * (1 + abs(got) + abs(w["contract_value"]))
    return {"reproduced": bool(bad), "sizes": w["sizes"], "inputs": w["inputs"], "element": w["element"],
            "real_code_value": got, "contract_value": w["contract_value"]}
