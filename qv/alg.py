"""Exact scalar algebra ("exp-polynomials") used as the symbolic value domain.

An element `P` is a sparse Laurent polynomial with rational coefficients in
*atoms*.  The imaginary unit is itself an atom (id 0) with i^2 = -1, so
coefficients are plain rationals.  Every rewrite performed here is a valid
identity over the reals / complex numbers under the side condition recorded
with the atom (positivity of the argument of sqrt / log, non-vanishing of the
argument of Inv).  Nothing in this file decides a property; it only builds
normal forms and hands residual obligations to `qv.solve`.

Atoms
  i                    imaginary unit
  par(name)            a real parameter / operand entry
  eh(g)                exp(g/2)  for a real "generator" atom g (par, Lg, UF)   positive, invertible
  ch(g)                exp(i g/2)                                             unit modulus, invertible
  R(u)                 sqrt(u), u >= 0 (polynomial)                            exponent in {0,1}
  Lg(u)                log(u),  u > 0
  At(y,x)              atan2(y,x)
  Inv(u)               1/u, u != 0
  Abs(u)               |u|, u real
  UF(name,sign)        opaque symbol (result of a stubbed callee); sign in pos/real/complex
"""
from fractions import Fraction as Fr
import math
import cmath


EXP_DEN = 2                   # eh(g) = exp(g/EXP_DEN), ch(g) = exp(i*g/EXP_DEN); a run that meets a finer fraction is repeated with 2*EXP_DEN
NONNEG_ORACLE = None          # set by qv.solve users: callable(P) -> bool, proves p >= 0 with z3
GENERIC_POSITION = set()      # arguments of log / 1/sqrt proved >= 0 and assumed != 0


class Unmodelled(Exception):
    """An operation outside the modelled fragment: the obligation is undecided."""


class FinerExp(Unmodelled):
    """exp of a fraction of a generator finer than 1/EXP_DEN: the run is repeated with a doubled EXP_DEN."""


class ValueDependent(Unmodelled):
    """A symbolic value reached control flow."""


# --------------------------------------------------------------------------
# atoms
# --------------------------------------------------------------------------
class Atom:
    __slots__ = ("id", "kind", "key", "args", "invertible", "pos", "nonneg", "real", "name")

    def __repr__(self):
        return self.name


_ATOMS = []
_INDEX = {}


def _mk(kind, key, args=(), invertible=False, pos=False, nonneg=False, real=True, name=None):
    k = (kind,) + tuple(key)
    a = _INDEX.get(k)
    if a is not None:
        return a
    a = Atom()
    a.id = len(_ATOMS)
    a.kind = kind
    a.key = k
    a.args = args
    a.invertible = invertible
    a.pos = pos
    a.nonneg = nonneg or pos
    a.real = real
    a.name = name or "%s%d" % (kind, a.id)
    _ATOMS.append(a)
    _INDEX[k] = a
    return a


I_ATOM = _mk("i", (), real=False, invertible=True, name="i")


def atom(i):
    return _ATOMS[i]


def n_atoms():
    return len(_ATOMS)


def _norm_c(c):
    if isinstance(c, Fr) and c.denominator == 1:
        return c.numerator
    return c


# constants recognised when a float meets a symbolic value
_SQH = 1.0 / math.sqrt(2.0)


def const_from_float(x):
    """Exact element for a python float met in arithmetic.

    Floats that are (within a few ulp) a power (1/sqrt 2)^k, 1 <= k <= 60, are the
    algebraic constant sqrt(1/2)^k (the code computes `1/np.sqrt(2)` and float
    products of it); every other float is its exact dyadic rational value."""
    if x == 0.0:
        return ZERO
    if x != x or x in (math.inf, -math.inf):
        raise Unmodelled("non-finite float constant")
    if x == int(x) and abs(x) < 2 ** 53:
        return P.const(int(x))
    ax = abs(x)
    if ax < 1.0:
        k = round(math.log(ax) / math.log(_SQH))
        if 0 < k <= 60:
            ref = _SQH ** k
            if abs(ax - ref) <= 8 * math.ulp(ref) * max(1, k):
                if k % 2 == 1:
                    r = sqrt_half() * Fr(1, 2 ** (k // 2))
                else:
                    r = P.const(Fr(1, 2 ** (k // 2)))
                return r if x > 0 else -r
    return P.const(Fr(x))


def to_P(x):
    if isinstance(x, P):
        return x
    if isinstance(x, bool):
        return ONE if x else ZERO
    if isinstance(x, int):
        return P.const(x)
    if isinstance(x, Fr):
        return P.const(x)
    if isinstance(x, float):
        return const_from_float(x)
    if isinstance(x, complex):
        return const_from_float(x.real) + I * const_from_float(x.imag)
    try:
        import numpy as np
        if isinstance(x, np.generic):
            return to_P(x.item())
    except ImportError:
        pass
    try:
        import torch
        if isinstance(x, torch.Tensor) and x.dim() == 0:
            return to_P(x.item())
    except ImportError:
        pass
    raise Unmodelled("cannot convert %r to a symbolic scalar" % type(x))


# --------------------------------------------------------------------------
# polynomials
# --------------------------------------------------------------------------
def _mono_mul(m1, m2):
    if not m1:
        return m2
    if not m2:
        return m1
    out = []
    i = j = 0
    n1, n2 = len(m1), len(m2)
    while i < n1 and j < n2:
        a, e = m1[i]
        b, f = m2[j]
        if a == b:
            s = e + f
            if s:
                out.append((a, s))
            i += 1
            j += 1
        elif a < b:
            out.append(m1[i])
            i += 1
        else:
            out.append(m2[j])
            j += 1
    if i < n1:
        out.extend(m1[i:])
    if j < n2:
        out.extend(m2[j:])
    return tuple(out)


def _needs_fix(m):
    for a, e in m:
        if a == 0:
            if e < 0 or e > 1:
                return True
        else:
            k = _ATOMS[a].kind
            if k == "R" and (e > 1 or e < -1):
                return True
            if k == "Abs" and (e > 1 or e < 0):
                return True
            if k == "Inv" and e < 0:
                return True
    return False


class P:
    __slots__ = ("t", "_key", "_hash")

    def __init__(self, terms=None):
        self.t = terms if terms is not None else {}
        self._key = None
        self._hash = None

    # ---- construction
    @staticmethod
    def const(c):
        c = _norm_c(c)
        return P({(): c}) if c != 0 else P({})

    @staticmethod
    def of_atom(a, e=1):
        return P({((a.id, e),): 1})

    def key(self):
        if self._key is None:
            self._key = tuple(sorted(self.t.items()))
        return self._key

    def __hash__(self):
        if self._hash is None:
            self._hash = hash(self.key())
        return self._hash

    def same(self, other):
        return self.t == other.t

    # ---- predicates
    def is_const(self):
        return not self.t or (len(self.t) == 1 and () in self.t)

    def const_value(self):
        if not self.t:
            return 0
        if len(self.t) == 1 and () in self.t:
            return self.t[()]
        # constant complex
        if all(m in ((), ((0, 1),)) for m in self.t):
            return complex(float(self.t.get((), 0)), float(self.t.get(((0, 1),), 0)))
        raise ValueDependent("symbolic value used where a concrete number is required: %s" % self.short())

    def is_zero_nf(self):
        return not self.t

    def atoms(self, deep=False, _acc=None):
        acc = set() if _acc is None else _acc
        for m in self.t:
            for a, _ in m:
                if a not in acc:
                    acc.add(a)
                    if deep:
                        for q in _ATOMS[a].args:
                            if isinstance(q, P):
                                q.atoms(True, acc)
                            elif isinstance(q, Atom):
                                if q.id not in acc:
                                    acc.add(q.id)
                                    for qq in q.args:
                                        if isinstance(qq, P):
                                            qq.atoms(True, acc)
        return acc

    def short(self, n=160):
        s = repr(self)
        return s if len(s) <= n else s[:n] + "...(%d terms)" % len(self.t)

    def __repr__(self):
        if not self.t:
            return "0"
        parts = []
        for m, c in sorted(self.t.items(), key=lambda kv: kv[0]):
            ms = "*".join((_ATOMS[a].name if e == 1 else "%s^%d" % (_ATOMS[a].name, e)) for a, e in m)
            if not ms:
                parts.append(str(c))
            elif c == 1:
                parts.append(ms)
            else:
                parts.append("%s*%s" % (c, ms))
        return " + ".join(parts)

    # ---- arithmetic
    def __neg__(self):
        return P({m: -c for m, c in self.t.items()})

    def __pos__(self):
        return self

    def __add__(self, o):
        if not isinstance(o, P):
            try:
                o = to_P(o)
            except Unmodelled:
                return NotImplemented
        if not o.t:
            return self
        if not self.t:
            return o
        a, b = (self.t, o.t) if len(self.t) >= len(o.t) else (o.t, self.t)
        t = dict(a)
        for m, c in b.items():
            s = t.get(m)
            if s is None:
                t[m] = c
            else:
                s = _norm_c(s + c)
                if s == 0:
                    del t[m]
                else:
                    t[m] = s
        return P(t)

    __radd__ = __add__

    def __sub__(self, o):
        if not isinstance(o, P):
            try:
                o = to_P(o)
            except Unmodelled:
                return NotImplemented
        return self + (-o)

    def __rsub__(self, o):
        return (-self) + o

    def __mul__(self, o):
        if not isinstance(o, P):
            try:
                o = to_P(o)
            except Unmodelled:
                return NotImplemented
        if not self.t or not o.t:
            return ZERO
        t = {}
        fix = []
        for m1, c1 in self.t.items():
            for m2, c2 in o.t.items():
                m = _mono_mul(m1, m2)
                c = c1 * c2
                if _needs_fix(m):
                    fix.append((m, c))
                    continue
                s = t.get(m)
                if s is None:
                    t[m] = _norm_c(c)
                else:
                    s = _norm_c(s + c)
                    if s == 0:
                        del t[m]
                    else:
                        t[m] = s
        r = P(t)
        for m, c in fix:
            r = r + _fix_mono(m, c)
        return r

    __rmul__ = __mul__

    def __pow__(self, n):
        if isinstance(n, P):
            n = n.const_value()
        if isinstance(n, float):
            if n == int(n):
                n = int(n)
            elif n == 0.5:
                return sqrt(self)
            else:
                raise Unmodelled("power %r" % n)
        if isinstance(n, Fr):
            if n.denominator == 1:
                n = n.numerator
            elif n == Fr(1, 2):
                return sqrt(self)
            else:
                raise Unmodelled("power %r" % n)
        if n < 0:
            return inv(self) ** (-n)
        r = ONE
        b = self
        while n:
            if n & 1:
                r = r * b
            n >>= 1
            if n:
                b = b * b
        return r

    def __truediv__(self, o):
        if not isinstance(o, P):
            o = to_P(o)
        if o.is_const() and () in o.t:
            c = o.t[()]
            ic = Fr(1) / c
            return P({m: _norm_c(cc * ic) for m, cc in self.t.items()})
        return self * inv(o)

    def __rtruediv__(self, o):
        return to_P(o) * inv(self)

    def __floordiv__(self, o):
        a, b = self.const_value(), to_P(o).const_value()
        return P.const(a // b)

    def __mod__(self, o):
        a, b = self.const_value(), to_P(o).const_value()
        return P.const(a % b)

    # ---- concretisation (only legal on constants)
    def __bool__(self):
        if not self.t:
            return False
        if self.is_const():
            return True
        v = self.const_value()  # raises ValueDependent unless complex constant
        return v != 0

    def __float__(self):
        return float(self.const_value())

    def __int__(self):
        return int(self.const_value())

    def __index__(self):
        v = self.const_value()
        if isinstance(v, int):
            return v
        raise TypeError("not an integer")

    def __complex__(self):
        return complex(self.const_value())

    def __eq__(self, o):
        if not isinstance(o, P):
            try:
                o = to_P(o)
            except Unmodelled:
                return NotImplemented
        if self.t == o.t:
            return True
        if self.is_const() and o.is_const():
            return False
        d = self - o
        if d.is_const():
            return False
        raise ValueDependent("comparison of symbolic values: %s == %s" % (self.short(60), o.short(60)))

    def __ne__(self, o):
        r = self.__eq__(o)
        return r if r is NotImplemented else (not r)

    def _cmp(self, o):
        return self.const_value(), to_P(o).const_value()

    def __lt__(self, o):
        a, b = self._cmp(o)
        return a < b

    def __le__(self, o):
        a, b = self._cmp(o)
        return a <= b

    def __gt__(self, o):
        a, b = self._cmp(o)
        return a > b

    def __ge__(self, o):
        a, b = self._cmp(o)
        return a >= b

    def __abs__(self):
        return absval(self)

    def __round__(self, n=None):
        return round(self.const_value(), n) if n is not None else round(self.const_value())

    # numpy calls these on object arrays
    def conjugate(self):
        return conj(self)

    def conj(self):
        return conj(self)

    def exp(self):
        return exp(self)

    def log(self):
        return log(self)

    def sqrt(self):
        return sqrt(self)

    def cos(self):
        return cos(self)

    def sin(self):
        return sin(self)

    @property
    def real(self):
        return re(self)

    @property
    def imag(self):
        return im(self)


ZERO = P({})
ONE = P({(): 1})
I = P({((0, 1),): 1})


def _fix_mono(m, c):
    """Normalise a monomial in which i, R, Abs or Inv carry an out-of-range exponent."""
    rest = []
    extra = P.const(c)
    for a, e in m:
        if a == 0:
            e4 = e % 4
            if e4 >= 2:
                extra = -extra
            if e4 % 2:
                rest.append((0, 1))
            continue
        at = _ATOMS[a]
        if at.kind == "R":
            # sqrt(u)^e = u^q * sqrt(u)^r with r in {-1,0,1} of the sign of e (1/sqrt(u) is kept as R^-1)
            if e >= 0:
                q, r = divmod(e, 2)
            else:
                q, r = -((-e) // 2), -((-e) % 2)
            if r:
                rest.append((a, r))
            if q > 0:
                extra = extra * at.args[0] ** q
            elif q < 0:
                extra = extra * inv(at.args[0]) ** (-q)
        elif at.kind == "Abs":
            q, r = divmod(e, 2)
            if r:
                rest.append((a, 1))
            if q > 0:
                extra = extra * at.args[0] ** (2 * q)
            elif q < 0:
                extra = extra * inv(at.args[0]) ** (-2 * q)
        elif at.kind == "Inv" and e < 0:
            extra = extra * at.args[0] ** (-e)
        else:
            rest.append((a, e))
    return P({tuple(rest): 1}) * extra


# --------------------------------------------------------------------------
# atom constructors
# --------------------------------------------------------------------------
FORCED_ZERO = set()      # parameter names held at exactly 0 in a case-split re-run (see symtensor.SPLIT_LOG)


def par(name):
    if name in FORCED_ZERO:
        return ZERO
    return P.of_atom(_mk("par", (name,), name=str(name)))


def uf(name, sign="real"):
    return P.of_atom(_mk("UF", (name, sign), invertible=(sign == "pos"), pos=(sign == "pos"),
                         real=(sign != "complex"), name=str(name)))


_SQRT_HALF = None


def sqrt_half():
    global _SQRT_HALF
    if _SQRT_HALF is None:
        u = P.const(Fr(1, 2))
        _SQRT_HALF = P.of_atom(_mk("R", (u.key(),), args=(u,), pos=True, name="sqrt(1/2)"))
    return _SQRT_HALF


def _single_atom(p):
    """If p is exactly one atom to the power 1 with coefficient 1, return the Atom."""
    if len(p.t) == 1:
        (m, c), = p.t.items()
        if c == 1 and len(m) == 1 and m[0][1] == 1:
            return _ATOMS[m[0][0]]
    return None


def is_real(p):
    """Syntactic: p contains no i and no ch atoms (then it denotes a real number)."""
    for m in p.t:
        for a, _ in m:
            if not _ATOMS[a].real:
                return False
    return True


POSITIVE = {}      # key -> reason: polynomials positive by a stated *precondition* of the contract being checked


def assume_pos(p, reason):
    """Register p > 0 as a precondition (e.g. a rotated Born probability of a PSD input state)."""
    POSITIVE[to_P(p).key()] = reason


def is_pos(p, strict=True):
    """Syntactic sign analysis: every term has a positive coefficient and is a
    product of positive atoms and even powers of real atoms.  With strict=True at
    least one term must be strictly positive (a product of strictly positive atoms)."""
    if not p.t:
        return not strict
    if POSITIVE and len(p.t) > 1 and p.key() in POSITIVE:
        return True
    some_strict = False
    for m, c in p.t.items():
        if c < 0:
            return False
        st = True
        for a, e in m:
            at = _ATOMS[a]
            if at.pos:
                continue
            if at.nonneg:
                if e < 0:
                    return False
                st = False
                continue
            if at.real and e % 2 == 0 and e > 0:
                st = False
                continue
            return False
        some_strict = some_strict or st
    return some_strict or not strict


CERTIFIED_NONNEG = {}     # key -> certificate description (sum of squares, checked by multiplication)


def certify_sos(parts, what=""):
    """Register p = sum_i parts_i^2 (real parts_i) as non-negative; the identity is computed here, not assumed."""
    p = ZERO
    for q in parts:
        q = to_P(q)
        if not is_real(q):
            raise Unmodelled("sum-of-squares certificate with a non-real part")
        p = p + q * q
    CERTIFIED_NONNEG[p.key()] = "sum of %d squares %s" % (len(parts), what)
    return p


def is_nonneg(p):
    if is_pos(p, strict=False):
        return True
    if CERTIFIED_NONNEG and len(p.t) > 1 and p.key() in CERTIFIED_NONNEG:
        return True
    if _is_modsq(p):
        return True
    q = clear_inv(p, positive_only=True)
    return q is not None and (is_pos(q, strict=False) or _is_modsq(q))


def _is_modsq(p):
    return _modsq_witness(p) is not None


def _modsq_witness(p):
    """w = c + t with p == w * conj(w) for a rational c and one of p's own terms t (checked by multiplication), or None."""
    if not (3 <= len(p.t) <= 4) or () not in p.t:
        return None
    c0 = p.t[()]
    if c0 <= 0:
        return None
    cf = Fr(c0)
    rn, rd = math.isqrt(cf.numerator), math.isqrt(cf.denominator)
    if rn * rn != cf.numerator or rd * rd != cf.denominator:
        return None
    c = P.const(Fr(rn, rd))
    for m, k in p.t.items():
        if not m:
            continue
        for sgn in (1, -1):
            w = c + P({m: _norm_c(Fr(k) * sgn / (Fr(rn, rd)))})
            try:
                if (w * conj(w) - p).is_zero_nf():
                    return w
            except Unmodelled:
                return None
    return None


def inv(p):
    if not p.t:
        raise ZeroDivisionError("division by the zero polynomial")
    if len(p.t) == 1:
        (m, c), = p.t.items()
        out = P.const(Fr(1) / c)
        mono = []
        for a, e in m:
            at = _ATOMS[a]
            if a == 0:
                out = out * (-I if e % 2 else ONE)  # 1/i = -i
            elif at.invertible:
                mono.append((a, -e))
            elif at.kind == "Inv":
                out = out * at.args[0] ** e
            elif at.kind == "R":
                # 1/sqrt(u): Laurent exponent on the R atom (u != 0 is the generic-position side condition)
                out = out * P.of_atom(at, -1) ** e
            else:
                out = out * P.of_atom(_inv_atom(P.of_atom(at))) ** e
        return out * P({tuple(mono): 1})
    if is_real(p) and 3 <= len(p.t) <= 4:
        w = _modsq_witness(p)
        if w is not None and not is_real(w):
            # 1/|w|^2 = (1/w)(1/conj w): keeps denominators of complex sigmoids canonical
            return P.of_atom(_inv_atom(w)) * P.of_atom(_inv_atom(conj(w)))
    return P.of_atom(_inv_atom(p))


def _inv_atom(u):
    r = is_real(u)
    # 1/u exists only where u != 0 (side condition of the atom), so a syntactically non-negative u makes 1/u positive
    return _mk("Inv", (u.key(),), args=(u,), pos=(r and is_pos(u, strict=False)), real=r)


def sqrt(p):
    p = to_P(p)
    if not p.t:
        return ZERO
    if len(p.t) == 1:
        (m, c), = p.t.items()
        if c > 0:
            cf = Fr(c)
            rn, rd = math.isqrt(cf.numerator), math.isqrt(cf.denominator)
            if rn * rn == cf.numerator and rd * rd == cf.denominator:
                ok = True
                half = []
                restu = []
                for a, e in m:
                    at = _ATOMS[a]
                    if e % 2 == 0 and (at.nonneg or at.invertible and at.real):
                        half.append((a, e // 2))
                    elif e % 2 == 0 and at.real:
                        # sqrt(x^2) = |x|
                        ok = False
                        break
                    else:
                        ok = False
                        break
                if ok:
                    return P({tuple(half): _norm_c(Fr(rn, rd))})
    if len(p.t) > 1:
        fs = _FACTORS.get(p.key())
        if fs is not None:
            # sqrt of a product of positive factors (the product was formed by exp from exactly these factors)
            out = ONE
            for f in fs:
                out = out * sqrt(f)
            return out
    if len(p.t) > 2 and is_real(p):
        q = poly_sqrt(p)
        if q is not None:
            return q
    if not is_nonneg(p) and not (NONNEG_ORACLE and NONNEG_ORACLE(p)):
        # not proved: refute by sampling, else go on under a *recorded* assumption (reported with the evidence; the real
        # code returns NaN where it fails, so nothing downstream would hold there anyway)
        import random as _random
        rnd = _random.Random(1)
        names = sorted(free_names(p))
        for t in range(60):
            env = {n: rnd.gauss(0, (0.5, 1.0, 3.0, 8.0)[t % 4]) for n in names}
            for a_ in p.atoms(deep=True):
                at_ = _ATOMS[a_]
                if at_.kind == "UF" and len(at_.key) > 2 and at_.key[2] == "pos":
                    env[at_.key[1]] = abs(env.get(at_.key[1], 1.0)) + 0.1
            try:
                v = evalf(p, env)
            except (ValueError, ZeroDivisionError, OverflowError, KeyError):
                continue
            v = v.real if isinstance(v, complex) else v
            if v < -1e-9 * (1 + abs(v)):
                raise Unmodelled("sqrt of a value that is negative for some parameter values: %s" % p.short())
        GENERIC_POSITION.add("sqrt argument >= 0 at 60 sampled points, not proved: " + p.short(100))
    a = _mk("R", (p.key(),), args=(p,), pos=is_pos(p), nonneg=True)
    return P.of_atom(a)


def _lead(p):
    """Leading term under the lexicographic group order on exponent vectors."""
    best = None
    for m, c in p.t.items():
        k = tuple(m)
        if best is None or _lex_gt(k, best[0]):
            best = (k, c)
    return best


def _lex_gt(m1, m2):
    i = 0
    n1, n2 = len(m1), len(m2)
    while i < n1 and i < n2:
        (a, e), (b, f) = m1[i], m2[i]
        if a != b:
            # the monomial that has the smaller atom id with a positive exponent is larger
            if a < b:
                return e > 0
            return f < 0
        if e != f:
            return e > f
        i += 1
    if i < n1:
        return m1[i][1] > 0
    if i < n2:
        return m2[i][1] < 0
    return False


def poly_sqrt(p):
    """q with q*q == p and q syntactically positive, or None.  The result is
    validated by multiplication, so the search itself is not trusted."""
    for m in p.t:
        for a, e in m:
            if _ATOMS[a].kind in ("R", "Abs", "Inv", "i") or not _ATOMS[a].real:
                return None
    lt = _lead(p)
    m0, c0 = lt
    if c0 <= 0 or any(e % 2 for _, e in m0):
        return None
    cf = Fr(c0)
    rn, rd = math.isqrt(cf.numerator), math.isqrt(cf.denominator)
    if rn * rn != cf.numerator or rd * rd != cf.denominator:
        return None
    q0 = P({tuple((a, e // 2) for a, e in m0): _norm_c(Fr(rn, rd))})
    q0inv2 = P({tuple((a, -e // 2) for a, e in m0): _norm_c(Fr(rd, 2 * rn))})
    for (a, e) in m0:
        if not _ATOMS[a].invertible:
            # division by a non-invertible atom: only allowed if it divides exactly; keep simple
            return None
    q = q0
    rem = p - q * q
    for _ in range(len(p.t) + 2):
        if not rem.t:
            break
        lm, lc = _lead(rem)
        t = P({lm: lc}) * q0inv2
        q = q + t
        rem = p - q * q
    if rem.t:
        return None
    if is_pos(q):
        return q
    if is_pos(-q):
        return -q
    return None


def absval(p):
    p = to_P(p)
    if p.is_const():
        return P.const(abs(p.const_value()))
    if not is_real(p):
        raise Unmodelled("abs of complex element; use modulus")
    if is_nonneg(p):
        return p
    if is_nonneg(-p):
        return -p
    return P.of_atom(_mk("Abs", (p.key(),), args=(p,), nonneg=True))


def clampf(p, lo, hi):
    """min(max(p, lo), hi) for a real element and concrete bounds (None = unbounded): an opaque atom with a numeric
    reading (no identity is applied to it except evaluation; z3 sees the if-then-else)."""
    p = to_P(p)
    if lo is None and hi is None:
        return p
    if p.is_const() and not isinstance(p.const_value(), complex):
        v = p.const_value()
        if lo is not None and v < lo:
            v = lo
        if hi is not None and v > hi:
            v = hi
        return to_P(v)
    lo_k = None if lo is None else Fr(lo).limit_denominator(10 ** 12)
    hi_k = None if hi is None else Fr(hi).limit_denominator(10 ** 12)
    return P.of_atom(_mk("Cl", (p.key(), str(lo_k), str(hi_k)), args=(p, lo_k, hi_k),
                         nonneg=(lo_k is not None and lo_k >= 0), pos=(lo_k is not None and lo_k > 0)))


def cast(p, kind):
    """The value a tensor of another element type holds after `p` is written into it: truncation toward zero ("int"),
    != 0 ("bool"), rounding to single precision ("f32").  Exact on constants; otherwise an atom whose numeric value is
    computed from its argument (so a refutation through it is checked numerically), opaque to the normal form."""
    p = to_P(p)
    if p.is_const() and not isinstance(p.const_value(), complex):
        v = float(p.const_value())
        if kind == "int":
            return to_P(int(math.trunc(v)))
        if kind == "bool":
            return to_P(1 if v != 0 else 0)
        if kind == "rnd":
            return to_P(int(round(v)))
        import numpy as _np
        return to_P(float(_np.float32(v)))
    at = _single_atom(p)
    if at is not None and at.kind == "Cast" and at.args[1] == kind:
        return p
    # truncation and rounding are odd functions, != 0 is even: one canonical sign per argument
    q = -p
    if str(q.key()) < str(p.key()):
        inner = P.of_atom(_mk("Cast", (q.key(), kind), args=(q, kind), real=True, name="%s(%s)" % (kind, q.short(30))))
        return inner if kind == "bool" else -inner
    return P.of_atom(_mk("Cast", (p.key(), kind), args=(p, kind), real=True, name="%s(%s)" % (kind, p.short(30))))


def _loglin_terms(p):
    """Decompose a real polynomial into [(q, generator Atom or None)] if it is a
    rational-linear combination of generator atoms (par / Lg / At / real UF)."""
    out = []
    for m, c in p.t.items():
        if not m:
            out.append((Fr(c), None))
            continue
        if len(m) == 1 and m[0][1] == 1:
            at = _ATOMS[m[0][0]]
            if at.kind == "Cast" and (EXP_DEN * Fr(c)).denominator != 1:
                # an awkward multiple (2 pi, say) of a rounded / converted value: the product itself becomes the generator
                prod = P.of_atom(at) * c
                w = _mk("Cast", (prod.key(), "id"), args=(prod, "id"), real=True, name="(%s)" % prod.short(30))
                out.append((Fr(1), w))
                continue
            if at.kind in ("par", "Lg", "At", "Cl", "Abs", "Cast") or (at.kind == "UF" and at.real):
                out.append((Fr(c), at))
                continue
        raise Unmodelled("exp/cis of a non-linear argument: %s" % p.short())
    return out


CONST_VALUES = {}       # name of a constant atom -> its numeric value (consulted by evalf and by the witness search)


def _exp_const(kind, q):
    """exp(q) / cis(q) of a non-zero rational constant (numbers that reach an exponent because code under contract kept a
    stale concrete value): an opaque constant with a known numeric value.  Relations between different such constants
    are not known to the normal form - an equality that needs one is refuted only if the numeric witness check agrees,
    which evaluates them exactly, and stays undecided otherwise."""
    import cmath
    if kind == "eh":
        nm = "exp_const(%s)" % q
        CONST_VALUES[nm] = math.exp(float(q))
        return uf(nm, "pos")
    nc, ns = "cos_const(%s)" % q, "sin_const(%s)" % q
    CONST_VALUES[nc], CONST_VALUES[ns] = math.cos(float(q)), math.sin(float(q))
    return uf(nc, "real") + I * uf(ns, "real")


def _gen_pow(kind, g, q):
    """exp(q*g) (kind eh) or exp(i*q*g) (kind ch) for generator atom g, rational q."""
    if g is None:
        return _exp_const(kind, q)
    if kind == "eh" and g.kind == "Lg":
        u = g.args[0]
        q2 = 2 * q
        if q2.denominator != 1:
            raise Unmodelled("exp(%s*log u)" % q)
        n, r = divmod(q2.numerator, 2)
        out = u ** n if n >= 0 else inv(u) ** (-n)
        if r:
            out = out * sqrt(u)
        return out
    if kind == "ch" and g.kind == "At":
        if q.denominator != 1:
            raise Unmodelled("cis(%s*atan2)" % q)
        y, x = g.args
        z = (x + I * y) * inv(sqrt(x * x + y * y))
        n = q.numerator
        return z ** n if n >= 0 else conj(z) ** (-n)
    q2 = EXP_DEN * q
    if q2.denominator != 1:
        raise FinerExp("exp of %s times a parameter (only multiples of 1/%d are modelled)" % (q, EXP_DEN))
    if kind == "eh":
        a = _mk("eh", (g.id,), args=(g,), invertible=True, pos=True, name="e^(%s/%d)" % (g.name, EXP_DEN))
    else:
        a = _mk("ch", (g.id,), args=(g,), invertible=True, real=False, name="cis(%s/%d)" % (g.name, EXP_DEN))
    return P.of_atom(a, q2.numerator)


def split_ri(p):
    """p = A + i*B with A, B free of the atom i (they may still contain ch atoms)."""
    A, B = {}, {}
    for m, c in p.t.items():
        if m and m[0][0] == 0:
            B[m[1:]] = c
        else:
            A[m] = c
    return P(A), P(B)


_FACTORS = {}      # key of a product polynomial -> the factors it was built from (by exp); lets sqrt / log stay canonical


def exp(p):
    p = to_P(p)
    if not p.t:
        return ONE
    A, B = split_ri(p)
    out = ONE
    pieces = []
    for q, g in _loglin_terms(A):
        f = _gen_pow("eh", g, q)
        pieces.append(f)
        out = out * f
    if len(pieces) > 1 and not B.t and len(out.t) > 1:
        _FACTORS.setdefault(out.key(), pieces)
    for q, g in _loglin_terms(B):
        out = out * _gen_pow("ch", g, q)
    return out


def cis(p):
    return exp(I * to_P(p))


def cos(p):
    p = to_P(p)
    if not p.t:
        return ONE
    c = cis(p)
    return (c + conj(c)) / 2


def sin(p):
    p = to_P(p)
    if not p.t:
        return ZERO
    c = cis(p)
    return (c - conj(c)) * (-I) / 2


def log(p):
    p = to_P(p)
    if not is_real(p):
        # real-valued although written with complex atoms (1 + 2 e^x cos(phi) + e^2x = |1 + e^(x + i phi)|^2): go through the
        # square root, whose canonical form the squared-modulus certificate provides:  log z = 2 log sqrt z
        if conj(p).same(p):
            return 2 * log(sqrt(p))
        raise Unmodelled("log of a complex element")
    if len(p.t) == 1:
        (m, c), = p.t.items()
        if c > 0:
            out = ZERO
            ok = True
            for a, e in m:
                at = _ATOMS[a]
                if at.kind == "eh":
                    out = out + P.of_atom(at.args[0]) * Fr(e, EXP_DEN)
                elif at.kind == "R" and at.pos:
                    out = out + log(at.args[0]) * Fr(e, 2)
                elif at.kind == "Inv" and at.pos:
                    out = out - log(at.args[0]) * e
                elif at.pos:
                    out = out + _lg_atom(P.of_atom(at)) * e
                else:
                    ok = False
                    break
            if ok:
                if c != 1:
                    out = out + _lg_atom(P.const(c))
                return out
    if len(p.t) > 1:
        cont = _pos_content(p)
        if cont is not None:
            m0 = P({cont: 1})
            cd = dict(cont)
            rest = {}
            for m, c in p.t.items():     # strip the common factor monomial-wise (exact)
                mm = tuple((a, e - cd.get(a, 0)) for a, e in m if e - cd.get(a, 0) != 0)
                rest[mm] = c
            return log(m0) + log(P(rest))
    if not is_pos(p):
        q = clear_inv(p, positive_only=True)
        if q is None or not is_pos(q):
            if NONNEG_ORACLE and NONNEG_ORACLE(p):
                # u >= 0 is proved; u != 0 is a generic-position side condition of the
                # real code too (log 0 = -inf there); recorded, reported as an assumption
                GENERIC_POSITION.add(p.short(100))
            else:
                raise Unmodelled("log of a value not provably positive: %s" % p.short())
    return _lg_atom(p)


def _pos_content(p):
    """Common monomial factor of all terms made of strictly positive atoms (eh, positive UF, Inv of a positive
    argument), or None.  log(c * q) = log c + log q keeps logs of normalised probabilities canonical."""
    common = None
    for m in p.t:
        d = {a: e for a, e in m if _ATOMS[a].pos and (_ATOMS[a].invertible or _ATOMS[a].kind == "Inv")}
        if common is None:
            common = d
        else:
            common = {a: (min(e, d[a]) if e > 0 else max(e, d[a])) for a, e in common.items()
                      if a in d and (e > 0) == (d[a] > 0)}
        if not common:
            return None
    return tuple(sorted(common.items())) if common else None


def _lg_atom(u):
    return P.of_atom(_mk("Lg", (u.key(),), args=(u,)))


def atan2(y, x):
    y, x = to_P(y), to_P(x)
    if not y.t and is_pos(x):
        return ZERO
    return P.of_atom(_mk("At", (y.key(), x.key()), args=(y, x)))


def softplus(p):
    return log(ONE + exp(p))


def sigmoid(p):
    e = exp(p)
    return e * inv(ONE + e)


def conj(p):
    p = to_P(p)
    t = {}
    for m, c in p.t.items():
        mm = []
        sgn = 1
        for a, e in m:
            at = _ATOMS[a]
            if a == 0:
                if e % 2:
                    sgn = -sgn
                mm.append((a, e))
            elif at.kind == "ch":
                mm.append((a, -e))
            elif at.real:
                mm.append((a, e))
            elif at.kind == "Inv":
                ca = _inv_atom(conj(at.args[0]))
                mm.append((ca.id, e))
            elif at.kind == "UF":
                ca = _mk("UF", ("conj(%s)" % at.key[1], "complex"), real=False, name="conj(%s)" % at.name)
                mm.append((ca.id, e))
            else:
                raise Unmodelled("conj of atom %s" % at.name)
        mm.sort()
        mm = tuple(mm)
        v = c * sgn
        s = t.get(mm)
        if s is None:
            t[mm] = v
        else:
            s = _norm_c(s + v)
            if s == 0:
                del t[mm]
            else:
                t[mm] = s
    return P(t)


def re(p):
    p = to_P(p)
    if is_real(p):
        return p
    return (p + conj(p)) / 2


def im(p):
    p = to_P(p)
    if is_real(p):
        return ZERO
    return (p - conj(p)) * (-I) / 2


# --------------------------------------------------------------------------
# zero test
# --------------------------------------------------------------------------
def _inv_atoms_in(p):
    best = {}
    for m in p.t:
        for a, e in m:
            if _ATOMS[a].kind == "Inv" and e > best.get(a, 0):
                best[a] = e
    return best


def _depth(at, memo={}):
    d = memo.get(at.id)
    if d is None:
        d = 0
        for q in at.args:
            if isinstance(q, P):
                for b in q.atoms():
                    d = max(d, 1 + _depth(_ATOMS[b]))
        memo[at.id] = d
    return d


def clear_inv(p, positive_only=False, limit=30000, max_arg_terms=None):
    """Multiply p by u^k for every Inv(u) atom occurring with maximal power k and
    rewrite Inv(u)^j u^k -> u^(k-j).  The result has no Inv atoms and is zero iff
    p is (u != 0 is the side condition of the atom).  With positive_only the
    multipliers must be syntactically positive (sign preserving); returns None if
    one is not."""
    for _ in range(64):
        best = _inv_atoms_in(p)
        if max_arg_terms is not None:
            best = {x: k for x, k in best.items() if len(_ATOMS[x].args[0].t) <= max_arg_terms}
        if not best:
            return p
        a = max(best, key=lambda x: _depth(_ATOMS[x]))
        k = best[a]
        at = _ATOMS[a]
        u = at.args[0]
        if positive_only and not at.pos:
            return None
        pw = [ONE]
        for _j in range(k):
            pw.append(pw[-1] * u)
        groups = {}
        for m, c in p.t.items():
            j = 0
            mm = []
            for b, e in m:
                if b == a:
                    j = e
                else:
                    mm.append((b, e))
            groups.setdefault(j, {})[tuple(mm)] = c
        out = ZERO
        for j, t in groups.items():
            out = out + P(t) * pw[k - j]
            if len(out.t) > limit:
                raise Unmodelled("term blow-up while clearing denominators")
        p = out
    raise Unmodelled("clear_inv did not terminate")


def _split_by(p, a):
    groups = {}
    for m, c in p.t.items():
        j = 0
        mm = []
        for b, e in m:
            if b == a:
                j = e
            else:
                mm.append((b, e))
        groups.setdefault(j, {})[tuple(mm)] = c
    return groups


def clear_rneg(p):
    """Multiply by sqrt(u) for every R atom occurring with exponent -1 (sqrt(u) != 0 generic), so that
    R^-1 * R -> 1 and R * R -> u; zero-equivalent, removes the R^-1 / R*Inv(u) ambiguity."""
    for _ in range(64):
        neg = None
        for m in p.t:
            for a, e in m:
                if e < 0 and _ATOMS[a].kind == "R":
                    neg = a
                    break
            if neg is not None:
                break
        if neg is None:
            return p
        p = p * P.of_atom(_ATOMS[neg])
    raise Unmodelled("clear_rneg did not terminate")


def _zero_indep(p, depth=0):
    """Sufficient test: treat the deepest Inv atom as an independent symbol; every
    coefficient of its powers must vanish (recursively).  Sound for proving zero."""
    if not p.t:
        return True
    best = _inv_atoms_in(p)
    if not best:
        return not clear_rneg(p).t
    if depth > 12:
        return False
    # split on the Inv atom with the largest argument (the "big" denominators first)
    a = max(best, key=lambda x: (len(_ATOMS[x].args[0].t), _depth(_ATOMS[x])))
    groups = _split_by(p, a)
    if len(groups) == 1 and 0 not in groups:
        (j, t), = groups.items()
        return _zero_indep(P(t), depth + 1)
    for j, t in groups.items():
        q = P(t)
        if not q.t:
            continue
        if not _zero_indep(q, depth + 1):
            return False
    return True


import os as _os
_CLEAR_LIMIT = int(_os.environ.get("VF_CLEAR_LIMIT", "30000"))


def is_zero(p, limit=None):
    """True if p is identically zero modulo the atom relations; False if its
    cleared normal form is a non-zero polynomial (caller should confirm
    numerically before reporting anything)."""
    limit = limit or int(_os.environ.get("VF_CLEAR_LIMIT", "60000"))
    if not p.t:
        return True
    if not _inv_atoms_in(p):
        return not clear_rneg(p).t
    try:
        if _zero_indep(p):
            return True
    except Unmodelled:
        pass
    # small denominators first: clear the Inv atoms with small arguments, then retry the split
    q = clear_inv(p, limit=limit, max_arg_terms=4)
    if not q.t:
        return True
    if not _inv_atoms_in(q):
        return not clear_rneg(q).t
    if _inv_atoms_in(q):
        try:
            if _zero_indep(q):
                return True
        except Unmodelled:
            pass
        q = clear_inv(q, limit=limit)
    return not clear_rneg(q).t


def equal(a, b):
    return is_zero(to_P(a) - to_P(b))


# --------------------------------------------------------------------------
# differentiation
# --------------------------------------------------------------------------
def diff(p, x, _memo=None):
    """Exact derivative of p with respect to the par atom `x` (an Atom)."""
    memo = {} if _memo is None else _memo
    out = ZERO
    for m, c in p.t.items():
        for idx, (a, e) in enumerate(m):
            da = _datom(_ATOMS[a], x, memo)
            if not da.t:
                continue
            rest = list(m)
            if e == 1:
                del rest[idx]
            else:
                rest[idx] = (a, e - 1)
            out = out + P({tuple(rest): c * e}) * da
    return out


def _datom(at, x, memo):
    r = memo.get(at.id)
    if r is not None:
        return r
    k = at.kind
    if k == "par":
        r = ONE if at is x else ZERO
    elif k in ("i",):
        r = ZERO
    elif k == "eh":
        r = _datom(at.args[0], x, memo) * P.of_atom(at) / EXP_DEN
    elif k == "ch":
        r = _datom(at.args[0], x, memo) * P.of_atom(at) * I / EXP_DEN
    elif k == "R":
        du = diff(at.args[0], x, memo)
        r = ZERO if not du.t else du * inv(P.of_atom(at)) / 2
    elif k == "Lg":
        du = diff(at.args[0], x, memo)
        r = ZERO if not du.t else du * inv(at.args[0])
    elif k == "Inv":
        du = diff(at.args[0], x, memo)
        r = ZERO if not du.t else -du * P.of_atom(at, 2)
    elif k == "At":
        y, xx = at.args
        dy, dx = diff(y, x, memo), diff(xx, x, memo)
        r = ZERO if not (dy.t or dx.t) else (xx * dy - y * dx) * inv(xx * xx + y * y)
    elif k == "UF":
        r = ZERO
    elif k == "Abs":
        du = diff(at.args[0], x, memo)
        if du.t:
            raise Unmodelled("derivative of |u|")
        r = ZERO
    elif k == "Cl":
        du = diff(at.args[0], x, memo)
        if du.t:
            raise Unmodelled("derivative of a clamped value")
        r = ZERO
    elif k == "Cast":
        du = diff(at.args[0], x, memo)
        if du.t:
            raise Unmodelled("derivative of a value cast to another element type")
        r = ZERO
    else:
        raise Unmodelled("derivative of atom kind %s" % k)
    memo[at.id] = r
    return r


# --------------------------------------------------------------------------
# numeric evaluation (for witnesses and cross-checks)
# --------------------------------------------------------------------------
def evalf(p, env, _cache=None):
    """Evaluate with python floats/complex.  env maps par / UF atom *names* to numbers."""
    cache = {} if _cache is None else _cache
    tot = 0.0
    for m, c in p.t.items():
        v = float(c) if not isinstance(c, int) or abs(c) < 2 ** 900 else float(Fr(c))
        for a, e in m:
            v = v * _evatom(_ATOMS[a], env, cache) ** e
        tot = tot + v
    return tot


def _evatom(at, env, cache):
    r = cache.get(at.id)
    if r is not None:
        return r
    k = at.kind
    if k == "i":
        r = 1j
    elif k in ("par", "UF"):
        r = CONST_VALUES[at.key[1]] if at.key[1] in CONST_VALUES else env[at.key[1]]
    elif k == "eh":
        r = math.exp(_evatom(at.args[0], env, cache).real / EXP_DEN) if isinstance(_evatom(at.args[0], env, cache), complex) \
            else math.exp(_evatom(at.args[0], env, cache) / EXP_DEN)
    elif k == "ch":
        g = _evatom(at.args[0], env, cache)
        r = cmath.exp(1j * g / EXP_DEN)
    elif k == "R":
        u = evalf(at.args[0], env, cache)
        u = u.real if isinstance(u, complex) else u
        r = math.sqrt(max(u, 0.0))
    elif k == "Lg":
        u = evalf(at.args[0], env, cache)
        u = u.real if isinstance(u, complex) else u
        r = math.log(u) if u != 0 else float("-inf")      # what the real code computes (torch.log(0) = -inf)
    elif k == "Inv":
        r = 1.0 / evalf(at.args[0], env, cache)
    elif k == "At":
        y = evalf(at.args[0], env, cache)
        x = evalf(at.args[1], env, cache)
        y = y.real if isinstance(y, complex) else y
        x = x.real if isinstance(x, complex) else x
        r = math.atan2(y, x)
    elif k == "Abs":
        r = abs(evalf(at.args[0], env, cache))
    elif k == "Cast":
        r = evalf(at.args[0], env, cache)
        r = r.real if isinstance(r, complex) else r
        if at.args[1] == "int":
            r = float(math.trunc(r)) if r == r and abs(r) != float("inf") else r
        elif at.args[1] == "bool":
            r = 1.0 if r != 0 else 0.0
        elif at.args[1] == "rnd":
            r = float(round(r)) if r == r and abs(r) != float("inf") else r
        elif at.args[1] == "id":
            pass
        else:
            import numpy as _np
            r = float(_np.float32(r))
    elif k == "Cl":
        r = evalf(at.args[0], env, cache)
        r = r.real if isinstance(r, complex) else r
        if at.args[1] is not None:
            r = max(r, float(at.args[1]))
        if at.args[2] is not None:
            r = min(r, float(at.args[2]))
    else:
        raise Unmodelled("evalf of %s" % k)
    cache[at.id] = r
    return r


def free_names(p):
    """Names of par / UF atoms p depends on (deep)."""
    out = set()
    for a in p.atoms(deep=True):
        at = _ATOMS[a]
        if at.kind in ("par", "UF"):
            out.add(at.key[1])
        elif at.kind in ("eh", "ch"):
            g = at.args[0]
            if g.kind in ("par", "UF"):
                out.add(g.key[1])
            else:
                for q in g.args:
                    if isinstance(q, P):
                        out |= free_names(q)
    return out
