"""C13 — streaming observable statistics equal the statistics of all drawn samples (front end A)."""
import z3

from qv import astvc as A
from qv.astvc import VC, AND, OR, NOT, ITE, IMPLIES, SymReal, SymNpReal, SymInt

LEVEL = "proof"
MANIFEST = {
    "engine": "qv-astvc+qv-gen",
    "category": "proof",
    "technique": "contracts on _update_statistics (real arithmetic, NaN-aware), ObservableBase.statistics / System.statistics (loop invariants with ghost chain and accumulator tokens), statistics_from_samples, ObservableBase.sample; sources recompiled in a sandbox with Hoare cut points; obligations discharged by z3 (nlsat for the merge identity)",
    "text": "_update_statistics is proved to map the mean / unbiased variance / count of two chunks (given through their sums S, Q) to those of their concatenation for all real values and all lengths (including an empty accumulator and single-sample chunks whose variance is NaN), without ZeroDivisionError. The loops of ObservableBase.statistics and System.statistics are cut with an invariant over ghost state: after i draws the running triple is the accumulator token produced by merging chunks 0..i-1 in order, the count is i*num_chains, draw i used k = burn_in if i == 0 else steps with overwrite=True on the chain object returned by draw i-1 (the caller's chains are cloned unless overwrite was requested). Post: num_samples = ceil(ns/nc)*nc >= ns, std_error = sqrt(variance/num_samples); with several observables each gets exactly the merge sequence it would get alone on the same chain objects.",
    "note": "mathematical integers and reals; NaN modelled as an `undefined` flag that propagates through arithmetic; torch.var_mean's contract (mean, unbiased variance, NaN for one sample) is assumed and conformance-sampled by the bounded driver; user observables only read the chains",
}
EXPLANATION = "merge identity over sums (S, Q) as plain reals; loop proofs use accumulator tokens so that the arithmetic stays in _update_statistics' own contract"
TRUSTED = ["torch.var_mean returns the mean and the unbiased variance (NaN for a single sample)", "nn_state.sample returns a chain object holding num_samples rows (C05)"]


def configs(tier):
    return [{"part": "merge"}, {"part": "statistics"}, {"part": "system"}, {"part": "from_samples"}, {"generic": "every shape"}]


def canaries(tier):
    return [({"part": "merge"}, "spec-biased-variance"), ({"part": "statistics"}, "spec-burn-in-every-draw")]


def run_config(ctx, cfg):
    if cfg.get("generic"):
        from contracts import gsets
        return gsets.run(ctx, "C13")
    return {"merge": _merge, "statistics": _statistics, "system": _system, "from_samples": _from_samples}[cfg["part"]](ctx, cfg)


# ------------------------------------------------------------------------------ _update_statistics
def _grad_mode():
    import torch
    return torch.is_grad_enabled()


def _chunk(vc, tag, n):
    """Symbolic chunk of n (real-sorted, n in {0,1} or >= 2) samples with sum S and sum of squares Q:
    returns (mean, variance, S, Q) with variance NaN when n == 1."""
    S, Q = vc.fresh_real("S" + tag), vc.fresh_real("Q" + tag)
    m, v = vc.fresh_real("avg" + tag), vc.fresh_real("var" + tag)
    vc.assume(IMPLIES(n == 0, AND(m == 0, v == 0, S == 0, Q == 0)))
    vc.assume(IMPLIES(n >= 1, m * n == S))
    vc.assume(IMPLIES(n >= 2, v * (n - 1) * n == Q * n - S * S))
    vc.assume(IMPLIES(n == 1, Q == S * S))            # one sample x: S = x, Q = x^2
    vc.assume(IMPLIES(n >= 1, Q * n >= S * S))        # sums of real data (Cauchy-Schwarz)
    return m, SymNpReal(v.e, (n == 1).e, np_=False), S, Q


def _merge(ctx, cfg):
    from qucumber.observables.utils import _update_statistics
    canary = getattr(ctx, "canary", None)
    vc = VC(ctx)
    f, rew = A.load(_update_statistics, None, vc, name="_update_statistics")
    ctx.rewritten = rew
    ctx.under_contract("observables.utils._update_statistics")

    def run():
        # lengths are lifted to reals restricted to {0, 1} U [2, oo): a superset of the naturals
        na, nb = vc.fresh_real("len_a"), vc.fresh_real("len_b")
        vc.assume(OR(na == 0, na == 1, na >= 2))
        vc.assume(OR(nb == 1, nb >= 2))                 # every call site merges a non-empty chunk (num_chains >= 1)
        ma, va, Sa, Qa = _chunk(vc, "a", na)
        mb, vb, Sb, Qb = _chunk(vc, "b", nb)
        vc.witness_terms = {"len_a": na.e, "len_b": nb.e, "avg_a": ma.e, "var_a": va.e, "avg_b": mb.e, "var_b": vb.e}
        nm, nv, nl = f(ma, va, na, mb, vb, nb)
        n = na + nb
        vc.check("_update_statistics/count == len_a + len_b", nl == n)
        vc.check("_update_statistics/mean == (S_a + S_b) / n", nm * n == Sa + Sb)
        vc.check("_update_statistics/mean is a number", NOT(getattr(nm, "undef", False)) if getattr(nm, "undef", None) is not None else True)
        if canary == "spec-biased-variance":
            vc.check("_update_statistics/variance == unbiased variance of the concatenation", nv * n * n == (Qa + Qb) * n - (Sa + Sb) * (Sa + Sb))
        else:
            vc.check("_update_statistics/variance == unbiased variance of the concatenation", IMPLIES(n >= 2, nv * (n - 1) * n == (Qa + Qb) * n - (Sa + Sb) * (Sa + Sb)))
        vc.check("_update_statistics/variance >= 0 whenever n >= 2", IMPLIES(n >= 2, nv >= 0))
        und = getattr(nv, "undef", None)
        vc.check("_update_statistics/variance is a number whenever n >= 2 (no NaN poisoning by single-sample chunks)",
                 IMPLIES(n >= 2, NOT(A.SymBool(und))) if und is not None else True)
    vc.explore(run, "_update_statistics")

    def run0():
        r = f(vc.fresh_real("x"), vc.fresh_real("y"), 0, vc.fresh_real("z"), vc.fresh_real("w"), 0)
        vc.check("_update_statistics/both empty -> (0.0, 0.0, 0)", r == (0.0, 0.0, 0))
    vc.explore(run0, "_update_statistics empty")
    vc.flush()
    ctx.holds("exploration/paths > 0", vc.paths > 0)


# ------------------------------------------------------------------------------ ghosts for the loops
class Chain:
    """A chain tensor stand-in: identity matters, rows = number of parallel chains."""

    def __init__(self, rows, tag):
        self.rows, self.tag, self.cloned_from = rows, tag, None

    def sym_len(self):
        return self.rows

    def clone(self):
        c = Chain(self.rows, self.tag + "'")
        c.cloned_from = self
        return c


class World:
    def __init__(self, vc, burn_in, steps, canary=None):
        self.vc, self.burn_in, self.steps, self.canary = vc, burn_in, steps, canary
        self.current = None          # chain object the next draw must start from (None: fresh random start)
        self.draws = 0               # number of draws so far (symbolic after havoc)
        self.nc = None
        self.last_drawn = None

    def sample(self, k=None, num_samples=1, initial_state=None, overwrite=False):
        vc = self.vc
        want_k = ITE(self.draws == 0, self.burn_in, self.steps) if isinstance(self.draws, A.Sym) else (self.burn_in if self.draws == 0 else self.steps)
        if self.canary == "spec-burn-in-every-draw":
            want_k = self.burn_in
        vc.check("draw/k == burn_in for the first draw, steps afterwards", k == want_k)
        vc.check("draw/continues the chain object returned by the previous draw (or the prepared start)", initial_state is self.current)
        vc.check("draw/overwrite=True (chains continue in place)", overwrite is True)
        vc.check("draw/num_samples == number of chains", num_samples == self.nc)
        new = Chain(self.nc, "draw")
        self.current = new
        self.last_drawn = new
        self.draws = self.draws + 1
        return new


    # The state's sampler is its public sample() method (a user's state class may override it): chains advanced behind
    # its back - through the networks' own Gibbs routines - are not draws of that sampler.
    @property
    def rbm_am(self):
        return _Bypass(self)

    rbm_ph = rbm_am


class _Bypass:
    def __init__(self, w):
        self.w = w

    def gibbs_steps(self, k, initial_state, overwrite=False, **kw):
        w = self.w
        w.vc.check("draw/every draw goes through the state's public sample()", False, "the chains were advanced by rbm.gibbs_steps directly")
        new = Chain(w.nc, "bypass")
        w.current = new
        w.last_drawn = new
        w.draws = w.draws + 1
        return new


class Acc:
    """Accumulator token: (mean, var, len) objects that are, by _update_statistics' contract, the one-pass
    statistics of the chunks merged so far."""

    def __init__(self, mean, var, length, merged):
        self.mean, self.var, self.len, self.merged = mean, var, length, merged


def _mk_update_stub(vc, accs, which, nc_of):
    """Contract stub of _update_statistics for the loop proofs."""
    def stub(avg_a, var_a, len_a, avg_b, var_b, len_b):
        key = which(avg_b)
        acc = accs[key]
        first = acc.merged == 0
        if isinstance(first, A.Sym):
            ok_id = avg_a is acc.mean and var_a is acc.var
        else:
            ok_id = (avg_a is acc.mean and var_a is acc.var) or (first and avg_a == 0.0 and var_a == 0.0)
        vc.check("merge/accumulator arguments are the running triple [%s]" % key, ok_id)
        vc.check("merge/len_a is the running count [%s]" % key, len_a == acc.len)
        vc.check("merge/len_b == number of chains [%s]" % key, len_b == nc_of())
        ch = acc.pending
        vc.check("merge/chunk arguments are this draw's statistics [%s]" % key, ch is not None and avg_b is ch["mean"] and var_b is ch["variance"])
        acc.pending = None
        nm, nv = vc.fresh_real("mean"), vc.fresh_real("var")
        vc.assume(nv >= 0)           # _update_statistics' contract: the merged variance of real data is >= 0 (proved in part=merge)
        newlen = len_a + len_b
        accs[key] = Acc(nm, nv, newlen, acc.merged + 1)
        accs[key].pending = None
        return nm, nv, newlen
    return stub


# ------------------------------------------------------------------------------ ObservableBase.statistics
def _statistics(ctx, cfg):
    from qucumber.observables.observable import ObservableBase
    canary = getattr(ctx, "canary", None)
    vc = VC(ctx)
    ctx.under_contract("ObservableBase.statistics", "ObservableBase.sample")
    ctx.stub("nn_state.sample", "statistics_from_samples", "_update_statistics")
    box = {}

    def roles():
        w, acc = box["w"], box["accs"]["obs"]
        return {"mean": acc.mean, "var": acc.var, "len": acc.len, "chain": w.current}

    def fresh(i, n):
        w = box["w"]
        w.draws = i
        ch = Chain(w.nc, "chain@i")
        w.current = ch
        m, v = vc.fresh_real("rm"), vc.fresh_real("rv")
        a = Acc(m, v, i * w.nc, i)
        a.pending = None
        box["accs"]["obs"] = a
        return {"mean": m, "var": v, "len": i * w.nc, "chain": ch}

    def entry(vals):
        w = box["w"]
        ch, user, ow = vals.get("chain"), box.get("user"), box.get("overwrite")
        if user is None:
            start_ok = ch is None
        elif ow:
            start_ok = ch is user
        else:
            start_ok = isinstance(ch, Chain) and ch.cloned_from is user and ch is not user
        w.current = ch
        return [("running mean, variance and count start at 0", vals.get("mean") == 0.0 and vals.get("var") == 0.0 and vals.get("len") == 0),
                ("start: caller's chains are cloned unless overwrite=True; default start is None", start_ok)]

    def clauses(i, n):
        w, acc = box["w"], box["accs"]["obs"]
        return [("draws so far == i", w.draws == i),
                ("accumulator has merged i chunks", acc.merged == i),
                ("running count == i * num_chains", acc.len == i * w.nc),
                ("running variance >= 0", acc.var >= 0),
                ("empty accumulator is (0, 0)", IMPLIES(i == 0, AND(acc.mean == 0, acc.var == 0)) if isinstance(i, A.Sym) else True)]
    spec = A.RoleLoopSpec(roles, fresh, entry, clauses, "draw loop", value_roles=("len",))
    spec.optional_roles = ("chain",)
    f, rew = A.load(ObservableBase.statistics, {0: spec}, vc, name="ObservableBase.statistics")
    ctx.rewritten = rew

    for form in ("default-start", "initial_state overwrite=False", "initial_state overwrite=True"):
        def run(form=form, defaults=False):
            ns = vc.fresh_int("num_samples", 1)
            nch = vc.fresh_int("num_chains", 0)
            burn, steps = vc.fresh_int("burn_in", 0), vc.fresh_int("steps", 0)
            vc.witness_terms = {"num_samples": ns.e, "num_chains": nch.e, "burn_in": burn.e, "steps": steps.e}
            if defaults:
                burn, steps = 1000, 1          # the documented defaults, whatever else is passed
            w = World(vc, burn, steps, canary)
            box["w"] = w
            acc0 = Acc(0.0, 0.0, 0, 0)
            acc0.pending = None
            box["accs"] = {"obs": acc0}
            user = None
            if form == "default-start":
                nc = ITE(nch != 0, ITE(nch < ns, nch, ns), ns)
                w.current = None
                kw = {}
            else:
                rows = vc.fresh_int("rows", 1)
                user = Chain(rows, "user")
                nc = rows
                kw = {"initial_state": user, "overwrite": form.endswith("True")}
            w.nc = nc

            class Obs:
                def statistics_from_samples(self, nn_state, samples):
                    vc.check("chunk/statistics are taken of the chains just drawn", samples is w.last_drawn)
                    vc.check("chunk/the observable is evaluated in the caller's autograd mode (an estimator may differentiate)", _grad_mode() is True)
                    d = {"mean": vc.fresh_real("cm"), "variance": vc.fresh_real("cv"), "std_error": None, "num_samples": w.nc}
                    box["accs"]["obs"].pending = d
                    return d
            obs = Obs()
            box["user"], box["overwrite"] = user, kw.get("overwrite")
            f.__globals__["_update_statistics"] = _mk_update_stub(vc, box["accs"], lambda avg_b: "obs", lambda: w.nc)
            res = f(obs, w, ns, num_chains=nch, **kw) if defaults else f(obs, w, ns, num_chains=nch, burn_in=burn, steps=steps, **kw)
            acc = box["accs"]["obs"]
            T = (ns + nc - 1) // nc
            vc.check("post/num_samples == ceil(ns / nc) * nc", res["num_samples"] == T * nc)
            vc.check("post/num_samples >= requested", res["num_samples"] >= ns)
            vc.check("post/number of draws == ceil(ns / nc) >= 1", AND(w.draws == T, T >= 1))
            vc.check("post/mean and variance are the accumulator of all chunks", res["mean"] is acc.mean and res["variance"] is acc.var)
            vc.check("post/all chunks merged", acc.merged == T)
            se = res["std_error"]
            vc.check("post/std_error^2 * num_samples == variance", se * se * res["num_samples"] == res["variance"])
        spec.template = None
        vc.discover(run)
        ctx.holds("statistics/loop-carried state found (mean, variance, count, chains) [%s]" % form,
                  spec.template is not None and {"mean", "var", "len", "chain"} <= {r for t in spec.template.values() for r, _v, _p in A._tmpl_walk(t, None)},
                  str(spec.template))
        vc.explore(run, "statistics " + form)
        vc.explore(lambda run=run: run(defaults=True), "statistics with burn_in and steps left at their defaults (1000, 1), " + form)
    vc.flush()
    ctx.holds("exploration/paths > 0", vc.paths > 0)
    # ObservableBase.sample: pass-through contract
    g, _r = A.load(ObservableBase.sample, None, vc, name="ObservableBase.sample")
    log = []

    class St:
        def sample(self, **k):
            log.append(k)
            return "CHAINS"

    class O2:
        def apply(self, nn_state, samples):
            log.append(("apply", samples))
            return "VALUES"
    st_ = St()
    r = g(O2(), st_, 7, num_samples=3, initial_state="S0", overwrite=True)
    ctx.holds("ObservableBase.sample == apply(nn_state.sample(k, num_samples, initial_state, overwrite))",
              r == "VALUES" and log == [{"k": 7, "num_samples": 3, "initial_state": "S0", "overwrite": True}, ("apply", "CHAINS")], str(log))


# ------------------------------------------------------------------------------ System.statistics
def _system(ctx, cfg):
    from qucumber.observables.system import System
    vc = VC(ctx)
    ctx.under_contract("System.statistics", "System.statistics_from_samples", "System.__init__")
    ctx.stub("nn_state.sample", "obs.statistics_from_samples", "_update_statistics")
    box = {}
    names = ["A", "B"]

    def roles():
        w, accs = box["w"], box["accs"]
        r = {"len": accs[names[0]].len, "chain": w.current}
        for nm in names:
            r["mean:" + nm], r["var:" + nm] = accs[nm].mean, accs[nm].var
        return r

    def fresh(i, n):
        w, accs = box["w"], box["accs"]
        w.draws = i
        ch = Chain(w.nc, "chain@i")
        w.current = ch
        tok = {"len": i * w.nc, "chain": ch}
        for nm in names:
            m, v = vc.fresh_real("rm" + nm), vc.fresh_real("rv" + nm)
            a = Acc(m, v, i * w.nc, i)
            a.pending = None
            accs[nm] = a
            tok["mean:" + nm], tok["var:" + nm] = m, v
        return tok

    def entry(vals):
        w = box["w"]
        w.current = vals.get("chain")
        ok = vals.get("len") == 0 and all(vals.get("mean:" + nm) == 0.0 and vals.get("var:" + nm) == 0.0 for nm in names)
        ch, user, ow = vals.get("chain"), box.get("user"), box.get("overwrite")
        if user is None:
            start_ok = ch is None
        elif ow:
            start_ok = ch is user
        else:
            start_ok = isinstance(ch, Chain) and ch.cloned_from is user and ch is not user
        return [("every observable's running mean / variance and the shared count start at 0", ok),
                ("start: caller's chains are cloned unless overwrite=True; default start is None", start_ok)]

    def clauses(i, n):
        w, accs = box["w"], box["accs"]
        out = [("draws so far == i", w.draws == i)]
        for nm in names:
            acc = accs[nm]
            out += [("accumulator of %s has merged i chunks" % nm, acc.merged == i),
                    ("count of %s == i * num_chains" % nm, acc.len == i * w.nc),
                    ("running variance of %s >= 0" % nm, acc.var >= 0),
                    ("empty accumulator of %s is (0, 0)" % nm, IMPLIES(i == 0, AND(acc.mean == 0, acc.var == 0)) if isinstance(i, A.Sym) else True)]
        return out
    spec = A.RoleLoopSpec(roles, fresh, entry, clauses, "draw loop", value_roles=("len",))
    spec.optional_roles = ("chain",)
    f, rew = A.load(System.statistics, {0: spec}, vc, name="System.statistics")
    ctx.rewritten = rew

    def run(form="default-start", defaults=False):
        ns = vc.fresh_int("num_samples", 1)
        nch = vc.fresh_int("num_chains", 0)
        burn, steps = vc.fresh_int("burn_in", 0), vc.fresh_int("steps", 0)
        if defaults:
            burn, steps = 1000, 1          # the documented defaults, whatever else is passed
        w = World(vc, burn, steps)
        box["w"] = w
        if form == "default-start":
            nc = ITE(nch != 0, ITE(nch < ns, nch, ns), ns)
            kw = {}
            box["user"], box["overwrite"] = None, None
        else:
            rows = vc.fresh_int("rows", 1)
            user = Chain(rows, "user")
            nc = rows
            kw = {"initial_state": user, "overwrite": form.endswith("True")}
            box["user"], box["overwrite"] = user, kw["overwrite"]
        w.nc = nc
        accs = {}
        for nm in names:
            a = Acc(0.0, 0.0, 0, 0)
            a.pending = None
            accs[nm] = a
        box["accs"] = accs
        owner = {}

        class Obs:
            def __init__(self, nm):
                self.name = nm

            def statistics_from_samples(self, nn_state, samples):
                vc.check("chunk/each observable evaluates the chains just drawn (same objects as alone)", samples is w.last_drawn)
                vc.check("chunk/each observable is evaluated in the caller's autograd mode, as alone (an estimator may differentiate)", _grad_mode() is True)
                d = {"mean": vc.fresh_real("cm" + self.name), "variance": vc.fresh_real("cv" + self.name)}
                owner[id(d["mean"])] = self.name
                accs[self.name].pending = d
                return d
        system = System(Obs("A"), Obs("B"))
        f.__globals__["_update_statistics"] = _mk_update_stub(vc, accs, lambda avg_b: owner.get(id(avg_b), "?"), lambda: w.nc)
        res = f(system, w, ns, num_chains=nch, **kw) if defaults else f(system, w, ns, num_chains=nch, burn_in=burn, steps=steps, **kw)
        T = (ns + nc - 1) // nc
        for nm in names:
            acc = accs[nm]
            vc.check("post/%s: mean and variance are its own accumulator over all chunks" % nm, res[nm]["mean"] is acc.mean and res[nm]["variance"] is acc.var)
            vc.check("post/%s: all chunks merged" % nm, acc.merged == T)
            vc.check("post/%s: num_samples == ceil(ns / nc) * nc" % nm, res[nm]["num_samples"] == T * nc)
            se = res[nm]["std_error"]
            vc.check("post/%s: std_error^2 * num_samples == variance" % nm, se * se * res[nm]["num_samples"] == res[nm]["variance"])
        vc.check("post/number of draws == ceil(ns / nc): one chain shared by all observables", w.draws == T)
        vc.check("post/result has exactly the observables' names", sorted(res.keys()) == names)
    vc.discover(run)
    ctx.holds("System.statistics/loop-carried state found (per-observable mean / variance, count, chains)",
              spec.template is not None and {"len", "chain", "mean:A", "var:B"} <= {r for t in spec.template.values() for r, _v, _p in A._tmpl_walk(t, None)}, str(spec.template))
    vc.explore(run, "System.statistics")
    for form in ("initial_state overwrite=False", "initial_state overwrite=True"):
        vc.explore(lambda form=form: run(form), "System.statistics " + form)
    for form in ("default-start", "initial_state overwrite=False", "initial_state overwrite=True"):
        vc.explore(lambda form=form: run(form, defaults=True), "System.statistics with burn_in and steps left at their defaults (1000, 1), " + form)
    vc.flush()
    ctx.holds("exploration/paths > 0", vc.paths > 0)
    # System.statistics_from_samples: per observable, unchanged
    class O:
        def __init__(self, nm):
            self.name = nm

        def statistics_from_samples(self, st, s):
            return (self.name, st, s)
    sy = System(O("x"), O("y"))
    ctx.holds("System.statistics_from_samples == {name: obs.statistics_from_samples(state, samples)}",
              sy.statistics_from_samples("S", "X") == {"x": ("x", "S", "X"), "y": ("y", "S", "X")})


# ------------------------------------------------------------------------------ statistics_from_samples
def _from_samples(ctx, cfg):
    """One-pass statistics of a chunk: decided on the real method with symbolic per-sample values (front end N)."""
    import numpy as np
    import torch
    from qv import alg, symtensor as st, native as _N      # native installs the z3 non-negativity oracle
    from qucumber.observables.observable import ObservableBase
    ctx.under_contract("ObservableBase.statistics_from_samples")

    class Obs(ObservableBase):
        def apply(self, nn_state, samples):       # the value of a row is its single entry
            return samples[:, 0]
    for n in (2, 3, 5):
        x2 = st.fresh((n, 1), "x")
        x = x2[:, 0]
        r = Obs().statistics_from_samples(None, x2)
        S = sum(x._arr, alg.ZERO)
        Q = sum((v * v for v in x._arr), alg.ZERO)
        mean = r["mean"].p if isinstance(r["mean"], st.SymFloat) else alg.to_P(r["mean"])
        var = r["variance"].p if isinstance(r["variance"], st.SymFloat) else alg.to_P(r["variance"])
        ctx.eq("statistics_from_samples/mean == S/n[n=%d]" % n, mean * n, S)
        ctx.eq("statistics_from_samples/variance == (Q - S^2/n)/(n-1)[n=%d]" % n, var * (n - 1) * n, Q * n - S * S)
        ctx.holds("statistics_from_samples/num_samples[n=%d]" % n, r["num_samples"] == n)
        se = r["std_error"]
        se = se.p if isinstance(se, st.SymFloat) else alg.to_P(se)
        ctx.eq("statistics_from_samples/std_error^2 * n == variance[n=%d]" % n, se * se * n, var, z3_confirm=False)
        ctx.holds("statistics_from_samples/returns python floats[n=%d]" % n, isinstance(r["mean"], float) and isinstance(r["variance"], float))
    # evaluating (composite) observables never modifies the chain states they are given: several observables on the same
    # chains each see what they would see alone
    from lemmas import C16
    C16.frames(ctx, "chains/")


def replay(o):
    if o["cfg"].get("generic"):
        from contracts import gsets
        return gsets.replay("C13", o)
    from drivers import C13 as D
    return D.replay(o["cfg"], (o.get("witness") or {}).get("model") or {}, o.get("short") or "")
