"""Obligation store and the comparison / witness / replay helpers shared by all lemmas."""
import hashlib
import json
import math
import os
import random
import time
import traceback

import numpy as np

from . import alg, solve
from . import symtensor as st

VERIF = os.path.dirname(os.path.dirname(os.path.abspath(__file__)))

DISCHARGED, VIOLATED, UNDECIDED = "discharged", "violated", "undecided"


class Ctx:
    """Collects obligations of one configuration of one property."""

    def __init__(self, prop, tier, seed, cfg=None):
        self.prop = prop
        self.tier = tier
        self.seed = seed
        self.cfg = cfg
        self.cfg_name = cfg_name(cfg)
        self.obls = []
        self.functions = set()
        self.stubs = set()
        self.bounded = []
        self.assumed = set()
        self.t_nf = 0.0
        self.rng = random.Random(seed)
        self.z3_confirm_budget = 40 if tier == "quick" else 200
        self.z3_confirmed = 0
        self.z3_confirm_unknown = 0

    # ------------------------------------------------------------------ recording
    def _rec(self, name, status, backend, seconds=0.0, detail=None, witness=None, clause=None):
        r = {"name": "%s/%s[%s]" % (self.prop, name, self.cfg_name), "status": status, "backend": backend,
             "s": round(seconds, 5)}
        if detail is not None:
            r["detail"] = detail if isinstance(detail, str) else detail
        if witness is not None:
            r["witness"] = witness
        if clause:
            r["clause"] = clause
        r["cfg"] = self.cfg
        r["short"] = name
        self.obls.append(r)
        return status == DISCHARGED

    def under_contract(self, *names):
        self.functions.update(names)

    def stub(self, *names):
        self.stubs.update(names)

    # ------------------------------------------------------------------ structural facts
    def holds(self, name, cond, detail=None, witness=None):
        """A fact decided by direct evaluation on the symbolic run (shape, identity
        of objects, python type, raised exception...).  It is path-independent of
        parameter values because no value ever reaches control flow (guarded)."""
        return self._rec(name, DISCHARGED if cond else VIOLATED, "structural", 0.0,
                         None if cond else (detail or "structural fact is false"), witness)

    def undecided(self, name, why):
        return self._rec(name, UNDECIDED, "none", 0.0, why)

    # ------------------------------------------------------------------ equalities
    def eq(self, name, lhs, rhs, z3_confirm=True):
        """Obligation lhs == rhs for all admissible values of the atoms."""
        t0 = time.time()
        try:
            lhs, rhs = alg.to_P(lhs), alg.to_P(rhs)
            d = lhs - rhs
            ok = alg.is_zero(d)
        except alg.Unmodelled as e:
            return self._rec(name, UNDECIDED, "normal-form", time.time() - t0, "unmodelled: %s" % e)
        dt = time.time() - t0
        self.t_nf += dt
        if ok:
            be = "normal-form"
            if z3_confirm and self.z3_confirmed + self.z3_confirm_unknown < self.z3_confirm_budget and _small(lhs, rhs):
                try:
                    stt, zdt, _be = solve.prove_zero(d, timeout_ms=5000)
                except Exception:      # export limits are not failures of the obligation
                    stt, zdt = "unknown", 0.0
                if stt == "proved":
                    self.z3_confirmed += 1
                    be = "normal-form+z3"
                elif stt == "refuted":
                    return self._rec(name, UNDECIDED, "normal-form vs z3", dt + zdt,
                                     "normal form says equal, z3 found a model: engine disagreement")
                else:
                    self.z3_confirm_unknown += 1
                dt += zdt
            return self._rec(name, DISCHARGED, be, dt)
        # normal forms differ: look for a numeric witness before claiming anything
        w = find_witness(d, self.rng)
        if w is None:
            return self._rec(name, UNDECIDED, "normal-form", dt,
                             "normal forms differ but no numeric witness found: %s" % d.short(200))
        return self._rec(name, VIOLATED, "normal-form+numeric-witness", dt,
                         {"lhs": lhs.short(300), "rhs": rhs.short(300), "diff_at_witness": repr(w[1])},
                         witness={"env": w[0]})

    def eq_arrays(self, name, A, B, idx_name=None, z3_confirm=True):
        A = _as_obj(A)
        B = _as_obj(B)
        if A.shape != B.shape:
            return self.holds(name + "/shape", False, "shape %s != %s" % (A.shape, B.shape))
        ok = True
        for k in np.ndindex(*A.shape):
            ok &= self.eq("%s%s" % (name, list(k) if k else ""), A[k], B[k], z3_confirm=z3_confirm)
        return ok

    def nonneg(self, name, p):
        t0 = time.time()
        try:
            p = alg.to_P(p)
            if alg.is_nonneg(p):
                return self._rec(name, DISCHARGED, "sign-analysis", time.time() - t0)
            ok = solve.prove_nonneg(p)
        except alg.Unmodelled as e:
            return self._rec(name, UNDECIDED, "z3", time.time() - t0, "unmodelled: %s" % e)
        if ok:
            return self._rec(name, DISCHARGED, "z3", time.time() - t0)
        w = find_witness(p, self.rng, pred=lambda v: (v.real if isinstance(v, complex) else v) < -1e-9)
        if w is None:
            return self._rec(name, UNDECIDED, "z3", time.time() - t0, "not proved non-negative, no witness")
        return self._rec(name, VIOLATED, "z3+numeric-witness", time.time() - t0, {"value": repr(w[1])},
                         witness={"env": w[0]})

    def frame(self, name="frame"):
        v = list(st.FRAME_VIOLATIONS)
        del st.FRAME_VIOLATIONS[:]
        return self._rec(name, DISCHARGED if not v else VIOLATED, "write-log", 0.0,
                         None if not v else "write into frozen storage: %s" % (v[:4],))

    def z3(self, name, assumptions, goal, timeout_ms=None, model_vars=None):
        stt, m, dt, be = solve.prove(assumptions, goal, timeout_ms or solve.DEFAULT_TIMEOUT_MS)
        if stt == "proved":
            return self._rec(name, DISCHARGED, be, dt)
        if stt == "refuted":
            wit = None
            if m is not None:
                wit = {"model": {str(d): str(m[d]) for d in m.decls()}}
            return self._rec(name, VIOLATED, be, dt, "solver model falsifies the obligation", witness=wit)
        return self._rec(name, UNDECIDED, be, dt, "solver returned unknown")

    def guarded(self, name, fn):
        """Run fn (which issues obligations); convert engine limits into `undecided`."""
        try:
            return fn()
        except alg.ValueDependent as e:
            self.undecided(name, "value-dependent control flow: %s" % e)
        except alg.Unmodelled as e:
            self.undecided(name, "unmodelled: %s" % e)
        return None


def _small(a, b):
    return len(a.t) + len(b.t) <= 80


def _as_obj(x):
    if isinstance(x, st.SymTensor):
        return x._arr
    if isinstance(x, np.ndarray) and x.dtype == object:
        return np.asarray(x)
    return st._obj(x)


def cfg_name(cfg):
    if cfg is None:
        return ""
    if isinstance(cfg, dict):
        return " ".join("%s=%s" % (k, _cv(v)) for k, v in cfg.items())
    return str(cfg)


def _cv(v):
    if isinstance(v, (list, tuple)):
        return ",".join(map(str, v)) if v else "-"
    return str(v)


def find_witness(d, rng, tries=40, pred=None):
    """Random parameter values at which d is visibly non-zero (or pred holds)."""
    names = sorted(alg.free_names(d))
    pred = pred or (lambda v: abs(v) > 1e-7)
    for t in range(tries):
        # the properties quantify over parameter magnitudes up to ~30: a regime that only large values reach (a clamp, a
        # threshold) needs large draws to show
        scale = (0.5, 1.0, 2.0, 3.0, 8.0, 20.0)[t % 6]
        env = {}
        for n in names:
            x = rng.gauss(0, scale)
            if "pos" in n or n.startswith("Z"):
                x = abs(x) + 0.1
            env[n] = x
        for a in d.atoms(deep=True):
            at = alg.atom(a)
            if at.kind == "UF" and at.key[2] == "pos":
                env[at.key[1]] = abs(env.get(at.key[1], 1.0)) + 0.1
        for n in names:
            if n in alg.CONST_VALUES:
                env[n] = alg.CONST_VALUES[n]
        try:
            v = alg.evalf(d, env)
        except (ValueError, ZeroDivisionError, OverflowError):
            continue
        if v != v:
            continue
        if pred(v):
            if isinstance(v, float) and v in (float("inf"), float("-inf")):
                v = 1e308 if v > 0 else -1e308       # one side is log(0): infinitely far apart (kept JSON-serialisable)
            return env, v
    return None


# ---------------------------------------------------------------------------- replay files
def write_replay(prop, rec, extra=None):
    rdir = os.environ.get("VF_REPLAY_DIR") or os.path.join(VERIF, "replay")
    os.makedirs(rdir, exist_ok=True)
    body = {"property": prop, "obligation": rec["name"], "short": rec.get("short"), "cfg": rec.get("cfg"),
            "status": rec["status"], "backend": rec["backend"], "detail": rec.get("detail"),
            "witness": rec.get("witness"), "replayed": rec.get("replayed"), "extra": extra}
    h = hashlib.sha1(json.dumps([prop, rec["name"]], sort_keys=True).encode()).hexdigest()[:12]
    path = os.path.join(rdir, "%s-%s.json" % (prop, h))
    with open(path, "w") as f:
        json.dump(body, f, indent=1, default=str)
    return path
