"""C17 — periodic callbacks fire on schedule and their records match what happened (front end A)."""
import os
import tempfile

import numpy as np

from qv import astvc as A
from qv.astvc import VC, AND, OR, NOT, ITE, IMPLIES

LEVEL = "proof"
MANIFEST = {
    "engine": "qv-astvc",
    "category": "proof",
    "technique": "contracts on MetricEvaluator, ObservableEvaluator, ObservableStatistics, ModelSaver and Logger: current source recompiled in a sandbox and executed for symbolic epoch and period with ghost metrics / system / state / torch.save; accessors executed on histories with symbolic values; obligations discharged by z3; schedule over a run by composition with C12's trace contract",
    "text": "For symbolic epoch and period >= 1 each callback's on_epoch_end acts iff epoch % period == 0 (ModelSaver additionally in on_train_start iff save_initial) and otherwise writes nothing. Acting means exactly: every metric called once with (state, **kwargs) / system.statistics called once with the sampling kwargs, (epoch, values) appended to the history and `last` set to the same values; the logger function called once with the generated message; the file file_name.format(epoch) under the folder written through state.save(path, metadata) with the dict / the callable's result for (state, epoch) / {} as metadata, or torch.save(metadata) alone with metadata_only. Every accessor (len, epochs, names, per-name arrays by attribute and by index, get_value with positive / negative / default index, last, clear_history, ObservableStatistics incl. plural stripping, AttributeError for unknown names) is checked against the ghost history. Composed with C12 (epoch_end fires for every epoch that ran, including the one at which a stop took effect), the callback acts at exactly the multiples of p among the epochs of the run, in order.",
    "note": "csv.DictWriter / filesystem / torch.save are library contracts exercised concretely (log files and saved files are compared by the bounded driver, which also reloads every saved file); str.format on the epoch is the real one",
}
EXPLANATION = "symbolic epoch / period; ghost collaborators with call logs; histories with symbolic entries"
TRUSTED = ["csv.DictWriter / csv.DictReader are inverse on text fields (the real csv module runs; `open` is replaced by in-memory text files)", "os.path.join / pathlib and torch.save behave as documented"]


def configs(tier):
    return [{"cb": "MetricEvaluator"}, {"cb": "ObservableEvaluator"}, {"cb": "ModelSaver"}, {"cb": "Logger"}, {"cb": "accessors"}, {"cb": "schedule-lemma"}]


def canaries(tier):
    return [({"cb": "Logger"}, "spec-acts-one-epoch-late")]


def run_config(ctx, cfg):
    return {"MetricEvaluator": _metric, "ObservableEvaluator": _observable, "ModelSaver": _saver, "Logger": _logger, "accessors": _accessors,
            "schedule-lemma": _schedule}[cfg["cb"]](ctx, cfg)


class State:
    """Training state as a periodic callback may see it.  Whether a stop has been requested is a free choice
    (both explored when an exploration is active): the schedule must not depend on it."""

    def __init__(self, stop=None):
        object.__setattr__(self, "writes", [])
        object.__setattr__(self, "saved", [])
        if stop is None:
            try:
                stop = VC.cur().fork("stop-requested")
            except Exception:
                stop = False
        object.__setattr__(self, "stop_training", stop)

    def __setattr__(self, k, v):
        self.writes.append(k)

    def save(self, path, metadata=None):
        self.saved.append((path, metadata))


def _gate(epoch, period, canary=None):
    if canary == "spec-acts-one-epoch-late":
        return (epoch - 1) % period == 0
    return epoch % period == 0


def _metric(ctx, cfg):
    from qucumber.callbacks import MetricEvaluator
    vc = VC(ctx)
    SB = A.sandbox_class(MetricEvaluator, vc)
    ctx.rewritten = SB._vc_rewritten
    ctx.under_contract("MetricEvaluator.__init__", "MetricEvaluator.on_epoch_end")

    def run():
        period, epoch = vc.fresh_int("period", 1), vc.fresh_int("epoch")
        calls = []
        vals = {"A": vc.fresh_real("valA"), "B": vc.fresh_real("valB")}

        def mk(nm):
            def metric(state, **kw):
                calls.append((nm, state, kw))
                return vals[nm]
            return metric
        ev = SB(period, {"A": mk("A"), "B": mk("B")}, verbose=False, log=None, space="SPACE", target="T")
        prior = (7, {"A": 1.0, "B": 2.0})
        ev.past_values.append(prior)
        st = State()
        ev.on_epoch_end(st, epoch)
        acted = len(ev.past_values) == 2
        g = _gate(epoch, period)
        vc.check("MetricEvaluator/acts iff epoch % period == 0", (g == acted) if isinstance(g, A.Sym) else (bool(g) == acted))
        if acted:
            vc.check("MetricEvaluator/each metric called once with (state, **metric_kwargs), in dictionary order",
                     calls == [("A", st, {"space": "SPACE", "target": "T"}), ("B", st, {"space": "SPACE", "target": "T"})])
            e, v = ev.past_values[-1]
            vc.check("MetricEvaluator/appends exactly (epoch, values)", e is epoch and v == {"A": vals["A"], "B": vals["B"]} and v["A"] is vals["A"] and v["B"] is vals["B"])
            vc.check("MetricEvaluator/earlier records untouched", ev.past_values[0] is prior)
            vc.check("MetricEvaluator/last holds the same values (a copy)", ev.last == v and ev.last is not v)
        else:
            vc.check("MetricEvaluator/off-schedule epoch: nothing evaluated, nothing recorded", calls == [] and ev.past_values == [prior] and ev.last == {})
        # frame: records and last values change at scheduled epoch ends only - no other event of the protocol (a new run
        # starting, batches, epoch starts, the run ending) touches them
        snap_pv, snap_last = list(ev.past_values), dict(ev.last)
        for evname, args in (("on_train_start", (st,)), ("on_epoch_start", (st, epoch)), ("on_batch_start", (st, epoch, 0)), ("on_batch_end", (st, epoch, 0)),
                             ("on_train_end", (st,)), ("on_train_start", (st,))):
            getattr(ev, evname)(*args)
        vc.check("MetricEvaluator/frame: no event other than a scheduled epoch end changes the records or the last values",
                 len(ev.past_values) == len(snap_pv) and all(a is b for a, b in zip(ev.past_values, snap_pv)) and ev.last == snap_last)
        vc.check("MetricEvaluator/never writes the training state", st.writes == [] and st.saved == [])
    vc.explore(run, "MetricEvaluator")

    def run_exc():
        # history: a metric raises during an evaluation, the caller catches the error and goes on (resumes the run from
        # that epoch with the same callbacks): the failed evaluation left no record behind, complete or partial
        period, epoch = vc.fresh_int("period", 1), vc.fresh_int("epoch")
        vals = {"A": vc.fresh_real("valA"), "B": vc.fresh_real("valB")}
        fail = [True]
        calls = []

        def mA(state, **kw):
            calls.append("A")
            return vals["A"]

        def mB(state, **kw):
            calls.append("B")
            if fail[0]:
                raise RuntimeError("metric failed")
            return vals["B"]
        ev = SB(period, {"A": mA, "B": mB}, verbose=False, log=None)
        prior = (7, {"A": 1.0, "B": 2.0})
        ev.past_values.append(prior)
        ev.last = dict(prior[1])
        st = State()
        raised = False
        try:
            ev.on_epoch_end(st, epoch)
        except RuntimeError:
            raised = True
        g = _gate(epoch, period)
        vc.check("MetricEvaluator/exception: an error raised by a metric reaches the caller iff the epoch is on schedule", (g == raised) if isinstance(g, A.Sym) else (bool(g) == raised))
        vc.check("MetricEvaluator/exception: a failed evaluation leaves no record (complete or partial) and the last values as they were",
                 ev.past_values == [prior] and ev.past_values[0] is prior and ev.last == prior[1])
        if raised:
            fail[0] = False
            del calls[:]
            ev.on_epoch_end(st, epoch)
            vc.check("MetricEvaluator/exception: evaluating the epoch again records exactly one complete record",
                     len(ev.past_values) == 2 and ev.past_values[-1][0] is epoch and ev.past_values[-1][1] == {"A": vals["A"], "B": vals["B"]}
                     and ev.last == ev.past_values[-1][1] and calls == ["A", "B"])
    vc.explore(run_exc, "MetricEvaluator/exception")
    vc.flush()
    ctx.holds("exploration/paths > 0", vc.paths > 0)
    _metric_log(ctx, SB)


class _GhostFiles:
    """`open` as the evaluator's code sees it: text files kept in memory; everything written is kept per path."""

    def __init__(self):
        self.text = {}
        self.modes = []

    def open(self, path, mode="r", *a, **k):
        import io
        files = self
        self.modes.append((path, mode))

        class F(io.StringIO):
            def close(f):
                if not f.closed:
                    files.text[path] = f.getvalue()
                io.StringIO.close(f)
        f = F(newline=k.get("newline"))
        if "a" in mode:
            f.write(self.text.get(path, ""))
        elif "w" not in mode:
            raise OSError("the log is opened for writing only")
        return f


class _Opaque:
    """A recorded value of which the evaluator knows nothing: its text form is a token that stands for 'this value'."""

    def __init__(self, tag):
        self.tag = tag

    def __str__(self):
        return "<%s>" % self.tag
    __repr__ = __str__

    def __format__(self, spec):
        return "<%s>" % self.tag


def _with_globals(SB, **names):
    import types
    for v in vars(SB).values():
        fn = v if isinstance(v, types.FunctionType) else getattr(v, "__func__", None)
        if isinstance(fn, types.FunctionType) and fn.__globals__ is not globals():
            fn.__globals__.update(names)


def _metric_log(ctx, SB):
    """The CSV log read back as CSV: one column per name whatever characters the name or the text of a value contains."""
    import csv
    import io
    files = _GhostFiles()
    _with_globals(SB, open=files.open)
    names = ["plain", "KL(p,q)", 'fidelity "Z"', "two words", "semi;colon", "trailing,"]
    vals = {}

    def mk(nm):
        def metric(state, **kw):
            return vals[nm]
        return metric
    ev = SB(3, {nm: mk(nm) for nm in names}, verbose=False, log="LOG")
    st = State()
    want = []
    for epoch in range(1, 10):
        for nm in names:
            vals[nm] = _Opaque("%s@%d" % (nm.split("(")[0][:4], epoch)) if nm != "trailing," else "a,b \"c\" %d" % epoch
        ev.on_epoch_end(st, epoch)
        if epoch % 3 == 0:
            want.append(dict({"epoch": str(epoch)}, **{nm: str(vals[nm]) for nm in names}))
    text = files.text.get("LOG", "")
    rd = csv.DictReader(io.StringIO(text, newline=""))
    rows = list(rd)
    ctx.holds("MetricEvaluator/log: read back as CSV the header is 'epoch' followed by the metric names as given (names with commas, quotes, blanks)",
              rd.fieldnames == ["epoch"] + names, repr(rd.fieldnames))
    ctx.holds("MetricEvaluator/log: read back as CSV there is one row per evaluated epoch, in order, and each column holds the text of the value recorded under that name",
              rows == want, repr(rows[:1]))
    ctx.holds("MetricEvaluator/log: the log file is only ever appended to", all(p == "LOG" and "a" in m for p, m in files.modes) and len(files.modes) == 4)
    ctx.holds("MetricEvaluator/log: the records do not depend on the log", [e for e, _ in ev.past_values] == [3, 6, 9] and ev.last == {nm: vals[nm] for nm in names})
    _with_globals(SB, open=open)


def _observable(ctx, cfg):
    from qucumber.callbacks import ObservableEvaluator
    from qucumber.observables import SigmaZ, SigmaX
    vc = VC(ctx)
    SB = A.sandbox_class(ObservableEvaluator, vc)
    ctx.rewritten = SB._vc_rewritten
    ctx.under_contract("ObservableEvaluator.__init__", "ObservableEvaluator.on_epoch_end")
    ctx.stub("System.statistics")

    def run():
        period, epoch = vc.fresh_int("period", 1), vc.fresh_int("epoch")
        ev = SB(period, [SigmaZ(), SigmaX()], verbose=False, log=None, num_samples=50, burn_in=3)
        calls = []
        result = {"SigmaZ": {"mean": vc.fresh_real("mz"), "variance": vc.fresh_real("vz"), "std_error": vc.fresh_real("sz"), "num_samples": 50},
                  "SigmaX": {"mean": vc.fresh_real("mx"), "variance": vc.fresh_real("vx"), "std_error": vc.fresh_real("sx"), "num_samples": 50}}

        class Sys:
            observables = ev.system.observables

            def statistics(self, state, **kw):
                calls.append((state, kw))
                return result
        ev.system = Sys()
        st = State()
        ev.on_epoch_end(st, epoch)
        acted = len(ev.past_values) == 1
        g = _gate(epoch, period)
        vc.check("ObservableEvaluator/acts iff epoch % period == 0", (g == acted) if isinstance(g, A.Sym) else (bool(g) == acted))
        if acted:
            vc.check("ObservableEvaluator/statistics computed once with the sampling kwargs", calls == [(st, {"num_samples": 50, "burn_in": 3})])
            vc.check("ObservableEvaluator/appends exactly (epoch, statistics)", ev.past_values[-1][0] is epoch and ev.past_values[-1][1] is result)
            vc.check("ObservableEvaluator/last holds the same statistics", ev.last == result)
        else:
            vc.check("ObservableEvaluator/off-schedule epoch: nothing sampled, nothing recorded", calls == [] and ev.past_values == [] and ev.last == {})
        # frame: records and last values change at scheduled epoch ends only - no other event of the protocol (a new run
        # starting, batches, epoch starts, the run ending) touches them
        snap_pv, snap_last = list(ev.past_values), dict(ev.last)
        for evname, args in (("on_train_start", (st,)), ("on_epoch_start", (st, epoch)), ("on_batch_start", (st, epoch, 0)), ("on_batch_end", (st, epoch, 0)),
                             ("on_train_end", (st,)), ("on_train_start", (st,))):
            getattr(ev, evname)(*args)
        vc.check("ObservableEvaluator/frame: no event other than a scheduled epoch end changes the records or the last values",
                 len(ev.past_values) == len(snap_pv) and all(a is b for a, b in zip(ev.past_values, snap_pv)) and ev.last == snap_last)
        vc.check("ObservableEvaluator/never writes the training state", st.writes == [] and st.saved == [])
        vc.check("ObservableEvaluator/names are the observables' names in order", ev.names == ["SigmaZ", "SigmaX"])
    vc.explore(run, "ObservableEvaluator")

    def run_exc():
        period, epoch = vc.fresh_int("period", 1), vc.fresh_int("epoch")
        ev = SB(period, [SigmaZ(), SigmaX()], verbose=False, log=None, num_samples=50, burn_in=3)
        result = {"SigmaZ": {"mean": vc.fresh_real("mz"), "variance": vc.fresh_real("vz"), "std_error": vc.fresh_real("sz"), "num_samples": 50},
                  "SigmaX": {"mean": vc.fresh_real("mx"), "variance": vc.fresh_real("vx"), "std_error": vc.fresh_real("sx"), "num_samples": 50}}
        fail = [True]

        class Sys:
            observables = ev.system.observables

            def statistics(self, state, **kw):
                if fail[0]:
                    raise RuntimeError("sampling failed")
                return result
        ev.system = Sys()
        prior = (7, {"SigmaZ": {"mean": 0.1, "variance": 0.2, "std_error": 0.3, "num_samples": 50}, "SigmaX": {"mean": 0.4, "variance": 0.5, "std_error": 0.6, "num_samples": 50}})
        ev.past_values.append(prior)
        ev.last = dict(prior[1])
        st = State()
        raised = False
        try:
            ev.on_epoch_end(st, epoch)
        except RuntimeError:
            raised = True
        g = _gate(epoch, period)
        vc.check("ObservableEvaluator/exception: an error raised while sampling reaches the caller iff the epoch is on schedule", (g == raised) if isinstance(g, A.Sym) else (bool(g) == raised))
        vc.check("ObservableEvaluator/exception: a failed evaluation leaves no record and the last values as they were",
                 ev.past_values == [prior] and ev.past_values[0] is prior and ev.last == prior[1])
        if raised:
            fail[0] = False
            ev.on_epoch_end(st, epoch)
            vc.check("ObservableEvaluator/exception: evaluating the epoch again records exactly one record",
                     len(ev.past_values) == 2 and ev.past_values[-1][0] is epoch and ev.past_values[-1][1] is result and ev.last == result)
    vc.explore(run_exc, "ObservableEvaluator/exception")
    vc.flush()
    ctx.holds("exploration/paths > 0", vc.paths > 0)
    _observable_log(ctx, SB)


def _observable_log(ctx, SB):
    import csv
    import io
    from qucumber.observables import SigmaZ, SigmaX
    files = _GhostFiles()
    _with_globals(SB, open=files.open)
    oz = SigmaZ()
    oz.name = "sigma_z, per site"
    ox = SigmaX()
    ox.name = 'X "flip"'
    names = [oz.name, ox.name, "SigmaZ"]
    ev = SB(2, (o for o in [oz, ox, SigmaZ()]), verbose=False, log="LOG", num_samples=5)     # a one-shot iterable of observables
    now = [0]

    class Sys:
        observables = ev.system.observables

        def statistics(self, state, **kw):
            return {nm: {"mean": _Opaque("m%d@%d" % (i, now[0])), "variance": _Opaque("v%d@%d" % (i, now[0])), "std_error": _Opaque("s%d@%d" % (i, now[0])),
                         "num_samples": 5} for i, nm in enumerate(names)}
    ev.system = Sys()
    st = State()
    want = []
    for epoch in range(1, 8):
        now[0] = epoch
        ev.on_epoch_end(st, epoch)
        if epoch % 2 == 0:
            row = {"epoch": str(epoch)}
            for i, nm in enumerate(names):
                row.update({nm + "_mean": "<m%d@%d>" % (i, epoch), nm + "_variance": "<v%d@%d>" % (i, epoch), nm + "_std_error": "<s%d@%d>" % (i, epoch)})
            want.append(row)
    rd = csv.DictReader(io.StringIO(files.text.get("LOG", ""), newline=""))
    rows = list(rd)
    cols = ["epoch"] + [nm + s_ for nm in names for s_ in ("_mean", "_variance", "_std_error")]
    ctx.holds("ObservableEvaluator/log: read back as CSV the header is 'epoch' followed by <name>_mean, _variance, _std_error per observable in order (names with commas, quotes)",
              rd.fieldnames == cols, repr(rd.fieldnames))
    ctx.holds("ObservableEvaluator/log: read back as CSV there is one row per evaluated epoch, in order, and each column holds the text of the recorded statistic",
              rows == want, repr(rows[:1]))
    ctx.holds("ObservableEvaluator/log: the log file is only ever appended to", all(p == "LOG" and "a" in m for p, m in files.modes) and len(files.modes) == 4)
    _with_globals(SB, open=open)


def _saver(ctx, cfg):
    from qucumber.callbacks import ModelSaver
    vc = VC(ctx)
    tmp = tempfile.mkdtemp(prefix="vf_c17_")
    saved_meta = []

    class TorchProxy:
        @staticmethod
        def save(obj, path):
            saved_meta.append((obj, path))
    SB = A.sandbox_class(ModelSaver, vc, extra_globals={"torch": TorchProxy})
    ctx.rewritten = SB._vc_rewritten
    ctx.under_contract("ModelSaver.__init__", "ModelSaver._save", "ModelSaver.on_train_start", "ModelSaver.on_epoch_end")
    ctx.stub("nn_state.save", "torch.save")
    try:
        for meta_kind in ("callable", "dict", "none", "dict filled after construction"):
            for only in (False, True):
                for initial in (True, False):
                    def run(meta_kind=meta_kind, only=only, initial=initial):
                        del saved_meta[:]
                        period, epoch = vc.fresh_int("period", 1), vc.fresh_int("epoch")
                        mcalls = []
                        md = {"note": "x"}

                        def mfn(state, ep):
                            mcalls.append((state, ep))
                            return {"epoch": ep}
                        if meta_kind == "dict filled after construction":
                            md = {}                   # the caller's dictionary is empty when the callback is built ...
                        meta = {"callable": mfn, "dict": md, "none": None, "dict filled after construction": md}[meta_kind]
                        sv = SB(period, tmp, "model_{}.pt", save_initial=initial, metadata=meta, metadata_only=only)
                        if meta_kind == "dict filled after construction":
                            md["note"] = "x"          # ... and filled before training starts: what is stored is what it holds when saved
                        st = State()
                        sv.on_train_start(st)
                        writes0 = list(st.saved) + list(saved_meta)
                        tag = "[metadata=%s only=%s initial=%s]" % (meta_kind, only, initial)
                        vc.check("ModelSaver/initial save iff save_initial" + tag, (len(writes0) == 1) == initial)
                        if initial:
                            p0 = os.path.join(sv.path, "model_initial.pt")
                            want_md = {"epoch": 0} if meta_kind == "callable" else (md if meta_kind.startswith("dict") else {})
                            if only:
                                vc.check("ModelSaver/initial: metadata only, named 'initial'" + tag, saved_meta == [(want_md, p0)] and st.saved == [])
                            else:
                                vc.check("ModelSaver/initial: state saved with metadata, named 'initial'" + tag, st.saved == [(p0, want_md)] and saved_meta == [])
                        del st.saved[:]
                        del saved_meta[:]
                        del mcalls[:]
                        sv.on_epoch_end(st, epoch)
                        n = len(st.saved) + len(saved_meta)
                        g = _gate(epoch, period)
                        vc.check("ModelSaver/saves iff epoch % period == 0" + tag, (g == (n == 1)) if isinstance(g, A.Sym) else (bool(g) == (n == 1)))
                        vc.check("ModelSaver/at most one file per epoch" + tag, n <= 1)
                        if n == 1:
                            path = os.path.join(sv.path, "model_{}.pt".format(epoch))
                            if meta_kind == "callable":
                                vc.check("ModelSaver/callable metadata evaluated once for (state, epoch)" + tag, len(mcalls) == 1 and mcalls[0][0] is st and mcalls[0][1] is epoch)
                                want_md = {"epoch": epoch}
                            else:
                                want_md = md if meta_kind.startswith("dict") else {}
                            if only:
                                vc.check("ModelSaver/metadata_only writes only the metadata to file_name.format(epoch)" + tag,
                                         st.saved == [] and len(saved_meta) == 1 and saved_meta[0][1] == path and saved_meta[0][0] == want_md)
                            else:
                                vc.check("ModelSaver/state saved to file_name.format(epoch) with the requested metadata" + tag,
                                         saved_meta == [] and len(st.saved) == 1 and st.saved[0][0] == path and st.saved[0][1] == want_md)
                        else:
                            vc.check("ModelSaver/off-schedule epoch: no metadata evaluated" + tag, mcalls == [])
                        vc.check("ModelSaver/never writes attributes of the training state" + tag, st.writes == [])
                    vc.explore(run, "ModelSaver %s %s %s" % (meta_kind, only, initial))

        def run_names():
            # the file name is the caller's format string: whatever spec it carries is applied to the epoch number itself
            for fmt, ep, want in (("ck_{:04}.pt", 2, "ck_0002.pt"), ("ck_{:03d}.pt", 12, "ck_012.pt"), ("e{:>5}.pt", 7, "e    7.pt"), ("{:x}.pt", 255, "ff.pt"),
                                  ("plain_{}.pt", 3, "plain_3.pt"), ("{0}_{0}.pt", 4, "4_4.pt")):
                sv = SB(1, tmp, fmt, save_initial=False, metadata=None, metadata_only=False)
                st = State(stop=False)
                try:
                    sv.on_epoch_end(st, ep)
                    why = str(st.saved)
                except Exception as e:            # noqa: BLE001 - a format the caller may use must not make the save fail
                    why = "%s: %s" % (type(e).__name__, e)
                vc.check("ModelSaver/file named file_name.format(epoch) with the epoch as an integer[%s]" % fmt,
                         len(st.saved) == 1 and st.saved[0][0] == os.path.join(sv.path, want), why)
        vc.explore(run_names, "ModelSaver/names")

        def run_existing():
            # history: the folder already holds the files of an earlier run (the same saver serving a second fit, a
            # resumed run): every scheduled save, the initial one included, is written again for the state at hand
            sub = os.path.join(tmp, "again")
            os.makedirs(sub, exist_ok=True)
            for nm in ("model_initial.pt", "model_2.pt"):
                open(os.path.join(sub, nm), "wb").close()
            sv = SB(2, sub, "model_{}.pt", save_initial=True, metadata={"note": "x"}, metadata_only=False)
            st = State(stop=False)
            sv.on_train_start(st)
            sv.on_epoch_end(st, 2)
            vc.check("ModelSaver/history: files of an earlier run in the folder do not suppress the initial save or a scheduled save",
                     [s[0] for s in st.saved] == [os.path.join(sv.path, "model_initial.pt"), os.path.join(sv.path, "model_2.pt")], str(st.saved))
        vc.explore(run_existing, "ModelSaver/existing files")

        def run_relative():
            # history: the folder was given as a relative path and the working directory has changed since: the files go
            # to the folder the path named when the ModelSaver was built
            here = os.getcwd()
            a, b = os.path.join(tmp, "wd_a"), os.path.join(tmp, "wd_b")
            os.makedirs(a, exist_ok=True)
            os.makedirs(b, exist_ok=True)
            try:
                os.chdir(a)
                sv = SB(1, "rel", "m_{}.pt", save_initial=True)
                os.chdir(b)
                st = State(stop=False)
                sv.on_train_start(st)
                sv.on_epoch_end(st, 1)
            finally:
                os.chdir(here)
            want_dir = os.path.join(os.path.realpath(a), "rel")
            vc.check("ModelSaver/history: a relative folder names the folder it named when the ModelSaver was built, whatever the working directory is at the time of a save",
                     [os.path.realpath(os.path.join(b, str(s[0]))) for s in st.saved] == [os.path.join(want_dir, "m_initial.pt"), os.path.join(want_dir, "m_1.pt")]
                     and os.path.isdir(want_dir) and not os.path.exists(os.path.join(b, "rel")), str(st.saved))
        vc.explore(run_relative, "ModelSaver/relative folder")

        def run_exc():
            # history: a save through the callback raised (metadata with a reserved key refused by save(), a failing
            # metadata function, a full disk) and the caller caught the error: the same ModelSaver keeps saving afterwards,
            # for this and for any other state
            del saved_meta[:]
            period, epoch = vc.fresh_int("period", 1), vc.fresh_int("epoch")
            sv = SB(period, tmp, "model_{}.pt", save_initial=True, metadata={"note": "x"}, metadata_only=False)

            class Refusing(State):
                def save(self, path, metadata=None):
                    raise ValueError("reserved key in metadata")
            bad = Refusing()
            raised = 0
            for call in (lambda: sv.on_train_start(bad), lambda: sv.on_epoch_end(bad, period)):
                try:
                    call()
                except ValueError:
                    raised += 1
            vc.check("ModelSaver/exception: an error raised by save() reaches the caller", raised == 2)
            st = State()
            sv.on_train_start(st)
            vc.check("ModelSaver/exception: after failed saves the initial checkpoint of the next run is written", len(st.saved) == 1 and st.saved[0][0] == os.path.join(sv.path, "model_initial.pt"))
            del st.saved[:]
            sv.on_epoch_end(st, epoch)
            n = len(st.saved)
            g = _gate(epoch, period)
            vc.check("ModelSaver/exception: after failed saves it still saves iff epoch % period == 0", (g == (n == 1)) if isinstance(g, A.Sym) else (bool(g) == (n == 1)))
        vc.explore(run_exc, "ModelSaver/exception")
        vc.flush()
        ctx.holds("ModelSaver/creates the folder and resolves the path", os.path.isdir(tmp))
        ctx.holds("exploration/paths > 0", vc.paths > 0)
    finally:
        import shutil
        shutil.rmtree(tmp, ignore_errors=True)


def _logger(ctx, cfg):
    from qucumber.callbacks import Logger
    canary = getattr(ctx, "canary", None)
    vc = VC(ctx)
    SB = A.sandbox_class(Logger, vc)
    ctx.rewritten = SB._vc_rewritten
    ctx.under_contract("Logger.__init__", "Logger.on_epoch_end", "Logger._default_msg_gen")

    def run():
        period, epoch = vc.fresh_int("period", 1), vc.fresh_int("epoch")
        out, gen = [], []

        def msg(state, ep, **kw):
            gen.append((state, ep, kw))
            return "MSG"
        lg = SB(period, logger_fn=out.append, msg_gen=msg, extra=5)
        st = State()
        lg.on_epoch_end(st, epoch)
        g = _gate(epoch, period, canary)
        vc.check("Logger/logs iff epoch % period == 0", (g == (len(out) == 1)) if isinstance(g, A.Sym) else (bool(g) == (len(out) == 1)))
        if out:
            vc.check("Logger/message generated once from (state, epoch, **kwargs) and passed to logger_fn once",
                     out == ["MSG"] and len(gen) == 1 and gen[0][0] is st and gen[0][1] is epoch and gen[0][2] == {"extra": 5})
        else:
            vc.check("Logger/off-schedule epoch: nothing generated", gen == [])
        vc.check("Logger/never writes the training state", st.writes == [])
        lg2 = SB(period, logger_fn=out.append, msg_gen="not callable", a=1)
        vc.check("Logger/default message generator", lg2.msg_gen("S", 3, a=1) == "Epoch 3: {'a': 1}")
    vc.explore(run, "Logger")
    vc.flush()
    ctx.holds("exploration/paths > 0", vc.paths > 0)


def _accessors(ctx, cfg):
    from qucumber.callbacks import MetricEvaluator, ObservableEvaluator
    from qucumber.callbacks.observable_evaluator import ObservableStatistics
    from qucumber.observables import SigmaZ, SigmaX
    vc = VC(ctx)
    ctx.under_contract("MetricEvaluator.__len__", "MetricEvaluator.__getattr__", "MetricEvaluator.__getitem__", "MetricEvaluator.epochs",
                       "MetricEvaluator.names", "MetricEvaluator.clear_history", "MetricEvaluator.get_value",
                       "ObservableEvaluator.__len__", "ObservableEvaluator.__getattr__", "ObservableEvaluator.__getitem__", "ObservableEvaluator.epochs",
                       "ObservableEvaluator.names", "ObservableEvaluator.clear_history", "ObservableEvaluator.get_value",
                       "ObservableStatistics.__getattr__", "ObservableStatistics.__getitem__")

    def run():
        for L in (0, 1, 3):
            me = MetricEvaluator(2, {"A": None, "B": None})
            hist = [(vc.fresh_int("e%d" % i), {"A": vc.fresh_real("a%d" % i), "B": vc.fresh_real("b%d" % i)}) for i in range(L)]
            me.past_values = list(hist)
            me.last = dict(hist[-1][1]) if hist else {}
            vc.check("MetricEvaluator/len == number of evaluations[L=%d]" % L, len(me) == L)
            vc.check("MetricEvaluator/epochs in order[L=%d]" % L, [x for x in me.epochs.tolist()] == [h[0] for h in hist] if L else len(me.epochs) == 0)
            vc.check("MetricEvaluator/names[L=%d]" % L, me.names == ["A", "B"])
            for nm in ("A", "B"):
                arr = getattr(me, nm)
                arr2 = me[nm]
                vc.check("MetricEvaluator/attribute and item access give the values in order[%s L=%d]" % (nm, L),
                         np.shape(arr) == (L,) and np.shape(arr2) == (L,) and all(arr[i] is hist[i][1][nm] for i in range(L))
                         and all(arr2[i] is hist[i][1][nm] for i in range(L)), "shapes %s, %s for %d evaluations" % (np.shape(arr), np.shape(arr2), L))
                for idx in list(range(-L, L)) + [None]:
                    want = hist[idx if idx is not None else -1][1][nm] if L else None
                    if L:
                        vc.check("MetricEvaluator/get_value(name, index)[%s L=%d index=%s]" % (nm, L, idx), me.get_value(nm, idx) is want)
            try:
                me.get_value("A", L)
                vc.check("MetricEvaluator/get_value out of range raises[L=%d]" % L, False)
            except IndexError:
                vc.check("MetricEvaluator/get_value out of range raises[L=%d]" % L, True)
            if L:
                try:
                    getattr(me, "nope")
                    vc.check("MetricEvaluator/unknown name raises AttributeError[L=%d]" % L, False)
                except AttributeError:
                    vc.check("MetricEvaluator/unknown name raises AttributeError[L=%d]" % L, True)
            # metric names are the caller's choice: names that are also attributes / properties / methods of the evaluator
            # are looked up in the records when subscripted, and by get_value
            clash = ["last", "epochs", "names", "period", "log", "past_values", "metrics", "verbose", "get_value", "clear_history"]
            mc = MetricEvaluator(2, {nm: None for nm in clash})
            hc = [(vc.fresh_int("ce%d" % i), {nm: vc.fresh_real("c_%s%d" % (nm, i)) for nm in clash}) for i in range(L)]
            mc.past_values = list(hc)
            for nm in clash:
                arr2 = mc[nm]
                vc.check("MetricEvaluator/item access for a metric named like an attribute of the evaluator gives the recorded values[%s L=%d]" % (nm, L),
                         np.shape(arr2) == (L,) and all(arr2[i] is hc[i][1][nm] for i in range(L)), "got %r" % (type(arr2).__name__,))
                if L:
                    vc.check("MetricEvaluator/get_value for a metric named like an attribute[%s L=%d]" % (nm, L), mc.get_value(nm) is hc[-1][1][nm])
            me.clear_history()
            vc.check("MetricEvaluator/clear_history empties history and last[L=%d]" % L, len(me) == 0 and me.last == {} and me.past_values == [])
            oe = ObservableEvaluator(3, [SigmaZ(), SigmaX()])
            ohist = [(vc.fresh_int("oe%d" % i), {nm: {"mean": vc.fresh_real("m%s%d" % (nm, i)), "variance": vc.fresh_real("v%s%d" % (nm, i)),
                                                       "std_error": vc.fresh_real("s%s%d" % (nm, i)), "num_samples": 10} for nm in ("SigmaZ", "SigmaX")}) for i in range(L)]
            oe.past_values = list(ohist)
            vc.check("ObservableEvaluator/len and epochs[L=%d]" % L, len(oe) == L and [x for x in oe.epochs.tolist()] == [h[0] for h in ohist] if L else len(oe) == 0)
            for nm in ("SigmaZ", "SigmaX"):
                stats = getattr(oe, nm)
                stats2 = oe[nm]
                vc.check("ObservableEvaluator/per-observable statistics object[%s L=%d]" % (nm, L), isinstance(stats, ObservableStatistics)
                         and stats.data == [h[1][nm] for h in ohist] and stats2.data == stats.data)
                if L:
                    for stat, plural in (("mean", "means"), ("variance", "variances"), ("std_error", "std_errors")):
                        a1, a2, a3 = getattr(stats, stat), getattr(stats, plural), stats[stat]
                        vc.check("ObservableStatistics/%s and %s give the values in order[%s L=%d]" % (stat, plural, nm, L),
                                 np.shape(a1) == (L,) and np.shape(a2) == (L,) and np.shape(a3) == (L,) and all(a1[i] is ohist[i][1][nm][stat] and a2[i] is ohist[i][1][nm][stat] and a3[i] is ohist[i][1][nm][stat] for i in range(L)))
                    vc.check("ObservableStatistics/num_samples[%s L=%d]" % (nm, L), stats.num_samples.tolist() == [10] * L)
                    try:
                        stats.bogus
                        vc.check("ObservableStatistics/unknown statistic raises AttributeError[%s L=%d]" % (nm, L), False)
                    except AttributeError:
                        vc.check("ObservableStatistics/unknown statistic raises AttributeError[%s L=%d]" % (nm, L), True)
                    vc.check("ObservableEvaluator/get_value default is the last record[%s L=%d]" % (nm, L), oe.get_value(nm) is ohist[-1][1][nm]
                             and oe.get_value(nm, 0) is ohist[0][1][nm] and oe.get_value(nm, -L) is ohist[0][1][nm])
            if L:
                try:
                    getattr(oe, "nope")
                    vc.check("ObservableEvaluator/unknown observable raises AttributeError[L=%d]" % L, False)
                except AttributeError:
                    vc.check("ObservableEvaluator/unknown observable raises AttributeError[L=%d]" % L, True)
            # observables renamed by the caller to something that is also an attribute of the evaluator
            oz, ox = SigmaZ(), SigmaX()
            oz.name, ox.name = "period", "last"
            oc = ObservableEvaluator(3, [oz, ox])
            och = [(vc.fresh_int("oce%d" % i), {nm: {"mean": vc.fresh_real("cm%s%d" % (nm, i)), "variance": vc.fresh_real("cv%s%d" % (nm, i)),
                                                     "std_error": vc.fresh_real("cs%s%d" % (nm, i)), "num_samples": 10} for nm in ("period", "last")}) for i in range(L)]
            oc.past_values = list(och)
            for nm in ("period", "last"):
                so = oc[nm]
                vc.check("ObservableEvaluator/item access for an observable named like an attribute of the evaluator gives its statistics[%s L=%d]" % (nm, L),
                         isinstance(so, ObservableStatistics) and so.data == [h[1][nm] for h in och], type(so).__name__)
                if L and isinstance(so, ObservableStatistics):
                    for stat in ("mean", "variance", "std_error", "data", "num_samples"):
                        if stat in ("data",):
                            continue
                        a3 = so[stat]
                        vc.check("ObservableStatistics/item access[%s %s L=%d]" % (nm, stat, L), np.shape(a3) == (L,) and (stat == "num_samples" or all(a3[i] is och[i][1][nm][stat] for i in range(L))))
            oe.clear_history()
            vc.check("ObservableEvaluator/clear_history[L=%d]" % L, len(oe) == 0 and oe.last == {})
    vc.explore(run, "accessors")
    vc.flush()


def _schedule(ctx, cfg):
    """Lemma: with C12 (epoch_end(e) fires exactly for e = s, s+1, ..., last in order) and the gate contracts above,
    the callback acts at exactly the multiples of p in [s, last], in increasing order."""
    import z3
    vc = VC(ctx)

    def run():
        s, last, p = vc.fresh_int("starting_epoch"), vc.fresh_int("last_epoch_that_ran"), vc.fresh_int("period", 1)
        e = vc.fresh_int("e")
        acted = AND(e >= s, e <= last, e % p == 0)          # gate contract applied to C12's trace
        vc.check("schedule/acts only at epochs of the run", IMPLIES(acted, AND(e >= s, e <= last)))
        vc.check("schedule/acts at every multiple of the period among the epochs that ran", IMPLIES(AND(e >= s, e <= last, e % p == 0), acted))
        vc.check("schedule/never acts at a non-multiple", IMPLIES(e % p != 0, NOT(acted)))
        e2 = vc.fresh_int("e2")
        acted2 = AND(e2 >= s, e2 <= last, e2 % p == 0)
        vc.check("schedule/consecutive actions are exactly one period apart", IMPLIES(AND(acted, acted2, e2 > e), e2 - e >= p))
        # first action: the smallest multiple of p that is >= s
        first = ((s + p - 1) // p) * p
        vc.check("schedule/first action is the first multiple of the period >= starting_epoch", IMPLIES(acted, e >= first))
        vc.check("schedule/first multiple is reached if the run is long enough", IMPLIES(last >= first, AND(first >= s, first % p == 0)))
    vc.explore(run, "schedule")
    vc.flush()


def replay(o):
    from drivers import C17 as D
    return D.replay(o["cfg"])
