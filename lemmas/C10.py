"""C10 — fidelity, KL divergence and NLL report the quantities they are named for (front end N)."""
import itertools

import numpy as np
import torch

from qv import alg, native as N, symtensor as st
from qv.alg import I, ZERO, ONE
from contracts import rbm as R, unitary as U

LEVEL = "proof"
MANIFEST = {
    "engine": "qv-native+qv-gen",
    "category": "proof",
    "technique": "contracts on fidelity / NLL / KL / _single_basis_KL / deprecated_kwarg with the state accessors stubbed by opaque specs; bodies executed on symbolic states and targets; obligations by normal form (log atoms compared by argument) and z3",
    "text": "With psi / rho / normalisation of the model replaced by opaque contract values and symbolic complex targets, the real metric functions must return: pure fidelity |<t|psi>|^2/Z (phase-invariant, 1 against the model's own state); for mixed states exactly (sum_i sqrt|Re lambda_i|)^2 of the eigenvalues of target.rho/Z handed to numpy (code-level contract); NLL = -(1/M) sum log(P_b(s)/Z) on the no-bases and per-sample-bases paths; KL = mean over bases of sum_s T_b(s)[log T_b(s) - log Q_b(s)] for bases None / lists / dict targets / targets to be rotated, vanishing against the model's own state in every basis. Every path must return a python float. Additionally (front end G) NLL, KL and pure-state fidelity in the computational basis are executed end to end (no stubs) on states of symbolic size and equal their defining sums for every size of the space and of the data set.",
    "note": "that the eigenvalue expression is the Uhlmann fidelity and lies in [0,1] for mixed states is cited mathematics checked only by the bounded driver; KL >= 0 (Gibbs), KL(p|p) = 0, pure-state fidelity <= 1 and = 1 against itself are proved for every dimension in lean/Metrics.lean; probs_to_logits' epsilon clamp is treated as the identity (floats as reals); target entries in generic position (non-zero probabilities); n <= 2 quick, n <= 3 thorough; the shape-generic part (front end G) holds for all sizes and values, equalities decided by tensor-algebra normal form (sound, incomplete: a miss is undecided, never a violation without a replayed witness)",
}
EXPLANATION = "opaque model accessors (psi, rho, normalization, probability); symbolic complex targets; log atoms compared through their arguments"
TRUSTED = ["(sum_i sqrt eig_i(sigma rho))^2 is the Uhlmann fidelity, in [0,1], 1 iff equal states (spectral fact, bounded driver only)",
           "Gibbs' inequality: KL >= 0 for normalised distributions (bounded driver only)",
           "numpy.linalg.eigvals returns the eigenvalues of its argument"]


def configs(tier):
    out = []
    ns = (1, 2) if tier == "quick" else (1, 2, 3)
    for n in ns:
        out.append({"fn": "fidelity", "flavour": "pure", "n": n})
        out.append({"fn": "fidelity", "flavour": "pure-positive", "n": n})
        if n <= 2:
            out.append({"fn": "fidelity", "flavour": "mixed", "n": n})
        for flav in ("pure", "mixed"):
            if flav == "mixed" and n > 2:
                continue
            out.append({"fn": "NLL", "flavour": flav, "n": n})
            for mode in ("none", "list", "dict", "self"):
                out.append({"fn": "KL", "flavour": flav, "n": n, "mode": mode})
    out.append({"fn": "KL", "flavour": "pure", "n": 2, "mode": "list", "grad": "off"})          # metrics evaluated under torch.no_grad()
    out.append({"fn": "KL", "flavour": "mixed", "n": 1, "mode": "list", "grad": "off"})
    out.append({"fn": "NLL", "flavour": "pure", "n": 2, "grad": "off"})
    out.append({"fn": "fidelity", "flavour": "pure", "n": 2, "grad": "off"})
    out.append({"fn": "kwargs"})
    # NLL against the contracts of its callees (rotated amplitudes / probabilities, normalisation) for a data set that
    # holds every basis string of a longer chain: the grouping by basis and the averaging, at a size the full symbolic
    # rotation does not reach
    out.append({"fn": "NLL-grouping", "flavour": "pure", "n": 6 if tier == "quick" else 7})
    out.append({"fn": "NLL-grouping", "flavour": "mixed", "n": 6})
    out.append({"generic": "every shape"})
    out.append({"lean": "size-generic lemmas"})
    return out


def canaries(tier):
    return [({"fn": "KL", "flavour": "pure", "n": 1, "mode": "list"}, "spec-kl-arguments-swapped"),
            ({"fn": "NLL", "flavour": "pure", "n": 2}, "spec-nll-not-normalised")]


def _idx_rows(v):
    return np.array([U.index_of(r) for r in v.reshape(-1, v.shape[-1]).tolist()]).reshape(v.shape[:-1])


class Model:
    """A real state object whose accessors are replaced by opaque contract values."""

    def __init__(self, flav, n, hermitian_rho=True, reveal_Z=False):
        from drivers import common as DC
        self.flav, self.n = flav, n
        D = 2 ** n
        self.state = DC.make_state({"pure": "complex", "pure-positive": "positive"}.get(flav, "mixed"), n, 1, 1)
        if flav == "pure-positive":
            # a positive wavefunction: real non-negative amplitudes
            self.psi = np.array([alg.uf("amp[%d]" % k, "pos") + 0 * I for k in range(D)], dtype=object)
            self.rho = np.array([[self.psi[a] * alg.conj(self.psi[b]) for b in range(D)] for a in range(D)], dtype=object)
            self.flav = flav = "pure"
        elif flav == "pure":
            self.psi = np.array([alg.par("psi_re[%d]" % k) + I * alg.par("psi_im[%d]" % k) for k in range(D)], dtype=object)
            self.rho = np.array([[self.psi[a] * alg.conj(self.psi[b]) for b in range(D)] for a in range(D)], dtype=object)
        else:
            r = np.empty((D, D), dtype=object)
            for a in range(D):
                for b in range(a, D):
                    if a == b:
                        r[a, a] = alg.uf("p[%d]" % a, "pos")
                    else:
                        r[a, b] = alg.par("rho_re[%d,%d]" % (a, b)) + I * alg.par("rho_im[%d,%d]" % (a, b))
                        r[b, a] = alg.conj(r[a, b])
            self.rho = r
            self.psi = None
        self.Zspec = sum((alg.re(self.rho[k, k]) for k in range(D)), ZERO)
        self.Z = self.Zspec if reveal_Z else alg.uf("Z", "pos")

    def stubs(self):
        s = self.state
        n = self.n

        def psi_stub(v):
            idx = _idx_rows(v)
            out = np.empty((2,) + idx.shape, dtype=object)
            for k in np.ndindex(*idx.shape):
                out[(0,) + k], out[(1,) + k] = alg.re(self.psi[idx[k]]), alg.im(self.psi[idx[k]])
            return st.SymTensor(out)

        def rho_stub(v, vp=None, expand=True):
            from lemmas.C04 import _rho_stub
            return _rho_stub(self.rho)(v, vp, expand)

        def prob_stub(v, Z=1.0):
            idx = _idx_rows(v)
            out = np.empty(idx.shape, dtype=object)
            for k in np.ndindex(*idx.shape):
                out[k] = alg.re(self.rho[idx[k], idx[k]])
            return st.SymTensor(out) / Z

        def norm_stub(space):
            return st.SymTensor(np.array(self.Z, dtype=object).reshape(()))
        import contextlib
        es = contextlib.ExitStack()
        if self.flav == "pure":
            es.enter_context(N.stubbed(s, "psi", psi_stub))
        else:
            es.enter_context(N.stubbed(s, "rho", rho_stub))
        es.enter_context(N.stubbed(s, "probability", prob_stub))
        es.enter_context(N.stubbed(s, "normalization", norm_stub))
        return es


def _sym_vec(D, prefix):
    a = np.empty((2, D), dtype=object)
    for k in range(D):
        a[0, k], a[1, k] = alg.par("%s_re[%d]" % (prefix, k)), alg.par("%s_im[%d]" % (prefix, k))
    return st.SymTensor(a)


def _sym_herm(D, prefix):
    a = np.empty((2, D, D), dtype=object)
    for i in range(D):
        for j in range(D):
            if i == j:
                a[0, i, j], a[1, i, j] = alg.uf("%s_d[%d]" % (prefix, i), "pos"), ZERO
            elif i < j:
                a[0, i, j], a[1, i, j] = alg.par("%s_re[%d,%d]" % (prefix, i, j)), alg.par("%s_im[%d,%d]" % (prefix, i, j))
            else:
                a[0, i, j], a[1, i, j] = alg.par("%s_re[%d,%d]" % (prefix, j, i)), -alg.par("%s_im[%d,%d]" % (prefix, j, i))
    return st.SymTensor(a)


def _val(x):
    """exact value carried by what a metric returned in the symbolic run"""
    if isinstance(x, st.SymFloat):
        return x.p
    if isinstance(x, st.SymTensor):
        return x._arr.reshape(-1)[0]
    if isinstance(x, alg.P):
        return x
    return alg.to_P(x)


def _is_plain_real(x):
    return isinstance(x, float) and not isinstance(x, torch.Tensor)


def run_config(ctx, cfg):
    if cfg.get("lean"):
        from contracts import leanlink
        return leanlink.run(ctx, "C10")
    if cfg.get("generic"):
        from contracts import gsets
        return gsets.run(ctx, "C10")
    if cfg["fn"] == "kwargs":
        return _kwargs(ctx)
    return {"fidelity": _fidelity, "NLL": _nll, "KL": _kl, "NLL-grouping": _nll_grouping}[cfg["fn"]](ctx, cfg)


def _uc():
    from qucumber.utils import unitaries
    return {k: U.cdec(st._obj(v)) for k, v in unitaries.create_dict().items()}


def _fidelity(ctx, cfg):
    from qucumber.utils import training_statistics as ts
    n, flav0 = cfg["n"], cfg["flavour"]
    D = 2 ** n
    m = Model(flav0, n)
    flav = "pure" if flav0.startswith("pure") else flav0
    space = m.state.generate_hilbert_space(n)
    ctx.under_contract("training_statistics.fidelity", "utils.deprecated_kwarg", "cplx.inner_prod", "cplx.absolute_value")
    ctx.stub("nn_state.psi", "nn_state.rho", "nn_state.normalization")
    if flav == "pure":
        t = _sym_vec(D, "t")
        tc = U.cdec(t._arr)
        ov0 = sum((alg.conj(tc[k]) * m.psi[k] for k in range(D)), ZERO) * alg.inv(alg.sqrt(m.Z))
        alg.certify_sos([alg.re(ov0), alg.im(ov0)], "(|<t|psi>|^2 / Z)")
        with m.stubs():
            f = ts.fidelity(m.state, t, space)
            f2 = ts.fidelity(m.state, t)               # space defaulted
        ctx.holds("fidelity/pure/returns a plain real number", _is_plain_real(f), type(f).__name__)
        ov = sum((alg.conj(tc[k]) * m.psi[k] for k in range(D)), ZERO)
        ctx.eq("fidelity/pure == |<t|psi>|^2 / Z", _val(f) * m.Z, alg.re(ov * alg.conj(ov)), z3_confirm=False)
        ctx.eq("fidelity/pure/default space agrees", _val(f2), _val(f), z3_confirm=False)
        # lemma: global phase of the target
        ph = alg.cis(alg.par("alpha"))
        t2 = np.empty((2, D), dtype=object)
        for k in range(D):
            z = tc[k] * ph
            t2[0, k], t2[1, k] = alg.re(z), alg.im(z)
        with m.stubs():
            f3 = ts.fidelity(m.state, st.SymTensor(t2), space)
        ctx.eq("lemma/fidelity unchanged by a global phase of the target", _val(f3), _val(f), z3_confirm=False)
        # lemma: fidelity against the model's own normalised state is 1 (Z revealed as sum |psi|^2)
        mr = Model(flav0, n, reveal_Z=True)
        sq = alg.sqrt(mr.Z) if len(mr.Z.t) > 1 else alg.sqrt(mr.Z)
        own = np.empty((2, D), dtype=object)
        for k in range(D):
            z = mr.psi[k] * alg.inv(sq)
            own[0, k], own[1, k] = alg.re(z), alg.im(z)
        with mr.stubs():
            f4 = ts.fidelity(mr.state, st.SymTensor(own), space)
        ctx.eq("lemma/fidelity against the model's own state == 1", _val(f4), ONE, z3_confirm=False)
    else:
        t = _sym_herm(D, "t")
        tc = U.cdec(t._arr)
        seen = {}

        def eig_hook(a):
            seen["arg"] = np.asarray(a).copy()
            lam = np.empty((D,), dtype=object)
            for k in range(D):
                lam[k] = alg.uf("lam_re[%d]" % k) + I * alg.uf("lam_im[%d]" % k)
            return lam.view(st.SymNd)
        st.LINALG_HOOK["eigvals"] = eig_hook
        try:
            with m.stubs():
                f = ts.fidelity(m.state, t, space)
        finally:
            st.LINALG_HOOK.pop("eigvals", None)
        arg = seen.get("arg")
        ctx.holds("fidelity/mixed/eigvals called once on a DxD matrix", arg is not None and arg.shape == (D, D))
        if arg is not None and arg.shape == (D, D):
            want = U.matmat(tc, m.rho)
            for i in range(D):
                for j in range(D):
                    ctx.eq("fidelity/mixed/eigvals argument == target . rho / Z[%d,%d]" % (i, j), arg[i, j] * m.Z, want[i, j], z3_confirm=False)
        lam_abs = [alg.absval(alg.uf("lam_re[%d]" % k)) for k in range(D)]
        tr = sum((alg.sqrt(x) for x in lam_abs), ZERO)
        ctx.eq("fidelity/mixed == (sum_i sqrt|Re lambda_i|)^2", _val(f), tr * tr, z3_confirm=False)


def _rot_probs(m, Ud, uc_unused=None):
    """Born distribution of the model in the rotated basis, unnormalised: diag(U rho U^dagger)."""
    D = Ud.shape[0]
    out = []
    for k in range(D):
        tot = ZERO
        for i in range(D):
            if not Ud[k, i].t:
                continue
            for j in range(D):
                if Ud[k, j].t:
                    tot = tot + Ud[k, i] * m.rho[i, j] * alg.conj(Ud[k, j])
        out.append(alg.re(tot))
    return out


def _assume_born_positive(m, n, uc, target=None, strings=None):
    """Preconditions: the model state is PSD (C02) and the target is a density matrix / state vector, so every
    rotated Born probability is positive (generic position: non-zero)."""
    strings = strings or ["".join(s) for s in itertools.product("XYZ", repeat=n)]
    for b in strings:
        Ud = U.kron_dense([uc[c] for c in b])
        for q in _rot_probs(m, Ud):
            alg.assume_pos(q, "rotated Born probability of the (PSD) model state, basis %s" % b)
        if target is not None:
            for q in target(Ud):
                alg.assume_pos(q, "rotated Born probability of the target state, basis %s" % b)


def _nll(ctx, cfg):
    from qucumber.utils import training_statistics as ts
    canary = getattr(ctx, "canary", None)
    n, flav = cfg["n"], cfg["flavour"]
    D = 2 ** n
    m = Model(flav, n)
    space = m.state.generate_hilbert_space(n)
    uc = _uc()
    ctx.under_contract("training_statistics.NLL")
    rows = [D - 1, 0, D - 1, (D // 2)]
    samples = space[rows].clone()
    _assume_born_positive(m, n, uc)
    with m.stubs():
        v = ts.NLL(m.state, samples, space)
    ctx.holds("NLL/no bases/returns a plain real number", _is_plain_real(v), type(v).__name__)
    want = ZERO
    for k in rows:
        want = want - alg.log(alg.re(m.rho[k, k]) * alg.inv(m.Z) if canary != "spec-nll-not-normalised" else alg.re(m.rho[k, k]))
    ctx.eq("NLL/no bases == -(1/M) sum log(p(s)/Z)", _val(v) * len(rows), want, z3_confirm=False)
    strings = ["".join(s) for s in itertools.product("XYZ", repeat=n)]
    bs = [strings[0], "Z" * n, strings[-2] if len(strings) > 1 else strings[0], strings[0]]
    barr = np.array([list(b) for b in bs])
    keep = samples.clone()
    with m.stubs():
        v = ts.NLL(m.state, samples, space, sample_bases=barr)
    ctx.holds("NLL/per-sample bases/returns a plain real number", _is_plain_real(v), type(v).__name__)
    want = ZERO
    for k, b in zip(rows, bs):
        Ud = U.kron_dense([uc[c] for c in b])
        want = want - alg.log(_rot_probs(m, Ud)[k] * alg.inv(m.Z))
    ctx.eq("NLL/per-sample bases == -(1/M) sum log(P_b(s)/Z)", _val(v) * len(rows), want, z3_confirm=False)
    ctx.holds("NLL/samples not modified", torch.equal(samples, keep))


def _nll_grouping(ctx, cfg):
    from fractions import Fraction as Fr
    from qucumber.utils import training_statistics as ts
    from drivers import common as DC
    import random
    n, flav = cfg["n"], cfg["flavour"]
    state = DC.make_state("complex" if flav == "pure" else "mixed", n, 1, 1)
    ctx.under_contract("training_statistics.NLL")
    ctx.stub("unitaries.rotate_psi_inner_prod", "unitaries.rotate_rho_probs", "nn_state.probability", "nn_state.normalization")
    rnd = random.Random(n)
    strings = ["".join(s) for s in itertools.product("XYZ", repeat=n)]
    rnd.shuffle(strings)
    bs = strings + rnd.sample(strings, 40)                   # every basis once, some twice, in no particular order
    rows = [rnd.randrange(2 ** n) for _ in bs]
    samples = torch.tensor([[(k >> (n - 1 - s)) & 1 for s in range(n)] for k in rows], dtype=torch.double)
    barr = np.array([list(b) for b in bs])
    Zp = alg.uf("Z", "pos")
    seen = []

    def P_(b, k):
        return alg.uf("P[%s,%d]" % (b, k), "pos")

    def idx(v):
        return [int(sum(int(x) << (n - 1 - i) for i, x in enumerate(r))) for r in v.tolist()]

    def amp_stub(nn_state, basis, states, **kw):
        b = "".join(basis)
        ks = idx(states)
        seen.extend((b, k) for k in ks)
        out = np.empty((2, len(ks)), dtype=object)
        for j, k in enumerate(ks):
            # an amplitude of squared modulus P[b,k]: sqrt(P) * (3/5 + 4/5 i)
            r = alg.sqrt(P_(b, k))
            out[0, j], out[1, j] = r * Fr(3, 5), r * Fr(4, 5)
        return st.SymTensor(out)

    def prob_rot_stub(nn_state, basis, states, **kw):
        b = "".join(basis)
        ks = idx(states)
        seen.extend((b, k) for k in ks)
        return st.SymTensor(np.array([P_(b, k) for k in ks], dtype=object))

    def prob_stub(v, Z=1.0):
        ks = idx(v)
        seen.extend(("Z" * n, k) for k in ks)
        return st.SymTensor(np.array([P_("Z" * n, k) for k in ks], dtype=object)) / Z
    keep = samples.clone()
    with N.stubbed(ts, "rotate_psi_inner_prod", amp_stub), N.stubbed(ts, "rotate_rho_probs", prob_rot_stub), \
            N.stubbed(state, "probability", prob_stub), N.stubbed(state, "normalization", lambda space: st.SymTensor(np.array(Zp, dtype=object).reshape(()))):
        v = ts.NLL(state, samples, torch.zeros(1, n, dtype=torch.double), sample_bases=barr)
    ctx.holds("NLL-grouping/returns a plain real number", _is_plain_real(v), type(v).__name__)
    ctx.holds("NLL-grouping/every sample is scored exactly once, in its own basis", sorted(seen) == sorted(zip(bs, rows)),
              "%d scored, %d expected; first difference %s" % (len(seen), len(bs), sorted(set(seen) ^ set(zip(bs, rows)))[:3]))
    want = ZERO
    for b, k in zip(bs, rows):
        want = want - alg.log(P_(b, k) * alg.inv(Zp))
    ctx.eq("NLL-grouping == -(1/M) sum_i log(P_(b_i)(s_i)/Z) over %d samples in %d bases of %d sites" % (len(bs), len(strings), n), _val(v) * len(bs), want, z3_confirm=False)
    ctx.holds("NLL-grouping/samples not modified", torch.equal(samples, keep))


def _kl(ctx, cfg):
    """KL against its contract, and its frame: the metric reads its target; the caller's tensor (or dictionary of tensors) is
    the same afterwards, so a second metric on the same target - KL again, fidelity after KL - sees what the first one saw."""
    seen = []
    try:
        _kl_body(ctx, cfg, seen)
    finally:
        tgs = [x for x in seen if isinstance(x, st.SymTensor)]
        ctx.holds("KL/the caller's target is not written (no in-place operation reaches it or a view of it)", len(tgs) > 0 and all(x._stor.version == 0 for x in tgs),
                  str([x._stor.version for x in tgs]))


def _kl_body(ctx, cfg, _targets):
    from qucumber.utils import training_statistics as ts
    canary = getattr(ctx, "canary", None)
    n, flav, mode = cfg["n"], cfg["flavour"], cfg["mode"]
    D = 2 ** n
    uc = _uc()
    ctx.under_contract("training_statistics.KL", "training_statistics._single_basis_KL", "unitaries.rotate_psi", "unitaries.rotate_rho_probs")
    strings = ["".join(s) for s in itertools.product("XYZ", repeat=n)]
    bases = [strings[0], strings[-1], strings[len(strings) // 2]] if n > 1 else ["X", "Y", "Z"]
    m = Model(flav, n, reveal_Z=(mode == "self"))
    space = m.state.generate_hilbert_space(n)
    if mode == "self":
        # target = the model's own normalised state: KL must vanish in every basis
        if flav == "pure":
            sq = alg.sqrt(m.Z)
            own = np.empty((2, D), dtype=object)
            for k in range(D):
                z = m.psi[k] * alg.inv(sq)
                own[0, k], own[1, k] = alg.re(z), alg.im(z)
        else:
            own = np.empty((2, D, D), dtype=object)
            for i in range(D):
                for j in range(D):
                    z = m.rho[i, j] * alg.inv(m.Z)
                    own[0, i, j], own[1, i, j] = alg.re(z), alg.im(z)
        t = st.SymTensor(own)
        _targets.append(t)
        _assume_born_positive(m, n, uc)
        for b in [None] + strings:
            with m.stubs():
                v = ts.KL(m.state, t, space, bases=None if b is None else [b])
            ctx.holds("lemma/self-KL returns a plain real number[basis=%s]" % b, _is_plain_real(v), type(v).__name__)
            ctx.eq("lemma/KL against the model's own state == 0[basis=%s]" % b, _val(v), ZERO, z3_confirm=False)
        return
    t = _sym_vec(D, "t") if flav == "pure" else _sym_herm(D, "t")
    _targets.append(t)
    tc = U.cdec(t._arr)

    def target_probs(Ud):
        out = []
        for k in range(D):
            if flav == "pure":
                a = sum((Ud[k, c] * tc[c] for c in range(D) if Ud[k, c].t), ZERO)
                out.append(alg.re(a * alg.conj(a)))
            else:
                tot = ZERO
                for i in range(D):
                    for j in range(D):
                        if Ud[k, i].t and Ud[k, j].t:
                            tot = tot + Ud[k, i] * tc[i, j] * alg.conj(Ud[k, j])
                out.append(alg.re(tot))
        return out

    def kl_spec(blist):
        tot = ZERO
        for b in blist:
            Ud = U.kron_dense([uc[c] for c in b])
            T = target_probs(Ud)
            Q = [q * alg.inv(m.Z) for q in _rot_probs(m, Ud)]
            for k in range(D):
                if canary == "spec-kl-arguments-swapped":
                    tot = tot + Q[k] * (alg.log(Q[k]) - alg.log(T[k]))
                else:
                    tot = tot + T[k] * (alg.log(T[k]) - alg.log(Q[k]))
        return tot / len(blist)
    _assume_born_positive(m, n, uc, target_probs, strings=sorted(set(bases + ["Z" * n])))
    if mode == "none":
        with m.stubs():
            v = ts.KL(m.state, t, space)
        ctx.holds("KL/bases=None/returns a plain real number", _is_plain_real(v), type(v).__name__)
        ctx.eq("KL/bases=None == KL of the reference-basis Born distributions", _val(v), kl_spec(["Z" * n]), z3_confirm=False)
    elif mode == "list":
        with m.stubs():
            v = ts.KL(m.state, t, space, bases=bases)
        ctx.holds("KL/list of bases/returns a plain real number", _is_plain_real(v), type(v).__name__)
        ctx.eq("KL/list of bases == mean over bases of per-basis KL (target rotated by the library)", _val(v), kl_spec(bases), z3_confirm=False)
        with m.stubs():
            v1 = ts.KL(m.state, t, space, bases=bases[:1])
        ctx.eq("KL/single basis", _val(v1), kl_spec(bases[:1]), z3_confirm=False)
    elif mode == "dict":
        # targets supplied already rotated, per basis
        td = {}
        for b in bases:
            Ud = U.kron_dense([uc[c] for c in b])
            if flav == "pure":
                z = U.matvec(Ud, tc)
                a = np.empty((2, D), dtype=object)
                for k in range(D):
                    a[0, k], a[1, k] = alg.re(z[k]), alg.im(z[k])
            else:
                z = U.matmat(U.matmat(Ud, tc), U.dagger(Ud))
                a = np.empty((2, D, D), dtype=object)
                for i in range(D):
                    for j in range(D):
                        a[0, i, j], a[1, i, j] = alg.re(z[i, j]), alg.im(z[i, j])
            td[b] = st.SymTensor(a)
            _targets.append(td[b])
        with m.stubs():
            v = ts.KL(m.state, td, space)
            v2 = ts.KL(m.state, td, space, bases=list(reversed(bases)))
        ctx.holds("KL/dict targets/returns a plain real number", _is_plain_real(v), type(v).__name__)
        ctx.eq("KL/dict targets == mean over the dictionary's bases", _val(v), kl_spec(bases), z3_confirm=False)
        ctx.eq("KL/dict targets with explicit bases agrees", _val(v2), _val(v), z3_confirm=False)
        try:
            with m.stubs():
                ts.KL(m.state, td, space, bases=bases[:1] + ["Q" * n])
            ctx.holds("KL/dict targets/mismatching bases rejected", False, "no AssertionError")
        except AssertionError:
            ctx.holds("KL/dict targets/mismatching bases rejected", True)
        except KeyError:
            ctx.holds("KL/dict targets/mismatching bases rejected", True)


def _kwargs(ctx):
    from qucumber.utils import deprecated_kwarg
    import warnings
    ctx.under_contract("utils.deprecated_kwarg")

    @deprecated_kwarg(target_psi="target", target_rho="target")
    def f(a, target=None, **kw):
        return (a, target, kw)
    with warnings.catch_warnings(record=True) as w:
        warnings.simplefilter("always")
        r = f(1, target_psi=5)
    ctx.holds("deprecated_kwarg/alias is renamed and warns", r == (1, 5, {}) and len(w) == 1)
    ctx.holds("deprecated_kwarg/true name passes through", f(1, target=6) == (1, 6, {}))
    try:
        with warnings.catch_warnings():
            warnings.simplefilter("ignore")
            f(1, target=1, target_rho=2)
        ctx.holds("deprecated_kwarg/both names rejected", False)
    except TypeError:
        ctx.holds("deprecated_kwarg/both names rejected", True)
    ctx.holds("deprecated_kwarg/keeps the wrapped name", f.__name__ == "f")


def replay(o):
    if o["cfg"].get("generic"):
        from contracts import gsets
        return gsets.replay("C10", o)
    from drivers import C10 as D
    return D.replay(o["cfg"], (o.get("witness") or {}).get("env") or {}, o.get("short") or "")
