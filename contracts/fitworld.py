"""Ghost world for NeuralStateBase.fit (front end A), shared by C06, C07, C12, C17, C20.

The real source of fit is recompiled in a sandbox; the epoch loop and the batch
loop are cut with the invariants below; self, data, callbacks, optimizer,
scheduler and the gradient routines are ghost objects / contract stubs.  A user
callback may request a stop at every event (a free choice explored both ways);
fit itself must never write the stop flag.
"""
import z3

from qv import astvc as A
from qv.astvc import VC, AND, OR, NOT, ITE, IMPLIES, SymInt, SymBool


class FitWorld:
    def __init__(self, vc, prop, nets, with_bases, with_scheduler, data_kind="tensor", stop_initially=False, canary=None):
        self.vc, self.prop, self.canary = vc, prop, canary
        self.netnames = nets
        self.with_bases, self.with_scheduler, self.data_kind = with_bases, with_scheduler, data_kind
        # symbolic run parameters
        self.starting_epoch = vc.fresh_int("starting_epoch")
        self.epochs = vc.fresh_int("epochs")
        self.N = vc.fresh_int("N", 1)
        self.B = vc.fresh_int("pos_batch_size", 1)
        self.negB_given = vc.fresh_int("neg_batch_size", 0)        # 0 / None -> defaulted
        self.k = vc.fresh_int("k", 0)
        self.lr = vc.fresh_real("lr")
        vc.witness_terms = {"starting_epoch": self.starting_epoch.e, "epochs": self.epochs.e, "N": self.N.e, "pos_batch_size": self.B.e,
                            "neg_batch_size": self.negB_given.e, "k": self.k.e}
        n_ep = self.epochs + 1 - self.starting_epoch
        self.n_epochs = ITE(n_ep > 0, n_ep, 0)
        self.nb = (self.N + self.B - 1) // self.B                   # spec: ceil(N / B)
        # protocol monitor
        self.phase = "IDLE"
        self.cur_epoch = None
        self.next_epoch = self.starting_epoch
        self.next_batch = 0
        self.stop = stop_initially
        self.stop_at_prev_batch_end = False
        self.stop_at_prev_epoch_end = False
        self.events = 0
        # optimizer / gradient ghosts
        self.param_version = 0
        self.batch_token = None          # no batch yet: gradients of "this batch" do not exist
        self.batch_log = []          # per open batch: sequence of ghost actions
        self.steps_this_epoch = 0
        self.sched_steps_this_epoch = 0
        self.shuffles_this_epoch = 0
        self.cur_batch = None
        self.cur_grads = None
        self.fit_wrote_stop = False
        self.train_obj = None
        self.data_written = False
        self.optimizer_obj = None
        self.scheduler_obj = None
        self.nets = {n: GhostNet(self, n) for n in nets}

    # ---- obligation routing
    def check(self, prop, name, cond):
        if prop == self.prop or (isinstance(prop, tuple) and self.prop in prop):
            self.vc.check(name, cond)

    def user_may_stop(self, event):
        """Any callback may set stop_training = True at any event; it is never cleared."""
        if self.vc.fork("user-stop@" + event):
            self.stop = True


class GhostParam:
    def __init__(self, net, name):
        self.net, self.name = net, name
        self.grad = None


class GhostNet:
    def __init__(self, w, name):
        self.w, self.name = w, name
        self.params = [GhostParam(name, p) for p in ("weights", "visible_bias", "hidden_bias")]

    def parameters(self):
        return iter(list(self.params))


DEVICE = "meta"       # the ghost state's device: a valid torch device name that is not the default one


class GhostTensor:
    def __init__(self, w, rows, tag, base=None):
        self.w, self.rows, self.tag, self.base = w, rows, tag, base

    @property
    def device(self):
        import torch
        return torch.device(getattr(self, "kw", {}).get("device") or "cpu")

    @property
    def shape(self):
        return (self.rows, "nv")

    def sym_len(self):
        return self.rows

    def clone(self):
        return GhostTensor(self.w, self.rows, self.tag + ".clone", base=self)

    def detach(self):
        return GhostTensor(self.w, self.rows, self.tag + ".detach", base=self.base if self.tag.endswith(".clone") else self)

    def to(self, *a, **k):
        t = GhostTensor(self.w, self.rows, self.tag + ".to", base=self.base)
        t.kw = k
        return t

    def _ghost_isinstance(self, cls):
        import torch
        cl = cls if isinstance(cls, tuple) else (cls,)
        return torch.Tensor in cl and self.tag.startswith("data-tensor")

    def __setitem__(self, *a):
        self.w.data_written = True

    def __getattr__(self, n):
        if n.endswith("_") and not n.startswith("_"):
            self.w.data_written = True
        raise AttributeError(n)


class GhostSelf:
    """Stand-in for the neural state inside fit."""

    def __init__(self, w):
        object.__setattr__(self, "w", w)
        object.__setattr__(self, "device", DEVICE)

    @property
    def stop_training(self):
        return self.w.stop

    @stop_training.setter
    def stop_training(self, v):
        self.w.fit_wrote_stop = True
        self.w.stop = v

    @property
    def networks(self):
        return list(self.w.netnames)

    def __getattr__(self, n):
        w = object.__getattribute__(self, "w")
        if n in w.nets:
            return w.nets[n]
        # plain class-level data attributes of the real class (defaults such as `_stop_training = False`)
        import inspect
        from qucumber.nn_states.neural_state import NeuralStateBase
        try:
            v = inspect.getattr_static(NeuralStateBase, n)
        except AttributeError:
            raise AttributeError(n)
        if callable(v) or isinstance(v, (property, staticmethod, classmethod)) or hasattr(v, "__get__"):
            raise AttributeError(n)
        return v

    def __setattr__(self, k, v):
        if k == "stop_training":
            object.__setattr__(self, k, v)
            return
        if k == "w":
            object.__setattr__(self, k, v)
            return
        # (C06: an optimizer / scheduler parked on the state is shared by every fit of that state, nested ones included)
        self.w.check(("C06", "C12", "C14"), "fit/does not write attributes of the state (%s)" % k, False)
        object.__setattr__(self, k, v)

    def _shuffle_data(self, pos_batch_size, neg_batch_size, num_batches, train_samples, input_bases, z_samples):
        w = self.w
        w.shuffles_this_epoch += 1
        w.check("C07", "fit/_shuffle_data receives pos_batch_size as given", pos_batch_size == w.B)
        w.check("C07", "fit/_shuffle_data receives neg_batch_size (defaulting to pos_batch_size)", neg_batch_size == ITE(w.negB_given != 0, w.negB_given, w.B))
        w.check("C07", "fit/num_batches == ceil(N / pos_batch_size)", num_batches == w.nb)
        w.check("C07", "fit/_shuffle_data receives the (copied) training tensor", train_samples is w.train_obj)
        w.check("C07", "fit/_shuffle_data receives the caller's bases", input_bases is (w.bases_obj if w.with_bases else None))
        w.check("C07", "fit/_shuffle_data receives the reference-basis samples iff bases are given", z_samples is (w.z_obj if w.with_bases else None))
        w.check("C07", "fit/reshuffles once per epoch, before the epoch's first event", w.phase == "BETWEEN" and w.shuffles_this_epoch == 1)
        # contract of _shuffle_data (C07 part=shuffle): zip of ceil(N/B) positive batches with the negative batches;
        # the negative batches are the positive ones (no bases, equal sizes) or `num_batches` independently drawn ones
        def elem(j):
            t = (("pos", j), ("neg", j), ("bases", j)) if w.with_bases else (("pos", j), ("neg", j))
            return t
        n_pos = (train_samples.shape[0] + pos_batch_size - 1) // pos_batch_size
        if input_bases is None:
            length = ITE(neg_batch_size == pos_batch_size, n_pos, A.sb_min(n_pos, num_batches))
        else:
            length = A.sb_min(n_pos, num_batches)
        return A.GhostSeq(length, elem, "batches")

    def compute_batch_gradients(self, k, *batch):
        w = self.w
        want_len = 3 if w.with_bases else 2
        shape_ok = len(batch) == want_len and all(isinstance(x, tuple) and len(x) == 2 for x in batch) and \
            [x[0] for x in batch] == ["pos", "neg", "bases"][:want_len]
        w.check("C06", "fit/compute_batch_gradients gets (positive, negative[, bases]) batch parts in order", shape_ok)
        if shape_ok:
            w.check(("C06", "C07"), "fit/the gradient is computed from exactly this batch (same index for samples, negatives and bases)",
                    AND(*[x[1] == w.next_batch for x in batch]))
        w.check("C06", "fit/compute_batch_gradients gets the requested k", k is w.k)
        w.check(("C06", "C12"), "fit/gradients computed inside a batch event pair", w.phase == "IN_BATCH")
        w.batch_log.append("grads")
        w.cur_grads = [GhostGrad(w, ("grad", n, w.batch_token)) for n in w.netnames]
        return list(w.cur_grads)


class GhostGrad(tuple):
    """The gradient vector of one network for one batch: an opaque value (equal to the plain token it wraps). The
    questions a tensor can be asked about its contents have both answers - the entries are any numbers, zeros included."""

    def __new__(cls, w, token):
        self = tuple.__new__(cls, token)
        self.w = w
        return self

    def _ask(self, what):
        return bool(self.w.vc.fork("%s of the gradient of %s" % (what, self[1])))

    def any(self, *a, **k):
        return self._ask("any()")

    def all(self, *a, **k):
        return self._ask("all()")

    def norm(self, *a, **k):
        v = self.w.vc.fresh_real("norm_grad_%s" % self[1])
        self.w.vc.assume(v >= 0)
        return v

    def sum(self, *a, **k):
        return self.w.vc.fresh_real("sum_grad_%s" % self[1])

    def numel(self):
        return self.w.vc.fresh_int("numel_grad_%s" % self[1], 1)


class GhostCallbacks:
    """Stand-in for CallbackList (its dispatch loops have their own contract): the protocol monitor."""

    def __init__(self, w, cbs):
        self.w = w
        self.given = cbs
        self.appended = []

    def append(self, cb):
        self.appended.append(cb)

    def __getattr__(self, name):
        # Anything else fit asks of its callback list is answered by a real CallbackList holding a user callback whose six
        # hooks are all inherited from an intermediate base class of the user's (neither set on the instance nor defined by
        # its own class): introspection of the list must not make fit drop events such a callback is entitled to.
        if name.startswith("__"):
            raise AttributeError(name)
        from qucumber.callbacks import CallbackList, CallbackBase

        class _UserBase(CallbackBase):
            def on_train_start(self, s): pass
            def on_train_end(self, s): pass
            def on_epoch_start(self, s, e): pass
            def on_epoch_end(self, s, e): pass
            def on_batch_start(self, s, e, b): pass
            def on_batch_end(self, s, e, b): pass

        class _UserCallback(_UserBase):
            pass
        real = self.__dict__.get("_real_list")
        if real is None:
            real = CallbackList([_UserCallback()])
            self.__dict__["_real_list"] = real
        return getattr(real, name)

    # -- events
    def on_train_start(self, st):
        w = self.w
        w.check("C12", "protocol/train_start is the first event, once", w.phase == "IDLE" and w.events == 0)
        w.phase = "BETWEEN"
        w.events += 1
        w.user_may_stop("train_start")

    def on_epoch_start(self, st, ep):
        w = self.w
        w.check("C12", "protocol/epoch_start only between epochs", w.phase == "BETWEEN")
        w.check("C12", "protocol/epochs are consecutive from starting_epoch", ep == w.next_epoch)
        w.check("C12", "protocol/no epoch begins after a stop seen at an epoch end", NOT(w.stop_at_prev_epoch_end) if isinstance(w.stop_at_prev_epoch_end, A.Sym) else not w.stop_at_prev_epoch_end)
        w.check("C12", "protocol/epoch within [starting_epoch, epochs]", AND(ep >= w.starting_epoch, ep <= w.epochs))
        w.phase, w.cur_epoch, w.next_batch = "IN_EPOCH", ep, 0
        w.steps_this_epoch = 0
        w.sched_steps_this_epoch = 0
        w.stop_at_prev_batch_end = False
        w.events += 1
        w.user_may_stop("epoch_start")

    def on_batch_start(self, st, ep, b):
        w = self.w
        w.check("C12", "protocol/batch_start only inside an epoch with no open batch", w.phase == "IN_EPOCH")
        w.check("C12", "protocol/batch belongs to the current epoch", ep is w.cur_epoch or ep == w.cur_epoch)
        w.check("C12", "protocol/batches are numbered 0,1,... in order", b == w.next_batch)
        w.check("C12", "protocol/no batch begins after a stop seen at a batch end", NOT(w.stop_at_prev_batch_end) if isinstance(w.stop_at_prev_batch_end, A.Sym) else not w.stop_at_prev_batch_end)
        w.check("C12", "protocol/batch index < number of batches", b < w.nb)
        w.phase = "IN_BATCH"
        w.batch_log = []
        w.batch_token = object()
        w.events += 1
        w.user_may_stop("batch_start")

    def on_batch_end(self, st, ep, b):
        w = self.w
        w.check("C12", "protocol/batch_end closes the open batch", w.phase == "IN_BATCH" and (b is w.next_batch or True))
        w.check("C12", "protocol/batch_end carries the same epoch and batch index", AND(ep == w.cur_epoch, b == w.next_batch))
        want = ["grads", "zero_grad"] + ["write:%s" % n for n in w.netnames] + ["step"]
        w.check("C06", "update/per batch exactly: gradients, zero_grad, one gradient write per network in order, one step", w.batch_log == want)
        w.phase = "IN_EPOCH"
        w.next_batch = w.next_batch + 1
        w.events += 1
        w.user_may_stop("batch_end")
        w.stop_at_prev_batch_end = w.stop

    def on_epoch_end(self, st, ep):
        w = self.w
        w.check("C12", "protocol/epoch_end only inside an epoch with no open batch", w.phase == "IN_EPOCH")
        w.check("C12", "protocol/epoch_end carries the current epoch", ep == w.cur_epoch)
        w.check("C12", "protocol/unless a stop was requested every batch of the epoch ran", OR(w.stop, w.next_batch == w.nb))
        w.check("C06", "update/one optimizer step per batch that ran", w.steps_this_epoch == w.next_batch)
        if w.with_scheduler:
            w.check("C06", "update/scheduler advanced exactly once per epoch, after the batches, before epoch_end", w.sched_steps_this_epoch == 1)
        else:
            w.check("C06", "update/no scheduler, nothing advanced", w.sched_steps_this_epoch == 0)
        w.phase = "BETWEEN"
        w.next_epoch = w.next_epoch + 1
        w.shuffles_this_epoch = 0
        w.events += 1
        w.user_may_stop("epoch_end")
        w.stop_at_prev_epoch_end = w.stop

    def on_train_end(self, st):
        w = self.w
        w.check("C12", "protocol/train_end only between epochs, once", w.phase == "BETWEEN")
        w.check("C12", "protocol/unless a stop was requested every epoch from starting_epoch to epochs ran",
                OR(w.stop, w.next_epoch == w.starting_epoch + w.n_epochs))
        w.phase = "ENDED"
        w.events += 1
        w.user_may_stop("train_end")


class GhostOptimizer:
    current = None      # the world of the fit call in progress (an optimizer object may outlive the call that built it)

    def __init__(self, w, params, lr=None, **kw):
        self.w = w
        allp = [p for n in w.netnames for p in w.nets[n].params]
        w.check("C06", "optimizer/constructed over every parameter of every network, in network order", list(params) == allp)
        w.check("C06", "optimizer/constructed with the requested learning rate and arguments", lr is w.lr and kw == w.optimizer_args)
        w.check(("C06", "C12"), "optimizer/constructed before the first event", w.phase == "IDLE")

    def _world(self):
        cur = GhostOptimizer.current or self.w
        cur.check("C06", "update/the optimizer that steps is the one this call built from this call's learning rate and arguments", cur is self.w)
        return cur

    def zero_grad(self):
        w = self._world()
        w.check(("C06", "C12"), "update/zero_grad inside a batch event pair", w.phase == "IN_BATCH")
        w.batch_log.append("zero_grad")

    def step(self):
        w = self._world()
        w.check("C12", "protocol/parameters change only between a batch_start and its batch_end", w.phase == "IN_BATCH")
        grads_ok = all(p.grad == ("slice", ("grad", n, w.batch_token), p.name) for n in w.netnames for p in w.nets[n].params)
        w.check("C06", "update/at step time every parameter's .grad is its slice of this batch's gradient for its own network", grads_ok)
        w.batch_log.append("step")
        w.steps_this_epoch = w.steps_this_epoch + 1
        w.param_version += 1


class UserOptimizer(GhostOptimizer):
    """What the caller passes as `optimizer=`: a class (as torch.optim.SGD is), the same one in every call of a history."""

    def __init__(self, params, lr=None, **kw):
        w = GhostOptimizer.current
        GhostOptimizer.__init__(self, w, params, lr=lr, **kw)
        w.optimizer_obj = self


class GhostScheduler:
    def __init__(self, w, opt, **kw):
        self.w = w
        w.check("C06", "scheduler/constructed over the optimizer with the given arguments", opt is w.optimizer_obj and kw == w.scheduler_args)

    def step(self):
        w = self.w
        w.check("C06", "update/scheduler.step after the batch loop and before epoch_end", w.phase == "IN_EPOCH")
        w.check("C06", "update/scheduler.step not before the epoch's batches are done (or a stop)", OR(w.stop, w.next_batch == w.nb))
        w.sched_steps_this_epoch = w.sched_steps_this_epoch + 1


def make_sandbox(vc, w, fit_fn, cls):
    """Recompile fit with the two loop contracts and ghost collaborators."""
    import torch

    def inv_epochs(env, i, n):
        entry = not isinstance(i, A.Sym) and i == 0
        out = [("between epochs at every epoch boundary", w.phase == "BETWEEN"),
               ("next epoch is starting_epoch + i", w.next_epoch == w.starting_epoch + i),
               ("a stop seen at an epoch end leaves the loop", IMPLIES(i > 0, NOT(w.stop)) if isinstance(i, A.Sym) else True),
               ("number of epochs", n == w.n_epochs),
               ("nothing shuffled yet for the next epoch", w.shuffles_this_epoch == 0)]
        return out

    def havoc_epochs(env, i, n):
        w.phase = "BETWEEN"
        w.next_epoch = w.starting_epoch + i
        w.stop = bool(vc.fresh_bool("stop@epoch"))      # a concrete python bool per path (so `is True` tests in the code work)
        w.stop_at_prev_epoch_end = False       # by the invariant a stop seen at an epoch end never reaches the loop head again
        w.shuffles_this_epoch = 0
        w.cur_epoch = None
        return {}

    def inv_batches(env, j, n):
        out = [("inside the epoch with no open batch", w.phase == "IN_EPOCH"),
               ("next batch is j", w.next_batch == j),
               ("a stop seen at a batch end leaves the loop", IMPLIES(j > 0, NOT(w.stop)) if isinstance(j, A.Sym) else True),
               ("one optimizer step per batch so far", w.steps_this_epoch == j),
               ("scheduler not yet advanced in this epoch", w.sched_steps_this_epoch == 0),
               ("number of batches == ceil(N / pos_batch_size)", n == w.nb)]
        return out

    def havoc_batches(env, j, n):
        w.phase = "IN_EPOCH"
        w.next_batch = j
        w.stop = bool(vc.fresh_bool("stop@batch"))
        w.stop_at_prev_batch_end = False       # likewise for a stop seen at a batch end
        w.steps_this_epoch = j
        return {}
    specs = {0: A.LoopSpec(inv_epochs, None, havoc_epochs, "epoch loop"), 1: A.LoopSpec(inv_batches, None, havoc_batches, "batch loop")}
    # the contracts are bound to the loops by what they range over: the epochs starting_epoch..epochs, and the batches that
    # _shuffle_data handed out (enumerated or not) - not by their position in the source

    def is_epoch_range(it, env):
        return isinstance(it, A.SymRange) and isinstance(it.step, int) and it.step == 1 and vc.valid(it.lo == w.starting_epoch) and vc.valid(it.hi == w.epochs + 1)

    def is_batch_iterator(it, env):
        inner = it.inner if isinstance(it, A.SymEnumerate) else it
        return isinstance(inner, A.GhostSeq) and inner.name == "batches"
    specs[0].match = is_epoch_range
    specs[1].match = is_batch_iterator

    class _TorchProxy:
        Tensor = torch.Tensor
        double = torch.double
        optim = torch.optim

        def __getattr__(self, n):          # anything else is the real torch (torch.device, dtypes, ...)
            return getattr(torch, n)

        @staticmethod
        def tensor(data, device=None, dtype=None):
            w.check("C07", "fit/non-tensor data is copied into a new double tensor on the state's device", device == DEVICE and dtype is torch.double)
            t = GhostTensor(w, data.rows, "tensor-of-data", base=data)
            t.kw = {"device": device, "dtype": dtype}
            w.check("C07", "fit/torch.tensor is applied to the caller's data", data is w.data_obj)
            w.train_obj = t
            return t

    TorchProxy = _TorchProxy()

    def vector_to_grads(vec, params):
        plist = list(params)
        net = plist[0].net
        w.check(("C06", "C12"), "update/gradients written inside a batch event pair", w.phase == "IN_BATCH")
        w.check("C06", "update/network i receives all_grads[i] of this batch", vec == ("grad", net, w.batch_token))
        for p in plist:
            p.grad = ("slice", vec, p.name)           # contract of vector_to_grads (C06 part=vector_to_grads)
        w.batch_log.append("write:%s" % net)

    def extract_refbasis_samples(train, bases):
        w.check("C07", "fit/reference-basis rows are extracted from the copied data and the caller's bases", train is w.train_obj and bases is w.bases_obj)
        z = GhostTensor(w, vc.fresh_int("n_z", 0), "z-raw")

        def to(*a, **k):
            t = GhostTensor(w, z.rows, "z", base=z)
            w.z_obj = t
            return t
        z.to = to
        return z

    def Timer():
        return "TIMER"
    extra = {"CallbackList": lambda cbs: _mk_cblist(w, cbs), "Timer": Timer, "torch": TorchProxy, "vector_to_grads": vector_to_grads,
             "extract_refbasis_samples": extract_refbasis_samples}
    f, rew = A.load(fit_fn, specs, vc, extra, cls=cls, name="NeuralStateBase.fit")
    return f, rew


def _mk_cblist(w, cbs):
    w.cblist = GhostCallbacks(w, cbs)
    return w.cblist


def _user_callbacks(names):
    from qucumber.callbacks import CallbackBase

    class UserCallback(CallbackBase):
        def __init__(self, tag):
            self.tag = tag

        def __repr__(self):
            return "<user callback %s>" % self.tag
    return tuple(UserCallback(n) if isinstance(n, str) else n for n in names)


def run_fit(vc, w, f, user_callbacks=("CB1",), time=False, me=None, bases_obj=None):
    user_callbacks = _user_callbacks(user_callbacks)
    """One symbolic execution of fit in the ghost world; obligations are routed by property.
    `me` / `bases_obj` allow a second call on the same state object with the caller's same bases object."""
    import torch
    if me is None:
        me = GhostSelf(w)
    else:
        me.w = w
    data = GhostTensor(w, w.N, "data-tensor" if w.data_kind == "tensor" else "data-array")
    w.data_obj = data
    w.bases_obj = (bases_obj if bases_obj is not None else GhostTensor(w, w.N, "bases")) if w.with_bases else None
    w.z_obj = None
    w.train_obj = None
    w.optimizer_args = {"momentum": "M"}
    w.scheduler_args = {"gamma": "G"}
    if w.data_kind == "tensor":
        # data.clone().detach().to(device=..., dtype=torch.double): the training tensor is a copy
        def clone():
            c = GhostTensor(w, w.N, "copy", base=data)

            def detach():
                d = GhostTensor(w, w.N, "copy.detach", base=data)

                def to(*a, **k):
                    w.check("C07", "fit/tensor data is cloned, detached and converted to double on the state's device",
                            k.get("device") == DEVICE and k.get("dtype") is torch.double)
                    t = GhostTensor(w, w.N, "train", base=data)
                    t.kw = k
                    w.train_obj = t
                    return t
                d.to = to
                return d
            c.detach = detach
            return c
        data.clone = clone

    w.optimizer_obj = None
    GhostOptimizer.current = w
    opt_factory = UserOptimizer

    def sched_factory(opt, **kw):
        sc = GhostScheduler(w, opt, **kw)
        w.scheduler_obj = sc
        return sc
    kw = dict(epochs=w.epochs, pos_batch_size=w.B, neg_batch_size=w.negB_given, k=w.k, lr=w.lr,
              input_bases=w.bases_obj, progbar=False, starting_epoch=w.starting_epoch, time=time,
              callbacks=list(user_callbacks), optimizer=opt_factory, optimizer_args=w.optimizer_args,
              scheduler=(sched_factory if w.with_scheduler else None), scheduler_args=w.scheduler_args)
    ret = f(me, data, **kw)
    return ret, me, data
