"""Spec functions for qucumber.utils.unitaries: the dense Kronecker product from its
definition, site 0 being the leftmost (most significant) tensor factor."""
import numpy as np

from qv import alg
from qv.alg import I, ZERO, ONE


def cdec(a):
    """(2, ...) real-pair object array -> complex object array."""
    return a[0] + a[1] * I


def bit(k, site, n):
    return (k >> (n - 1 - site)) & 1


def kron_dense(us):
    """us: list of (2,2) complex object arrays; returns (2^n, 2^n) object array with
    U[r,c] = prod_site u_site[r_site, c_site] (big-endian site order)."""
    n = len(us)
    D = 2 ** n
    U = np.empty((D, D), dtype=object)
    for r in range(D):
        for c in range(D):
            p = ONE
            for s in range(n):
                p = p * us[s][bit(r, s, n), bit(c, s, n)]
            U[r, c] = p
    return U


def matvec(U, x):
    D = U.shape[0]
    out = np.empty((D,), dtype=object)
    for r in range(D):
        s = ZERO
        for c in range(D):
            s = s + U[r, c] * x[c]
        out[r] = s
    return out


def matmat(A, B):
    n, m = A.shape
    m2, k = B.shape
    out = np.empty((n, k), dtype=object)
    for i in range(n):
        for j in range(k):
            s = ZERO
            for l in range(m):
                s = s + A[i, l] * B[l, j]
            out[i, j] = s
    return out


def dagger(U):
    out = np.empty((U.shape[1], U.shape[0]), dtype=object)
    for i in range(U.shape[0]):
        for j in range(U.shape[1]):
            out[j, i] = alg.conj(U[i, j])
    return out


def index_of(row):
    n = len(row)
    return sum(int(b) << (n - 1 - i) for i, b in enumerate(row))
