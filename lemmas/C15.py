"""C15 — the complex-tensor kernel agrees with complex arithmetic (front end N).

Every function of qucumber/utils/cplx.py is run on operands whose real and
imaginary parts are free symbolic reals; the result is compared, entry for entry,
with the real-pair encoding of the same operation carried out in complex
arithmetic on the decoded operands.  The spec functions are written once with
NumPy operators and are used both on exact symbolic arrays (proof) and on
complex128 arrays (replay / bounded driver).
"""
import itertools

import numpy as np
import torch

from qv import alg, symtensor as st
from qv.alg import I, ZERO, ONE

LEVEL = "proof"
MANIFEST = {
    "engine": "qv-native+qv-gen",
    "category": "proof",
    "technique": "contracts on every function of utils/cplx.py, bodies executed on symbolic real/imaginary parts; obligations discharged by polynomial normal form and z3",
    "text": "Each cplx function (make_complex, numpy, real/imag, scalar_mult incl. out= and aliasing errors, matmul, inner_prod, outer_prod, einsum with part switches, conjugate/conj, elementwise mult/division, absolute_value, kronecker_prod, sigmoid, scalar_divide, inverse, norm_sqr, norm, the float32 constant I) is executed on fully symbolic operands for every enumerated shape and must equal native complex arithmetic on the decoded operands entry for entry; unsupported shapes and aliasing output buffers must raise. Additionally (front end G) 71 contract cases cover every function except kronecker_prod and the numpy-based sigmoid on operands of symbolic shape: equal to complex arithmetic for every size, with both outcomes of each shape test explored.",
    "note": "floats as reals; values unbounded, shapes enumerated (ranks 0..3, dims {1,2} quick / ranks 0..4, dims {1,2,3} thorough); division identities carry y != 0 as precondition; the shape-generic part (front end G) holds for all sizes and values, equalities decided by tensor-algebra normal form (sound, incomplete: a miss is undecided, never a violation without a replayed witness)",
}
EXPLANATION = "symbolic operands x = re + i*im with every entry a free real; result compared with numpy-operator spec on decoded operands"
TRUSTED = []


def _arr0(x):
    if isinstance(x, np.ndarray):
        return x
    a = np.empty((), dtype=object)
    a[()] = x
    return a


def _dec(t):
    a = st._obj(t)
    return _arr0(a[0] + a[1] * I)


def _shapes(dims, maxrank):
    out = [()]
    for r in range(1, maxrank + 1):
        out += list(itertools.product(dims, repeat=r))
    return out


def cases(tier):
    from qucumber.utils import cplx
    dims = (1, 2) if tier == "quick" else (1, 2, 3)
    C = []

    def add(name, fn, shapes, spec=None, exc=None, real_ops=(), tag=None, zero_imag=()):
        C.append({"name": name, "fn": fn, "shapes": shapes, "spec": spec, "exc": exc, "real_ops": real_ops, "zero_imag": zero_imag,
                  "id": "%s%s%s" % (name, "".join("(%s)" % ",".join(map(str, s)) for s in shapes), ("/" + tag) if tag else "")})

    ranks = 3 if tier == "quick" else 4
    for s in _shapes(dims, ranks):
        add("make_complex(x,y)", lambda x, y: cplx.make_complex(x, y), [s, s], lambda x, y: x + y * I, real_ops=(0, 1))
        add("make_complex(x)", lambda x: cplx.make_complex(x), [s], lambda x: x + 0 * x, real_ops=(0,))
        add("numpy", lambda x: cplx.make_complex(torch.tensor(np.real(cplx.numpy(x))), torch.tensor(np.imag(cplx.numpy(x)))), [s], lambda x: x)
        add("real", lambda x: cplx.make_complex(cplx.real(x)), [s], lambda x: _re(x))
        add("imag", lambda x: cplx.make_complex(cplx.imag(x)), [s], lambda x: _im(x))
        add("conj", lambda x: cplx.conj(x), [s], lambda x: np.conj(x))
        add("scalar_mult(x,scalar)", lambda x, y: cplx.scalar_mult(x, y), [s, ()], lambda x, y: x * y)
        add("scalar_mult(x,I)", lambda x: cplx.scalar_mult(x, cplx.I), [s], lambda x: x * I)
        add("elementwise_mult", lambda x, y: cplx.elementwise_mult(x, y), [s, s], lambda x, y: x * y)
        add("scalar_mult(out=buffer)", lambda x, y, s=s: _with_out(cplx, x, y, s), [s, s], lambda x, y: x * y)
        add("scalar_mult(out is x)", lambda x, y: cplx.scalar_mult(x, y, out=x), [s, s], exc=RuntimeError)
        add("scalar_mult(out is y)", lambda x, y: cplx.scalar_mult(x, y, out=y), [s, s], exc=RuntimeError)
        add("elementwise_division", lambda x, y: cplx.elementwise_division(x, y), [s, s], ("mul-back", lambda r, x, y: (r * y, x)))
        add("absolute_value", lambda x: cplx.make_complex(cplx.absolute_value(x)), [s], ("abs", None))
        add("sigmoid", lambda x, y: cplx.sigmoid(x, y), [s, s], ("sigmoid", None), real_ops=(0, 1))
        add("scalar_divide(x,scalar)", lambda x, y: cplx.scalar_divide(x, y), [s, ()], ("mul-back", lambda r, x, y: (r * y, x)))
        add("inverse", lambda x: cplx.inverse(x), [s], ("mul-back", lambda r, x: (r * x, x * 0 + 1)))
        add("inverse(exactly real operand)", lambda x: cplx.inverse(x), [s], ("mul-back", lambda r, x: (r * x, x * 0 + 1)), zero_imag=(0,))
        add("scalar_divide(x, exactly real scalar)", lambda x, y: cplx.scalar_divide(x, y), [s, ()], ("mul-back", lambda r, x, y: (r * y, x)), zero_imag=(1,))
        add("conj(exactly real operand)", lambda x: cplx.conj(x), [s], lambda x: np.conj(x), zero_imag=(0,))
        add("elementwise_division(x, exactly real y)", lambda x, y: cplx.elementwise_division(x, y), [s, s], ("mul-back", lambda r, x, y: (r * y, x)), zero_imag=(1,))
        if len(s) >= 1:
            add("elementwise_division(shape mismatch)", lambda x, y: cplx.elementwise_division(x, y), [s, s + (2,)], exc=ValueError)
    for s in _shapes(dims, ranks):
        if len(s) < 2:
            add("conjugate(rank<2 = conj)", lambda x: cplx.conjugate(x), [s], lambda x: np.conj(x))
        else:
            add("conjugate(conj transpose)", lambda x: cplx.conjugate(x), [s], lambda x: np.conj(np.swapaxes(x, 0, 1)))
    for n, m, k in itertools.product(dims, repeat=3):
        add("matmul(mat,mat)", lambda x, y: cplx.matmul(x, y), [(n, m), (m, k)], lambda x, y: np.matmul(x, y))
        add("kronecker_prod", lambda x, y: cplx.kronecker_prod(x, y), [(n, m), (k, m)], lambda x, y: _kron(x, y))
        add("einsum(ab,cd->acbd)", lambda x, y: cplx.einsum("ab,cd->acbd", x, y), [(n, m), (k, n)], lambda x, y: np.einsum("ab,cd->acbd", x, y))
        add("einsum(ib,ibg->bg)", lambda x, y: cplx.einsum("ib,ibg->bg", x, y), [(n, m), (n, m, k)], lambda x, y: np.einsum("ib,ibg->bg", x, y))
        add("matmul(batched)", lambda x, y: cplx.matmul(x, y), [(k, n, m), (k, m, n)], lambda x, y: np.matmul(x, y))
        add("matmul(mat,batched-rhs)", lambda x, y: cplx.matmul(x, y), [(n, m), (m, k, n)][:1] + [(m, k)], lambda x, y: np.matmul(x, y), tag="b")
    for n, m in itertools.product(dims, repeat=2):
        add("matmul(mat,vec)", lambda x, y: cplx.matmul(x, y), [(n, m), (m,)], lambda x, y: np.matmul(x, y))
        add("outer_prod", lambda x, y: cplx.outer_prod(x, y), [(n,), (m,)], lambda x, y: np.multiply.outer(x, np.conj(y)))
        add("einsum(b,bg->g,imag_part=False)", lambda x, y: cplx.make_complex(cplx.einsum("b,bg->g", x, y, imag_part=False)), [(n,), (n, m)],
            lambda x, y: _re(np.einsum("b,bg->g", x, y)))
        add("einsum(b,bg->g,real_part=False)", lambda x, y: cplx.make_complex(cplx.einsum("b,bg->g", x, y, real_part=False)), [(n,), (n, m)],
            lambda x, y: _im(np.einsum("b,bg->g", x, y)))
        add("einsum(ijb,ijbg->bg,imag_part=False)", lambda x, y: cplx.make_complex(cplx.einsum("ijb,ijbg->bg", x, y, imag_part=False)),
            [(n, n, m), (n, n, m, 2)], lambda x, y: _re(np.einsum("ijb,ijbg->bg", x, y)))
        add("matmul(shape mismatch)", lambda x, y: cplx.matmul(x, y), [(n, m), (m + 1, n)], exc=(RuntimeError, ValueError))
        if n != m:
            # vectors of different lengths have no inner product - a length-1 operand is not a scalar to be broadcast
            add("inner_prod(vectors of different lengths)", lambda x, y: cplx.inner_prod(x, y), [(n,), (m,)], exc=(RuntimeError, ValueError))
    # the same tensor OBJECT as both operands (squares, norms, x x^T): the result is the product of the operand with itself,
    # whatever shortcut a function takes when it notices that its arguments are identical
    for s in _shapes(dims, min(ranks, 3)):
        add("scalar_mult(x, x) same object", lambda x: cplx.scalar_mult(x, x), [s], lambda x: x * x)
        add("elementwise_mult(x, x) same object", lambda x: cplx.elementwise_mult(x, x), [s], lambda x: x * x)
        add("elementwise_division(x, x) same object", lambda x: cplx.elementwise_division(x, x), [s], ("mul-back", lambda r, x: (r * x, x)))
    for n in dims:
        add("matmul(A, A) same object", lambda x: cplx.matmul(x, x), [(n, n)], lambda x: np.matmul(x, x))
        add("matmul(A, A) same object, batched", lambda x: cplx.matmul(x, x), [(2, n, n)], lambda x: np.matmul(x, x))
        add("inner_prod(x, x) same object", lambda x: cplx.inner_prod(x, x), [(n,)], lambda x: np.sum(np.conj(x) * x))
        add("outer_prod(x, x) same object", lambda x: cplx.outer_prod(x, x), [(n,)], lambda x: np.multiply.outer(x, np.conj(x)))
        add("einsum(ij,jk->ik)(A, A) same object", lambda x: cplx.einsum("ij,jk->ik", x, x), [(n, n)], lambda x: np.einsum("ij,jk->ik", x, x))
        add("einsum(i,i->)(x, x) same object", lambda x: cplx.einsum("i,i->", x, x), [(n,)], lambda x: np.einsum("i,i->", x, x))
        add("kronecker_prod(A, A) same object", lambda x: cplx.kronecker_prod(x, x), [(n, n)], lambda x: _kron(x, x))
    # the index letters of an equation are the caller's choice: every letter torch accepts, in every role, with blanks,
    # and the implicit-output form (size-2 axes, where a clash with an internally added axis would not even raise)
    import string
    letters = string.ascii_lowercase + string.ascii_uppercase
    for o in range(0, 52, 3):
        a_, b_, c_ = (letters[(o + t) % 52] for t in range(3))
        for eq in ("%s%s,%s%s->%s%s" % (a_, b_, b_, c_, a_, c_), "%s%s,%s%s->%s%s" % (c_, a_, b_, a_, b_, c_)):
            add("einsum(index letters: %s)" % eq, lambda x, y, eq=eq: cplx.einsum(eq, x, y), [(2, 2), (2, 2)], lambda x, y, eq=eq: np.einsum(eq, x, y))
    for eq in ("ij, jk -> ik", "ij,jk", "ba,ab", "xy,yz->xz", "ay,by->ab", "ax,xb->ab"):
        add("einsum(equation form: %r)" % eq, lambda x, y, eq=eq: cplx.einsum(eq, x, y), [(2, 2), (2, 2)], lambda x, y, eq=eq: np.einsum(eq, x, y))
    add("einsum(no parts)", lambda x, y: _none_to_flag(cplx.einsum("b,b->b", x, y, real_part=False, imag_part=False)), [(2,), (2,)], ("is-none", None))
    for n in dims:
        add("inner_prod(vec,vec)", lambda x, y: cplx.inner_prod(x, y), [(n,), (n,)], lambda x, y: np.sum(np.conj(x) * y))
        add("norm_sqr", lambda x: cplx.make_complex(cplx.norm_sqr(x)), [(n,)], lambda x: _re(np.sum(np.conj(x) * x)))
        add("norm", lambda x: cplx.make_complex(cplx.norm(x)), [(n,)], ("norm", None))
        add("inner_prod(rank-2 operands)", lambda x, y: cplx.inner_prod(x, y), [(n, 2), (n, 2)], exc=ValueError)
        add("inner_prod(mixed ranks)", lambda x, y: cplx.inner_prod(x, y), [(n,), ()], exc=ValueError)
        add("outer_prod(matrix operand)", lambda x, y: cplx.outer_prod(x, y), [(n, 2), (n,)], exc=ValueError)
        add("outer_prod(scalar operand)", lambda x, y: cplx.outer_prod(x, y), [(), (n,)], exc=ValueError)
        add("kronecker_prod(vector operand)", lambda x, y: cplx.kronecker_prod(x, y), [(n,), (n, n)], exc=ValueError)
    add("inner_prod(scalar,scalar)", lambda x, y: cplx.inner_prod(x, y), [(), ()], lambda x, y: np.conj(x) * y)
    add("make_complex(rank-0 ndarray)", lambda: cplx.make_complex(np.array(1.5 - 2j)), [], lambda: np.array(1.5 - 2j))
    add("make_complex(rank-1 ndarray of one entry)", lambda: cplx.make_complex(np.array([1.5 - 2j])), [], lambda: np.array([1.5 - 2j]))
    add("inner_prod of two rank-0 ndarrays", lambda: cplx.inner_prod(cplx.make_complex(np.array(1.5 - 2j)), cplx.make_complex(np.array(0.5 + 1j))), [],
        lambda: np.conj(np.array(1.5 - 2j)) * np.array(0.5 + 1j))
    add("make_complex(ndarray)", lambda: cplx.make_complex(np.array([[1 + 2j, 0.5j], [3.0, -1 - 1j]])), [],
        lambda: np.array([[1 + 2j, 0.5j], [3.0, -1 - 1j]]))
    return C


def _re(x):
    x = _arr0(x) if isinstance(x, alg.P) else np.asarray(x)
    return st.map1(alg.re, x) if x.dtype == object else np.real(x) + 0j


def _im(x):
    x = _arr0(x) if isinstance(x, alg.P) else np.asarray(x)
    return st.map1(alg.im, x) if x.dtype == object else np.imag(x) + 0j


def _kron(x, y):
    a, b = x.shape
    c, d = y.shape
    return np.einsum("ab,cd->acbd", x, y).reshape(a * c, b * d)


def _with_out(cplx, x, y, s):
    """out= buffer: the returned object must be the buffer and hold the product."""
    buf = torch.full((2,) + tuple(s), 0.75, dtype=torch.double)       # a reused workspace: whatever it held is overwritten
    if isinstance(x, st.SymTensor):
        buf = st.fresh((2,) + tuple(s), "old_buffer_contents")
    r = cplx.scalar_mult(x, y, out=buf)
    if r is not buf:
        raise AssertionError("scalar_mult(out=buf) did not return the buffer")
    return buf


class _NoneFlag:
    pass


def _none_to_flag(r):
    return _NoneFlag() if r is None else r


def configs(tier):
    ids = sorted({c["name"] for c in cases(tier)})
    return [{"fn": n} for n in ids] + [{"fn": "generic"}, {"fn": "extreme finite values"}]


def canaries(tier):
    return [({"fn": "inner_prod(vec,vec)"}, "spec-conjugates-right-operand"), ({"fn": "kronecker_prod"}, "spec-swapped-order"),
            ({"fn": "generic"}, "generic-spec-conjugates-right-operand")]


def _operands(case, mk):
    ops = []
    for i, s in enumerate(case["shapes"]):
        nm = "xyz"[i]
        if i in case["real_ops"]:
            ops.append(mk(nm, tuple(s), True))
        else:
            t = mk(nm, (2,) + tuple(s), False)
            if i in case.get("zero_imag", ()) and isinstance(t, st.SymTensor):
                t._arr[1, ...] = alg.ZERO           # an operand that is exactly real (imaginary part identically 0)
            ops.append(t)
    return ops


def _generic_cases():
    from contracts import gsets
    return gsets.cases_for("C15")


def _extreme(ctx):
    from qucumber.utils import cplx
    """The reals of the symbolic run do not overflow.  Finite operands whose intermediate quantities overflow in a naive
    formulation (|1 + e^z|^2 for Re z > 355, squares of moduli beyond 1e154) are decided here on the real functions with
    numbers, against Python's complex arithmetic."""
    import cmath
    ctx.under_contract("cplx.sigmoid", "cplx.absolute_value")
    zs = [complex(x, y) for x in (-700.0, -360.0, -30.0, 0.5, 30.0, 360.0, 400.0, 555.5, 700.0) for y in (0.0, 1.0, -2.5)]
    re, im = torch.tensor([z.real for z in zs], dtype=torch.double), torch.tensor([z.imag for z in zs], dtype=torch.double)
    s = cplx.sigmoid(re, im)
    for i, z in enumerate(zs):
        want = 1 / (1 + cmath.exp(-z)) if z.real > 0 else cmath.exp(z) / (1 + cmath.exp(z))
        got = complex(float(s[0, i]), float(s[1, i]))
        ctx.holds("extreme/sigmoid(%r) == complex arithmetic" % (z,), abs(got - want) <= 1e-12 * (1 + abs(want)), "%r vs %r" % (got, want))
    big = [complex(3e150, -4e150), complex(-1e-150, 2e-150), complex(1e153, 1e153), complex(1e200, 1e-200), complex(-3e250, 4e250)]
    x = torch.tensor([[z.real for z in big], [z.imag for z in big]], dtype=torch.double)
    a = cplx.absolute_value(x)
    for i, z in enumerate(big):
        ctx.holds("extreme/absolute_value(%r) == |z|" % (z,), abs(float(a[i]) - abs(z)) <= 1e-12 * abs(z), "%r vs %r" % (float(a[i]), abs(z)))


def run_config(ctx, cfg):
    canary = getattr(ctx, "canary", None)
    if cfg["fn"] == "extreme finite values":
        return _extreme(ctx)
    if cfg["fn"] == "generic":
        # the same functions once more, on operands of symbolic shape: holds for every size (front end G)
        from contracts import generic
        for c in _generic_cases():
            ctx.under_contract("cplx." + c.name.split("[")[0].split("(")[0])
        generic.run_cases(ctx, _generic_cases(), "", canary=canary)
        return
    ctx.under_contract("cplx." + cfg["fn"].split("(")[0])
    for case in cases(ctx.tier):
        if case["name"] != cfg["fn"]:
            continue
        st.reset_logs()
        ops = _operands(case, lambda nm, shape, isreal: st.fresh(shape, nm))
        dec = [st._obj(o) if i in case["real_ops"] else _dec(o) for i, o in enumerate(ops)]
        nm = case["id"]
        if case["exc"] is not None:
            try:
                case["fn"](*ops)
                ctx.holds("%s/raises" % nm, False, "no exception raised for an unsupported shape / aliasing buffer")
            except case["exc"]:
                ctx.holds("%s/raises" % nm, True)
            continue
        res = case["fn"](*ops)
        if "out is" not in case["name"]:
            ctx.holds("%s/operands are not modified" % nm, all(o._stor.version == 0 for o in ops))
            if isinstance(res, st.SymTensor) and "real" != case["name"] and "imag" != case["name"]:
                ctx.holds("%s/result does not alias an operand" % nm, all(res._stor is not o._stor for o in ops) or case["name"] in ("real", "imag"))
        spec = case["spec"]
        if isinstance(spec, tuple):
            kind, f = spec
            if kind == "is-none":
                ctx.holds("%s/returns-None" % nm, isinstance(res, _NoneFlag))
                continue
            r = _dec(res)
            if kind == "mul-back":
                lhs, rhs = f(r, *dec)
                lhs, rhs = _arr0(lhs), _arr0(rhs)
                ctx.eq_arrays("%s/result*y==x" % nm, lhs, np.broadcast_to(rhs, np.shape(lhs)) if np.shape(rhs) != np.shape(lhs) else rhs)
            elif kind == "abs":
                x = dec[0]
                for k in np.ndindex(*r.shape):
                    ctx.eq("%s/square%s" % (nm, list(k)), r[k] * r[k], alg.re(x[k] * alg.conj(x[k])))
                    ctx.nonneg("%s/nonneg%s" % (nm, list(k)), r[k])
            elif kind == "norm":
                x = dec[0]
                ctx.eq("%s/square" % nm, r[()] * r[()] if r.shape == () else r.reshape(-1)[0] ** 2, sum((alg.re(v * alg.conj(v)) for v in x), ZERO))
                ctx.nonneg("%s/nonneg" % nm, r.reshape(-1)[0])
            elif kind == "sigmoid":
                z = dec[0] + dec[1] * I
                ez = st.map1(alg.exp, _arr0(z))
                ctx.eq_arrays("%s/result*(1+e^z)==e^z" % nm, r * (1 + ez), ez)
            continue
        want = _arr0(spec(*dec))
        if canary == "spec-conjugates-right-operand":
            want = np.sum(dec[0] * np.conj(dec[1]))
        if canary == "spec-swapped-order":
            want = _kron(dec[1], dec[0])
        want = np.asarray(want, dtype=object) if not isinstance(want, np.ndarray) else want
        if want.dtype != object:
            want = st._obj(want)
        r = _dec(res)
        ctx.holds("%s/shape" % nm, tuple(r.shape) == tuple(want.shape), "%s vs %s" % (r.shape, want.shape))
        if tuple(r.shape) == tuple(want.shape):
            ctx.eq_arrays(nm, r, want)
        if case["name"] in ("real", "imag"):
            from qucumber.utils import cplx
            v = getattr(cplx, case["name"])(ops[0])
            ctx.holds("%s/is-a-view" % nm, np.shares_memory(v._arr, ops[0]._arr) and v._stor is ops[0]._stor)
    ctx.frame("frame(operands not written)") if False else None


def replay(o):
    if o["cfg"].get("fn") == "generic":
        from contracts import generic
        return generic.replay_case(_generic_cases(), o)
    from drivers import C15 as D
    env = (o.get("witness") or {}).get("env") or {}
    return D.replay_case(o["cfg"]["fn"], o.get("short") or "", env)
