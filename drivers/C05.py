"""C05 concrete driver: conditionals vs brute-force joint, kernel invariance, empirical k-step law (bounded)."""
import numpy as np
import torch

from . import common as C


def _joint(par, pur):
    """table[v][h(,a)] = exp(-E)"""
    if not pur:
        W, b, c = par["weights"], par["visible_bias"], par["hidden_bias"]
        vs, hs = C.bits(len(b)), C.bits(len(c))
        T = np.zeros((len(vs), len(hs)))
        for i, v in enumerate(vs):
            for j, h in enumerate(hs):
                v_, h_ = np.array(v, float), np.array(h, float)
                T[i, j] = np.exp(b @ v_ + c @ h_ + h_ @ W @ v_)
        return vs, hs, T
    W, U_, b, c, d = par["weights_W"], par["weights_U"], par["visible_bias"], par["hidden_bias"], par["aux_bias"]
    vs = C.bits(len(b))
    ha = [(h, a) for h in C.bits(len(c)) for a in C.bits(len(d))]
    T = np.zeros((len(vs), len(ha)))
    for i, v in enumerate(vs):
        for j, (h, a) in enumerate(ha):
            v_, h_, a_ = np.array(v, float), np.array(h, float), np.array(a, float)
            T[i, j] = np.exp(b @ v_ + c @ h_ + d @ a_ + h_ @ W @ v_ + a_ @ U_ @ v_)
    return vs, ha, T


def make_rbm(cfg, env, rng, scale=1.0):
    from qucumber.rbm import BinaryRBM, PurificationRBM
    if cfg["rbm"] == "binary":
        rbm = BinaryRBM(cfg["nv"], cfg["nh"], gpu=False)
    else:
        rbm = PurificationRBM(cfg["nv"], cfg["nh"], cfg["na"], gpu=False)
    rbm = C.copied(rbm)
    for n, p in rbm.named_parameters():
        p.data = torch.tensor(rng.normal(0, scale, size=tuple(p.shape)), dtype=torch.double)

    class S:
        networks = ["rbm_am"]
    s = S()
    s.rbm_am = rbm
    C.set_env(s, env)
    return rbm


def native_check(cfg, env=None, seed=0, warm=False):
    rng = np.random.default_rng(seed)
    pur = cfg["rbm"] == "purification"
    rbm = make_rbm(cfg, env, rng)
    if warm:
        # history: the object has already sampled with other parameters; they are then replaced through .data
        v0 = torch.tensor(rng.integers(0, 2, size=(5, cfg["nv"])), dtype=torch.double)
        rbm.gibbs_steps(2, v0)
        for n_, p_ in rbm.named_parameters():
            p_.data = torch.tensor(rng.normal(0, 1.0, size=tuple(p_.shape)), dtype=torch.double)
        rbm.gibbs_steps(1, v0)
        for n_, p_ in rbm.named_parameters():
            p_.data *= 1.5
        # ... and then rearranged in place so that every tensor keeps its entry sum, norm and shape exactly (multiples of 1/8
        # exchanged between positions)
        for n_, p_ in rbm.named_parameters():
            p_.data = torch.tensor(rng.integers(-12, 13, size=tuple(p_.shape)) / 8.0, dtype=torch.double)
        rbm.gibbs_steps(1, v0)
        with torch.no_grad():
            for n_, p_ in rbm.named_parameters():
                if p_.numel() > 1:
                    p_.copy_(p_.flatten().roll(1).reshape(p_.shape))
    par = C.np_params(rbm)
    vs, hs, T = _joint(par, pur)
    fails = []
    # a single chain given as a 1-D state keeps its shape
    for ow in (False, True):
        v1 = torch.tensor(rng.integers(0, 2, size=(cfg["nv"],)), dtype=torch.double)
        o1 = rbm.gibbs_steps(2, v1, overwrite=ow)
        if tuple(o1.shape) != (cfg["nv"],) or not bool(((o1 == 0) | (o1 == 1)).all()):
            fails.append(("gibbs_steps on a 1-D start state returns shape %s (expected (%d,)) or non-binary values" % (tuple(o1.shape), cfg["nv"]), None))
    # overwrite=False never hands the caller's tensor (or memory shared with it) back, for any number of steps incl. 0:
    # continuing the returned chain in place must not reach the start state
    for k0 in (0, 1):
        x0 = torch.tensor(rng.integers(0, 2, size=(6, cfg["nv"])), dtype=torch.double)
        keep0 = x0.clone()
        r0 = rbm.gibbs_steps(k0, x0, overwrite=False)
        rbm.gibbs_steps(3, r0, overwrite=True)
        r0.fill_(0.5)
        if not torch.equal(x0, keep0):
            fails.append(("gibbs_steps(%d, x, overwrite=False) returned x itself / memory shared with x: editing the result changed the start state" % k0, None))
    # k given as a 0-d tensor / numpy array / numpy integer: the same number of steps as the int, and the caller's object
    # keeps its value (it is reused for the next call)
    for kname, kobj in (("0-d tensor", torch.tensor(2)), ("0-d numpy array", np.array(2)), ("numpy integer", np.int64(2))):
        xk = torch.tensor(rng.integers(0, 2, size=(4, cfg["nv"])), dtype=torch.double)
        try:
            torch.manual_seed(11)
            a_ = rbm.gibbs_steps(kobj, xk)
            torch.manual_seed(11)
            b_ = rbm.gibbs_steps(kobj, xk)
            torch.manual_seed(11)
            c_ = rbm.gibbs_steps(2, xk)
            if int(kobj) != 2 or not torch.equal(a_, c_) or not torch.equal(b_, c_):
                fails.append(("gibbs_steps with k given as a %s: the caller's k changed or a reused k gives other chains than k = 2" % kname, int(kobj)))
        except TypeError:
            pass                # a kind of number the library does not take at all is not this property's business
    V = torch.tensor(vs, dtype=torch.double)
    pi = T.sum(1)
    # conditionals
    if not pur:
        q = rbm.prob_h_given_v(V).numpy()
        for i in range(len(vs)):
            for j, h in enumerate(hs):
                w = np.prod([q[i, t] if h[t] else 1 - q[i, t] for t in range(len(h))])
                if not np.isclose(w, T[i, j] / pi[i], rtol=1e-9, atol=1e-12):
                    fails.append(("P(h|v) wrong", (i, j)))
        p = rbm.prob_v_given_h(torch.tensor(hs, dtype=torch.double)).numpy()
        zh = T.sum(0)
        for j in range(len(hs)):
            for i, v in enumerate(vs):
                w = np.prod([p[j, t] if v[t] else 1 - p[j, t] for t in range(len(v))])
                if not np.isclose(w, T[i, j] / zh[j], rtol=1e-9, atol=1e-12):
                    fails.append(("P(v|h) wrong", (i, j)))
        K = (T / pi[:, None]) @ (T / zh[None, :]).T
    else:
        qh = rbm.prob_h_given_v(V).numpy()
        qa = rbm.prob_a_given_v(V).numpy()
        for i in range(len(vs)):
            for j, (h, a) in enumerate(hs):
                w = np.prod([qh[i, t] if h[t] else 1 - qh[i, t] for t in range(len(h))]) * \
                    np.prod([qa[i, t] if a[t] else 1 - qa[i, t] for t in range(len(a))])
                if not np.isclose(w, T[i, j] / pi[i], rtol=1e-9, atol=1e-12):
                    fails.append(("P(h,a|v) wrong", (i, j)))
        p = rbm.prob_v_given_ha(torch.tensor([h for h, a in hs], dtype=torch.double), torch.tensor([a for h, a in hs], dtype=torch.double)).numpy()
        zh = T.sum(0)
        for j in range(len(hs)):
            for i, v in enumerate(vs):
                w = np.prod([p[j, t] if v[t] else 1 - p[j, t] for t in range(len(v))])
                if not np.isclose(w, T[i, j] / zh[j], rtol=1e-9, atol=1e-12):
                    fails.append(("P(v|h,a) wrong", (i, j)))
        K = (T / pi[:, None]) @ (T / zh[None, :]).T
    # the kernel actually executed (from the code's conditionals) must leave pi invariant
    if not np.allclose((pi / pi.sum()) @ K, pi / pi.sum(), rtol=1e-9):
        fails.append(("pi K != pi", None))
    # overwrite semantics
    s0 = V.clone()
    keep = s0.clone()
    out = rbm.gibbs_steps(2, s0, overwrite=False)
    if not torch.equal(s0, keep) or out.data_ptr() == s0.data_ptr():
        fails.append(("overwrite=False modified the start state", None))
    out = rbm.gibbs_steps(2, s0, overwrite=True)
    if out.data_ptr() != s0.data_ptr() or not torch.equal(out, s0):
        fails.append(("overwrite=True did not update the start state in place", None))
    if tuple(out.shape) != tuple(V.shape) or not bool(((out == 0) | (out == 1)).all()):
        fails.append(("samples not 0/1 of the requested shape", None))
    if not torch.equal(rbm.gibbs_steps(0, V), V):
        fails.append(("k=0 does not return the start state", None))
    # chains continued across calls: an earlier result is never modified by a later non-overwriting call
    s1 = rbm.gibbs_steps(1, V)
    snap = s1.clone()
    s2 = rbm.gibbs_steps(2, s1)
    s3 = rbm.gibbs_steps(1, V)
    if not torch.equal(s1, snap) or s2.data_ptr() == s1.data_ptr() or s3.data_ptr() in (s1.data_ptr(), s2.data_ptr()):
        fails.append(("a later call modified / reused the tensor returned by an earlier call", None))
    return fails[:6], (vs, K, pi)


def law_test(cfg, seed, k=2, chains=40000):
    """Empirical k-step law from a fixed start vs K^k, Hoeffding bound (bounded, statistical)."""
    rng = np.random.default_rng(seed)
    rbm = make_rbm(cfg, None, rng)
    _f, (vs, K, pi) = native_check(cfg, None, seed)
    torch.manual_seed(seed)
    start = torch.tensor([vs[-1]] * chains, dtype=torch.double)
    out = rbm.gibbs_steps(k, start).numpy()
    idx = (out @ (2 ** np.arange(len(vs[0]) - 1, -1, -1))).astype(int)
    emp = np.bincount(idx, minlength=len(vs)) / chains
    want = np.linalg.matrix_power(K, k)[len(vs) - 1]
    eps = np.sqrt(np.log(2 * len(vs) / 1e-9) / (2 * chains))
    return float(np.abs(emp - want).max()), float(eps)


def sample_twice(seed=0):
    """Two successive sample() calls from the same start state use fresh randomness (a continued chain would otherwise
    not follow the powers of the kernel): with 200 chains of 3 sites the two results coincide with probability < 1e-30."""
    fails = []
    for kind in ("positive", "complex", "mixed"):
        st = C.make_state(kind, 3, 2, 2)
        torch.manual_seed(seed)
        s0 = torch.zeros(200, 3, dtype=torch.double)
        a = st.sample(k=1, initial_state=s0.clone())
        b = st.sample(k=1, initial_state=s0.clone())
        if torch.equal(a, b):
            fails.append(("two successive sample() calls from the same start state returned identical batches (%s)" % kind, None))
    return fails


def replay(cfg, env):
    C.VIA[0] = cfg.get("via")
    if cfg["rbm"] == "sample":
        f = sample_twice()
        return {"reproduced": bool(f), "failed_clauses": [(a, str(b)) for a, b in f[:3]], "cfg": cfg}
    fails = []
    for s in range(3):
        fails, _ = native_check(cfg, env if s == 0 else None, s)
        if fails:
            break
    if not fails:
        fails, _ = native_check(cfg, None, 5, warm=True)
    if not fails:
        # kernel-level obligations (draw order, which state a conditional is taken of): compare the
        # empirical k-step law of the real sampler with K^k built from the exact conditionals
        for k in (1, 2):
            dev, eps = law_test(cfg, 11 + k, k=k, chains=60000)
            if dev > eps:
                fails.append(("empirical %d-step law of gibbs_steps deviates from K^k (max dev %.4f > Hoeffding bound %.4f)" % (k, dev, eps), dev))
                break
    return {"reproduced": bool(fails), "failed_clauses": [(a, str(b)) for a, b in fails[:4]], "env": env, "cfg": cfg}


def bounded(tier, seed):
    n, bad = 0, []
    cfgs = [{"rbm": "binary", "nv": 2, "nh": 3}, {"rbm": "binary", "nv": 3, "nh": 2}, {"rbm": "purification", "nv": 2, "nh": 2, "na": 2},
            {"rbm": "binary", "nv": 1, "nh": 2}, {"rbm": "purification", "nv": 1, "nh": 1, "na": 2}]
    if tier != "quick":
        cfgs += [{"rbm": "binary", "nv": 4, "nh": 4}, {"rbm": "purification", "nv": 3, "nh": 3, "na": 3}, {"rbm": "purification", "nv": 4, "nh": 4, "na": 3}]
    laws = []
    for c in cfgs:
        f, _ = native_check(c, None, seed)
        n += 1
        if f:
            bad.append((c, f[:2]))
        f, _ = native_check(c, None, seed + 1, warm=True)
        n += 1
        if f:
            bad.append((c, [("after earlier sampling and a parameter change through .data: %s" % (f[0][0],), f[0][1])]))
        for k in (1, 3):
            dev, eps = law_test(c, seed + k, k=k, chains=20000 if tier == "quick" else 100000)
            laws.append({"cfg": c, "k": k, "max_dev": round(dev, 5), "hoeffding_eps(1e-9)": round(eps, 5)})
            n += 1
            if dev > eps:
                bad.append((c, [("empirical %d-step law deviates from K^k beyond the Hoeffding bound" % k, dev)]))
    f = sample_twice(seed)
    n += 1
    if f:
        bad.append(({"sample": "two successive calls"}, f[:2]))
    return {"driver": "drivers/C05.native_check + law_test", "label": "bounded", "evaluations": n, "failures": len(bad),
            "bound": "float64; %d architectures; empirical k-step law (k=1,3) from one start state vs K^k with a 1e-9 Hoeffding bound" % len(cfgs),
            "law_tests": laws, "first_failures": bad[:3]}
