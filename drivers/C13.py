"""C13 concrete driver: streaming statistics vs one pass over every drawn sample on the real code (float64)."""
import numpy as np
import torch

from . import common as C


class Recorder:
    """Wraps a real state; records every sample() call and a copy of what it returned."""

    def __init__(self, st):
        self._st = st
        self.calls = []

    def __getattr__(self, n):
        return getattr(self._st, n)

    def sample(self, **k):
        out = self._st.sample(**k)
        self.calls.append((dict(k), out, out.clone()))
        return out


def one_case(obs_list, st, ns, nc, burn, steps, init=None, overwrite=False, system=False, vtol=1e-9):
    from qucumber.observables import System
    rec = Recorder(st)
    kw = dict(num_samples=ns, num_chains=nc, burn_in=burn, steps=steps)
    init_keep = None
    if init is not None:
        init_keep = init.clone()
        kw.update(initial_state=init, overwrite=overwrite)
    try:
        if system:
            res = System(*obs_list).statistics(rec, **kw)
        else:
            res = {obs_list[0].name: obs_list[0].statistics(rec, **kw)}
    except Exception as e:
        return ["raised %r" % (e,)]
    fails = []
    n_eff = len(init) if init is not None else (min(nc, ns) if nc != 0 else ns)
    T = -(-ns // n_eff)
    if len(rec.calls) != T:
        fails.append("number of draws %d != ceil(ns/nc) = %d" % (len(rec.calls), T))
    for i, (k, out, copy) in enumerate(rec.calls):
        if k.get("k") != (burn if i == 0 else steps):
            fails.append("draw %d used k=%s" % (i, k.get("k")))
        if k.get("overwrite") is not True or k.get("num_samples") != n_eff:
            fails.append("draw %d: overwrite / num_samples wrong: %s" % (i, {a: b for a, b in k.items() if a != "initial_state"}))
        if i > 0 and k.get("initial_state") is not rec.calls[i - 1][1]:
            fails.append("draw %d does not continue the previous chains" % i)
    if init is not None and rec.calls:
        first = rec.calls[0][0].get("initial_state")
        if overwrite and first is not init:
            fails.append("overwrite=True but the caller's chains were not used")
        if not overwrite and (first is init or not torch.equal(init, init_keep)):
            fails.append("overwrite=False but the caller's chains were used / modified")
    allsamples = torch.cat([c for (_k, _o, c) in rec.calls]) if rec.calls else torch.zeros(0, st.num_visible)
    for o in obs_list:
        vals = o.apply(st, allsamples.clone()).double().numpy()
        r = res[o.name]
        n = len(vals)
        if r["num_samples"] != n or n < ns or n != T * n_eff:
            fails.append("%s: num_samples %s vs drawn %d (requested %d)" % (o.name, r["num_samples"], n, ns))
        if abs(r["mean"] - vals.mean()) > 1e-9 * (1 + abs(vals.mean())):
            fails.append("%s: mean %r != one-pass %r" % (o.name, r["mean"], vals.mean()))
        if n >= 2:
            v = vals.var(ddof=1)
            if not (abs(r["variance"] - v) <= vtol * (1 + abs(v))):
                fails.append("%s: variance %r != one-pass unbiased %r" % (o.name, r["variance"], v))
            if not (abs(r["std_error"] - np.sqrt(v / n)) <= vtol * (1 + np.sqrt(v / n))):
                fails.append("%s: std_error wrong" % o.name)
    return fails


def large_counts():
    """More than 2**24 samples with a remainder of one: the count is never less than requested (stand-in state whose
    draws cost nothing; the observable is a constant)."""
    from qucumber.observables import ObservableBase, System

    class Const(ObservableBase):
        def apply(self, nn_state, samples):
            return torch.ones(samples.shape[0], dtype=torch.double)

    class Draws:
        num_visible = 1
        device = "cpu"

        def __init__(self):
            self.n = 0

        def sample(self, k, num_samples=None, initial_state=None, overwrite=False):
            self.n += 1
            return initial_state if initial_state is not None else torch.zeros(num_samples, 1, dtype=torch.double)
    f = []
    for ns, nc in ((4096 * 4097 + 1, 4097), (2 ** 24 + 1, 2 ** 12), (3 * 2 ** 23 + 1, 2 ** 13)):
        want = -(-ns // nc)
        for system in (False, True):
            d = Draws()
            c = Const()
            res = System(c).statistics(d, ns, num_chains=nc)[c.name] if system else c.statistics(d, ns, num_chains=nc)
            if res["num_samples"] < ns or res["num_samples"] != want * nc or d.n != want:
                f.append("num_samples=%d num_chains=%d (%s): %d draws, %d samples reported; expected %d draws, %d samples >= requested"
                         % (ns, nc, "System" if system else "alone", d.n, res["num_samples"], want, want * nc))
    return f


def native_check(seed=0, quick=True):
    from qucumber.observables import SigmaZ, SigmaX, NeighbourInteraction
    rng = np.random.default_rng(seed)
    torch.manual_seed(seed)
    fails = []
    n = 0
    f = large_counts()
    n += 1
    if f:
        fails.append(({"num_samples": "above 2**24 with a remainder"}, f[:2]))
    for kind in ("positive", "complex", "mixed"):
        st = C.make_state(kind, 3, 2, 2)
        C.randomize(st, rng, 0.6)
        combos = [(5, 1), (1, 0), (1, 1), (6, 4), (10, 3), (7, 0), (4, 9), (8, 2), (9, 9)]
        if not quick:
            combos += [(ns, nc) for ns in range(1, 12) for nc in range(0, 13)]
        for ns, nc in combos:
            for burn, steps in ((3, 1), (0, 2), (2, 0)):
                for system in (False, True):
                    obs = [SigmaZ(), SigmaX() + 2 * NeighbourInteraction(c=1)] if system else [SigmaZ() - 0.5 * SigmaX()]
                    f = one_case(obs, st, ns, nc, burn, steps, system=system)
                    n += 1
                    if f:
                        fails.append(({"kind": kind, "num_samples": ns, "num_chains": nc, "burn_in": burn, "steps": steps, "system": system}, f[:2]))
        # an observable whose mean is many orders of magnitude above its spread, merged over many chunks: the streaming
        # variance must not lose the spread to cancellation
        for system in (False, True):
            obs = [SigmaZ() + 1e7, SigmaX() - 3e6] if system else [SigmaZ() + 1e7]
            f = one_case(obs, st, 1000, 37, 3, 1, system=system, vtol=1e-6)
            n += 1
            if f:
                fails.append(({"kind": kind, "observable": "mean 1e7, spread < 1", "num_samples": 1000, "num_chains": 37, "system": system}, f[:2]))
        # a user-defined observable whose local estimator is a derivative taken with autograd (d/dv of the sum of the
        # effective energies, say): alone and in a System
        from qucumber.observables import ObservableBase

        class Slope(ObservableBase):
            def apply(self, nn_state, samples):
                v = samples.clone().requires_grad_(True)
                e = (v * v).sum() + v.sum(1).pow(3).sum()
                (g,) = torch.autograd.grad(e, v)
                return g.sum(1).detach()
        if kind != "mixed":
            for system in (False, True):
                try:
                    f = one_case([Slope(), SigmaZ()] if system else [Slope()], st, 9, 4, 1, 1, system=system)
                except RuntimeError as e:
                    f = ["an observable that differentiates with autograd cannot be evaluated: %s" % e]
                n += 1
                if f:
                    fails.append(({"kind": kind, "observable": "estimator computed with torch.autograd.grad", "system": system}, f[:2]))
        # re-entrant use: an observable whose estimator asks another observable (one that is part of the same System, or
        # itself being evaluated by an outer call) for its statistics on the state, in the middle of the outer run
        raw = st

        class Nest(ObservableBase):
            def __init__(self, other):
                self.name, self.symbol, self.other, self.depth = "Nest", "N", other, 0

            def apply(self, nn_state, samples):
                if self.depth == 0:
                    self.depth = 1
                    try:
                        self.other.statistics(raw, 6, num_chains=3, burn_in=1, steps=1)
                    finally:
                        self.depth = 0
                return samples.sum(1) - 1.0
        if kind != "mixed":
            shared = SigmaZ()
            for obs, system in (([shared, Nest(shared)], True), ([Nest(shared), shared], True), ([Nest(shared)], False)):
                try:
                    f = one_case(obs, st, 9, 4, 1, 1, system=system)
                except Exception as e:                       # noqa: BLE001
                    f = ["an observable that asks another one for its statistics during a run: %r" % (e,)]
                n += 1
                if f:
                    fails.append(({"kind": kind, "observable": "asks another observable of the same run for its statistics", "system": system,
                                   "order": [o.name for o in obs]}, f[:2]))
        for ow in (False, True):
            init = torch.tensor(rng.integers(0, 2, size=(4, 3)), dtype=torch.double)
            f = one_case([SigmaZ()], st, 10, 7, 2, 1, init=init, overwrite=ow)
            n += 1
            if f:
                fails.append(({"kind": kind, "initial_state": "4 chains", "overwrite": ow}, f[:2]))
    return fails, n


def replay(cfg, model, short):
    from qucumber.observables import SigmaZ
    if model and "@num_samples" in model:
        try:
            ns, nc, b, s = (int(model["@" + k]) for k in ("num_samples", "num_chains", "burn_in", "steps"))
            st = C.make_state("positive", 2, 2)
            f = one_case([SigmaZ()], st, ns, nc, min(b, 5), min(s, 5))
            if f:
                return {"reproduced": True, "failed_clauses": f[:3], "input": {"num_samples": ns, "num_chains": nc, "burn_in": min(b, 5), "steps": min(s, 5)}}
        except (ValueError, KeyError):
            pass
    if model and "@len_a" in model:
        from qucumber.observables.utils import _update_statistics
        from fractions import Fraction
        try:
            args = [float(Fraction(model["@" + k])) for k in ("avg_a", "var_a", "len_a", "avg_b", "var_b", "len_b")]
            if args[5] == 1:
                args[4] = float("nan")       # torch.var_mean of a single sample
            if args[2] == 1:
                args[1] = float("nan")
            try:
                r = _update_statistics(args[0], args[1], int(args[2]), args[3], args[4], int(args[5]))
                n = int(args[2]) + int(args[5])
                if n >= 2 and r[1] != r[1]:
                    return {"reproduced": True, "failed_clauses": ["merged variance is NaN although %d samples were merged" % n], "input": args}
            except ZeroDivisionError as e:
                return {"reproduced": True, "failed_clauses": ["_update_statistics%r raised %r" % (tuple(args), e)], "input": args}
        except (ValueError, KeyError):
            pass
    f, n = native_check(0, True)
    return {"reproduced": bool(f), "failed_clauses": [str(x)[:300] for x in f[:3]]}


def bounded(tier, seed):
    f, n = native_check(seed, tier == "quick")
    return {"driver": "drivers/C13.native_check", "label": "bounded", "evaluations": n, "failures": len(f),
            "bound": "real sampling on 3 state types; (num_samples, num_chains) incl. 0, 1, non-divisors, > num_samples; burn_in/steps incl. 0; user chains with overwrite on/off; single and several observables; every drawn sample recorded and re-evaluated in one pass",
            "first_failures": [str(x)[:300] for x in f[:3]]}
