"""C16 concrete driver: random expression trees over the real observables vs direct arithmetic (float64)."""
import random

import numpy as np
import torch


def native_check(seed=0, trees=60, depth=6):
    from qucumber.observables import SigmaX, SigmaY, SigmaZ, NeighbourInteraction, SWAP
    from qucumber.observables.observable import SumObservable, ProdObservable, ObservableBase
    from drivers import common as C
    rnd = random.Random(seed)
    rng = np.random.default_rng(seed)
    fails = []
    states = []
    for kind in ("positive", "complex", "mixed"):
        st = C.make_state(kind, 3, 2, 2)
        C.randomize(st, rng, 0.5)
        states.append(st)
    leaves = [SigmaX, SigmaY, SigmaZ, lambda: NeighbourInteraction(c=1), lambda: NeighbourInteraction(periodic_bcs=True, c=2), lambda: SWAP([0, 2])]
    scal = [0, 1, -3, 2.5, -0.25, np.float64(1.5), True, 7]

    def gen(d):
        """returns (observable, function samples->tensor)"""
        if d == 0 or rnd.random() < 0.2:
            o = rnd.choice(leaves)()
            return o, (lambda st, s, o=o: o.apply(st, s))
        op = rnd.choice(["neg", "add", "sub", "mulr", "mull", "addc", "radd", "subc", "rsub"])
        a, fa = gen(d - 1)
        if op == "neg":
            return -a, (lambda st, s: -fa(st, s))
        if op in ("add", "sub"):
            b, fb = gen(d - 1)
            return (a + b, lambda st, s: fa(st, s) + fb(st, s)) if op == "add" else (a - b, lambda st, s: fa(st, s) - fb(st, s))
        c = rnd.choice(scal)
        if op == "mulr":
            return a * c, (lambda st, s: fa(st, s) * float(c))
        if op == "mull":
            return c * a, (lambda st, s: float(c) * fa(st, s))
        if op == "addc":
            return a + c, (lambda st, s: fa(st, s) + float(c))
        if op == "radd":
            return c + a, (lambda st, s: float(c) + fa(st, s))
        if op == "subc":
            return a - c, (lambda st, s: fa(st, s) - float(c))
        return c - a, (lambda st, s: float(c) - fa(st, s))
    n = 0
    from qucumber.observables.observable import ObservableBase as _OB
    for t in range(trees):
        try:
            o, f = gen(rnd.randint(1, depth))
        except Exception as e:
            # building a linear combination of observables and real scalars must not raise
            n += 1
            fails.append(("building a random linear combination raised", repr(e)[:200]))
            continue
        if not isinstance(o, _OB):
            n += 1
            fails.append(("a linear combination of observables and scalars is not an observable", type(o).__name__ + ": " + repr(o)[:120]))
            continue
        st = states[t % 3]
        samples = torch.tensor(rng.integers(0, 2, size=(5, 3)), dtype=torch.double)
        keep = samples.clone()
        got = o.apply(st, samples)
        want = f(st, samples)
        n += 1
        if not torch.allclose(torch.as_tensor(got, dtype=torch.double), torch.as_tensor(want, dtype=torch.double), rtol=1e-10, atol=1e-12):
            fails.append((repr(o)[:200], "apply differs from the arithmetic on the leaves"))
        stats = o.statistics_from_samples(st, samples)
        w = torch.as_tensor(want, dtype=torch.double)
        if abs(stats["mean"] - float(w.mean())) > 1e-9 or abs(stats["variance"] - float(w.var())) > 1e-9 * (1 + float(w.var())):
            fails.append((repr(o)[:200], "statistics differ from those of the combined per-sample value"))
        if not torch.equal(samples, keep):
            fails.append((repr(o)[:200], "samples modified"))
    st = states[1]
    samples = torch.tensor(rng.integers(0, 2, size=(6, 3)), dtype=torch.double)
    for o, f in ((SigmaZ() + SigmaZ(absolute=True), lambda s: SigmaZ().apply(st, s) + SigmaZ(absolute=True).apply(st, s)),
                 (SWAP([0, 1]) + SWAP([2]), lambda s: SWAP([0, 1]).apply(st, s) + SWAP([2]).apply(st, s))):
        n += 1
        if not torch.allclose(o.apply(st, samples), f(samples), rtol=1e-10, atol=1e-12):
            fails.append((repr(o), "sum of two observables that share a name differs from the sum of their values"))
    # history: the same composite evaluated again on the same tensor object after the chains moved in place, and after
    # the state's parameters changed
    H = -1 * NeighbourInteraction(c=1) - 3 * SigmaX() + 1
    ref = lambda s_, smp: -1 * NeighbourInteraction(c=1).apply(s_, smp) - 3 * SigmaX().apply(s_, smp) + 1      # noqa: E731
    smp = torch.tensor(rng.integers(0, 2, size=(6, 3)), dtype=torch.double)
    H.apply(st, smp)
    smp.copy_(1 - smp)
    n += 1
    if not torch.allclose(H.apply(st, smp), ref(st, smp), rtol=1e-10, atol=1e-12):
        fails.append((repr(H), "second evaluation on the same tensor object after an in-place change of the samples is stale"))
    C.randomize(st, rng, 0.7)
    n += 1
    if not torch.allclose(H.apply(st, smp), ref(st, smp), rtol=1e-10, atol=1e-12):
        fails.append((repr(H), "evaluation after the state's parameters changed is stale"))
    # an observable that is already part of other expressions keeps its own value
    Hs = SigmaZ() + NeighbourInteraction(c=1)
    base = Hs.apply(st, smp).clone()
    H2s, H3s = Hs + 3, Hs - SigmaX()
    n += 1
    if not torch.allclose(Hs.apply(st, smp), base, rtol=1e-10, atol=1e-12) or not torch.allclose(H2s.apply(st, smp), base + 3, rtol=1e-10, atol=1e-12) \
            or not torch.allclose((2 * Hs - (Hs + SigmaZ())).apply(st, smp), 2 * base - (base + SigmaZ().apply(st, smp)), rtol=1e-10, atol=1e-12):
        fails.append((repr(Hs), "an operand changed its value after composites were built from it (or a shared sub-expression is wrong)"))
    # an evaluation in which a leaf raised (caught by the caller) leaves no trace
    class Refusing(ObservableBase):
        refuse = False

        def apply(self, nn_state, samples):
            if self.refuse:
                raise ValueError("refused by a leaf")
            return samples.sum(-1) * 0.5
    rf = Refusing()
    shared = SigmaZ() + NeighbourInteraction(c=1)
    tree = (shared * 2 + rf) - shared
    want = lambda s_, x: shared.apply(s_, x) * 2 + rf.apply(s_, x) - shared.apply(s_, x)      # noqa: E731
    tree.apply(st, smp)
    rf.refuse = True
    try:
        tree.apply(st, smp)
        fails.append((repr(tree), "an error raised by a leaf did not reach the caller"))
    except ValueError:
        pass
    rf.refuse = False
    smp2 = torch.tensor(rng.integers(0, 2, size=(6, 3)), dtype=torch.double)
    n += 1
    ref_sh = SigmaZ().apply(st, smp2) + NeighbourInteraction(c=1).apply(st, smp2)
    if not torch.allclose(tree.apply(st, smp2), ref_sh * 2 + rf.apply(st, smp2) - ref_sh, rtol=1e-10, atol=1e-12) \
            or not torch.allclose(shared.apply(st, smp2), ref_sh, rtol=1e-10, atol=1e-12) \
            or not torch.allclose((SigmaZ() * 3 + SigmaX()).apply(st, smp2), SigmaZ().apply(st, smp2) * 3 + SigmaX().apply(st, smp2), rtol=1e-10, atol=1e-12):
        fails.append((repr(tree), "evaluations after a failed evaluation (a leaf raised, the caller caught it) are not the arithmetic on the current leaves"))
    # history: the batch of an earlier evaluation has been freed and another batch of the same shape sits where it was
    Hm = 2 * SigmaX() - SigmaZ() + 1
    first = torch.tensor(rng.integers(0, 2, size=(6, 3)), dtype=torch.double)
    other = 1.0 - first
    b2 = C.at_freed_address(lambda: first.clone(), lambda a: Hm.apply(st, a), lambda: other.clone())
    n += 1
    if b2 is not None and not torch.allclose(Hm.apply(st, b2), 2 * SigmaX().apply(st, other) - SigmaZ().apply(st, other) + 1, rtol=1e-10, atol=1e-12):
        fails.append((repr(Hm), "a composite evaluated on a batch that sits at the address of a freed earlier batch is not the arithmetic on its leaves"))
    for bad in (lambda: SigmaX() * SigmaZ(), lambda: ProdObservable(2, 3)):
        try:
            bad()
            fails.append(("non-linear combination accepted", None))
        except ValueError:
            pass
    for bad in (lambda: SigmaX() + "a", lambda: SigmaX() * None, lambda: SigmaX() * "2", lambda: "2" * SigmaX() if False else ProdObservable("2", SigmaX()),
                lambda: SumObservable(SigmaZ(), b"3"), lambda: [1] + SigmaZ() if False else SumObservable([1], SigmaZ())):
        try:
            bad()
            fails.append(("non-numeric operand accepted", None))
        except TypeError:
            pass
    return fails, n


def replay():
    f, n = native_check(0, 40)
    return {"reproduced": bool(f), "failed_clauses": f[:3]}


def bounded(tier, seed):
    f, n = native_check(seed, 40 if tier == "quick" else 400)
    return {"driver": "drivers/C16.native_check", "label": "bounded", "evaluations": n, "failures": len(f),
            "bound": "%d random expression trees of depth <= 6 over the built-in observables and scalars, three state types, batch of 5" % n,
            "first_failures": [str(x) for x in f[:3]]}
