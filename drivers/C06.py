"""C06 concrete driver: one real training run with a recording SGD; every step compared with the CD formula (float64)."""
import math

import numpy as np
import torch

from . import common as C


def native_check(kind, N, B, negB, k, epochs=2, seed=0, use_sched=True, reinit=False):
    rng = np.random.default_rng(seed)
    torch.manual_seed(seed)
    st = C.make_state(kind, 2, 2, 1)
    if reinit:
        st.reinitialize_parameters()        # history: the state was re-initialised before training
        for net in st.networks:
            getattr(st, net).eval()         # ... and torch's nn.Module.eval() was called on its networks (an evaluation callback does)
    C.randomize(st, rng, 0.5)
    if kind == "mixed":
        st.rbm_ph.aux_bias.data.zero_()
    data = torch.tensor(rng.integers(0, 2, size=(N, 2)), dtype=torch.double)
    bases = None
    if kind != "positive":
        bases = np.array([list(rng.choice(["XZ", "ZZ", "ZY", "YX"])) for _ in range(N)])
        bases[0] = list("ZZ")
    log = {"steps": [], "sched": 0, "epoch_steps": []}
    fails = []
    real_cbg = st.compute_batch_gradients
    last = {}

    def spy(kk, *batch):
        # recompute the CD formula independently with the same RNG stream for the Gibbs chain
        state = torch.get_rng_state()
        g = real_cbg(kk, *batch)
        torch.set_rng_state(state)
        pos = st.positive_phase_gradients(batch[0], *( [batch[2]] if len(batch) > 2 else []))
        vk = st.rbm_am.gibbs_steps(kk, batch[1])
        if not bool(((vk == 0) | (vk == 1)).all()):
            fails.append("the negative-phase chains after k steps are not configurations (entries other than 0 / 1)")
        want0 = pos[0] - st.rbm_am.effective_energy_gradient(vk) / float(batch[1].shape[0])
        if not torch.allclose(g[0], want0, rtol=1e-10, atol=1e-12):
            fails.append("amplitude gradient != positive - G(vk)/|neg|")
        if len(g) > 1 and not torch.allclose(g[1], pos[1], rtol=1e-10, atol=1e-12):
            fails.append("phase gradient != positive phase")
        if kk != k:
            fails.append("k not passed through")
        last["g"] = [x.clone() for x in g]
        last["before"] = [p.detach().clone() for net in st.networks for p in getattr(st, net).parameters()]
        return g
    st.compute_batch_gradients = spy
    lr = 0.05

    class SGD(torch.optim.SGD):
        def step(self, *a, **kw):
            r = super().step(*a, **kw)
            params = [p for net in st.networks for p in getattr(st, net).parameters()]
            cur_lr = self.param_groups[0]["lr"]
            off = {net: 0 for net in st.networks}
            i = 0
            for ni, net in enumerate(st.networks):
                for p in getattr(st, net).parameters():
                    n = p.numel()
                    want = last["before"][i] - cur_lr * last["g"][ni][off[net]:off[net] + n].view(p.shape)
                    if not torch.allclose(p.detach(), want, rtol=1e-10, atol=1e-12):
                        fails.append("parameter %s[%d] did not move by -lr*gradient slice" % (net, i))
                    off[net] += n
                    i += 1
            log["steps"].append(cur_lr)
            return r

    class Sched(torch.optim.lr_scheduler.StepLR):
        def step(self, *a, **kw):
            log["sched"] += 1
            return super().step(*a, **kw)
    kw = dict(epochs=epochs, pos_batch_size=B, neg_batch_size=negB, k=k, lr=lr, optimizer=SGD)
    if use_sched:
        kw.update(scheduler=Sched, scheduler_args={"step_size": 1, "gamma": 0.5})
    if bases is not None:
        kw["input_bases"] = bases
    # a few idle callbacks (their number is unrelated to k): the update rule does not depend on who listens
    from qucumber.callbacks import LambdaCallback
    kw["callbacks"] = [LambdaCallback() for _ in range((seed + N) % 3 + (0 if k == 0 else 2 if k == 1 else 1))]
    st.fit(data, **kw)
    nb = math.ceil(N / B)
    if len(log["steps"]) != nb * epochs:
        fails.append("optimizer steps %d != batches %d" % (len(log["steps"]), nb * epochs))
    if use_sched and log["sched"] != epochs + 1:        # StepLR calls step() once at construction
        fails.append("scheduler advanced %d times for %d epochs" % (log["sched"] - 1, epochs))
    if use_sched and len(log["steps"]) == nb * epochs:
        for e in range(epochs):
            for s in log["steps"][e * nb:(e + 1) * nb]:
                if abs(s - lr * 0.5 ** e) > 1e-15:
                    fails.append("learning rate within epoch %d is %r, expected %r" % (e + 1, s, lr * 0.5 ** e))
                    break
    return fails


def restored_checkpoint(kind, seed=0):
    """Interplay: a callback saves a checkpoint at train start and loads it back in the middle of the run; every later step
    is still theta - lr * gradient on the state's parameters (plain SGD, gradient taken from the public per-batch method)."""
    import os
    import tempfile
    from qucumber.callbacks import LambdaCallback
    rng = np.random.default_rng(seed)
    torch.manual_seed(seed)
    st = C.make_state(kind, 2, 2, 1)
    C.randomize(st, rng, 0.5)
    if kind == "mixed":
        st.rbm_ph.aux_bias.data.zero_()
    data = torch.tensor(rng.integers(0, 2, size=(4, 2)), dtype=torch.double)
    kw = {} if kind == "positive" else {"input_bases": np.array([list("ZZ"), list("XZ"), list("ZZ"), list("ZY")])}
    tmp = tempfile.mkdtemp(prefix="vf_c06_")
    path = os.path.join(tmp, "ck.pt")
    fails, grads, snap = [], {}, {}
    real = st.compute_batch_gradients

    def spy(*a, **k):
        g = real(*a, **k)
        grads["g"] = [x.clone() for x in g]
        return g
    st.compute_batch_gradients = spy

    def flat(net):
        return torch.cat([p.detach().reshape(-1) for p in getattr(st, net).parameters()])

    def batch_start(s, e, b):
        if (e, b) == (2, 1):
            s.load(path)
        snap["p"] = [flat(n).clone() for n in s.networks]

    def batch_end(s, e, b):
        for i, n in enumerate(s.networks):
            want = snap["p"][i] - 0.1 * grads["g"][i]
            if not torch.allclose(flat(n), want, rtol=1e-12, atol=1e-14):
                fails.append("epoch %d batch %d: %s did not move by -lr * gradient (a checkpoint was restored from a callback at epoch 2, batch 1)" % (e, b, n))
    try:
        st.fit(data, epochs=3, pos_batch_size=2, neg_batch_size=2, k=1, lr=0.1,
               callbacks=[LambdaCallback(on_train_start=lambda s: s.save(path), on_batch_start=batch_start, on_batch_end=batch_end)], **kw)
    finally:
        import shutil
        shutil.rmtree(tmp, ignore_errors=True)
    return fails[:3]


def nested_fit(kind, seed=0):
    """A callback of a running fit trains the same state for one epoch with another learning rate, optimizer class and
    scheduler: the outer run goes on with its own optimizer, learning rate and scheduler."""
    from qucumber.callbacks import LambdaCallback
    rng = np.random.default_rng(seed)
    torch.manual_seed(seed)
    st = C.make_state(kind, 2, 2, 1)
    N, B = 5, 2
    data = torch.tensor(rng.integers(0, 2, size=(N, 2)), dtype=torch.double)
    kw = {}
    if kind != "positive":
        b = np.array([list(rng.choice(["XZ", "ZZ", "ZY"])) for _ in range(N)])
        b[0] = list("ZZ")
        kw["input_bases"] = b
    log = []

    def mk(tag):
        class Opt(torch.optim.SGD):
            def step(self, *a, **k_):
                before = [p.detach().clone() for p in self.param_groups[0]["params"]]
                grads = [p.grad.detach().clone() for p in self.param_groups[0]["params"]]
                r = super().step(*a, **k_)
                lr_ = self.param_groups[0]["lr"]
                ok = all(torch.allclose(p.detach(), b0 - lr_ * g, rtol=1e-12, atol=1e-14) for p, b0, g in zip(self.param_groups[0]["params"], before, grads))
                log.append((tag, lr_, ok))
                return r
        return Opt
    sched_steps = {"outer": 0}

    class Sched(torch.optim.lr_scheduler.StepLR):
        def step(self, *a, **k_):
            sched_steps["outer"] += 1
            return super().step(*a, **k_)
    done = [False]

    def nested(s, e):
        if e == 1 and not done[0]:
            done[0] = True
            s.fit(data, epochs=1, pos_batch_size=B, k=1, lr=0.5, optimizer=mk("inner"), **kw)
    st.fit(data, epochs=3, pos_batch_size=B, k=1, lr=0.05, optimizer=mk("outer"), scheduler=Sched, scheduler_args={"step_size": 1, "gamma": 0.5},
           callbacks=[LambdaCallback(on_epoch_end=nested)], **kw)
    nb = math.ceil(N / B)
    want = [("outer", 0.05)] * nb + [("inner", 0.5)] * nb + [("outer", 0.025)] * nb + [("outer", 0.0125)] * nb
    f = []
    if [(t, round(l, 12)) for t, l, _ in log] != want:
        f.append("after a nested fit of the same state (lr 0.5) the outer run's steps are %s, expected its own optimizer at 0.05 / 0.025 / 0.0125"
                 % ([(t, round(l, 6)) for t, l, _ in log][nb * 2:nb * 2 + 3],))
    if not all(ok for _, _, ok in log):
        f.append("a step did not move the parameters by -lr * .grad")
    if sched_steps["outer"] != 3 + 1:
        f.append("the outer scheduler advanced %d times for 3 epochs" % (sched_steps["outer"] - 1))
    return f


def stock_sgd(kind, seed=0):
    """torch.optim.SGD itself (not a subclass), no optimizer arguments, a scheduler that changes the rate every epoch:
    every batch moves the parameters by -(scheduled rate) * gradient."""
    from qucumber.callbacks import LambdaCallback
    rng = np.random.default_rng(seed)
    torch.manual_seed(seed)
    st = C.make_state(kind, 2, 2, 1)
    N, B, lr = 5, 2, 0.2
    data = torch.tensor(rng.integers(0, 2, size=(N, 2)), dtype=torch.double)
    kw = {}
    if kind != "positive":
        b = np.array([list(rng.choice(["XZ", "ZZ", "ZY"])) for _ in range(N)])
        b[0] = list("ZZ")
        kw["input_bases"] = b
    real = st.compute_batch_gradients
    last, f = {}, []

    def spy(k_, *batch):
        g = real(k_, *batch)
        last["g"] = [x.detach().clone() for x in g]
        return g
    st.compute_batch_gradients = spy

    def params():
        return [p.detach().clone() for net in st.networks for p in getattr(st, net).parameters()]

    def start(s, e, b_):
        last["before"] = params()

    def end(s, e, b_):
        rate = lr * 0.5 ** (e - 1)
        i = 0
        for ni, net in enumerate(st.networks):
            off = 0
            for p in getattr(st, net).parameters():
                n_ = p.numel()
                want = last["before"][i] - rate * last["g"][ni][off:off + n_].view(p.shape)
                if not torch.allclose(p.detach(), want, rtol=1e-10, atol=1e-13):
                    f.append("epoch %d batch %d: %s parameter %d did not move by -(scheduled rate %g) * gradient" % (e, b_, net, i, rate))
                off += n_
                i += 1
    st.fit(data, epochs=3, pos_batch_size=B, k=1, lr=lr, optimizer=torch.optim.SGD, scheduler=torch.optim.lr_scheduler.StepLR,
           scheduler_args={"step_size": 1, "gamma": 0.5}, callbacks=[LambdaCallback(on_batch_start=start, on_batch_end=end)], **kw)
    return f[:3]


def cases(quick):
    c = [("positive", 5, 2, None, 1), ("positive", 4, 4, 3, 0), ("complex", 5, 3, 2, 2), ("mixed", 4, 2, None, 1)]
    if not quick:
        c += [("positive", 7, 3, 5, 3), ("complex", 6, 6, None, 1), ("mixed", 5, 5, 2, 2), ("complex", 3, 5, 4, 0)]
    return c


def replay(cfg):
    fails = []
    for kind in ("positive", "complex"):
        f = stock_sgd(kind)
        if f:
            fails.append(((kind, "torch.optim.SGD with a StepLR scheduler"), f[:2]))
    for kind in ("positive", "complex"):
        f = nested_fit(kind)
        if f:
            fails.append(((kind, "nested fit of the same state from a callback"), f[:2]))
    for kind in ("positive", "complex"):
        f = restored_checkpoint(kind)
        if f:
            fails.append(((kind, "checkpoint restored during the run"), f[:2]))
    for (kind, N, B, nB, k) in cases(True):
        f = native_check(kind, N, B, nB, k) or native_check(kind, N, B, nB, k, use_sched=False, reinit=True)
        if f:
            fails.append(((kind, N, B, nB, k), f[:2]))
    return {"reproduced": bool(fails), "failed_clauses": [str(x)[:300] for x in fails[:3]]}


def bounded(tier, seed):
    bad, n = [], 0
    for kind in ("positive", "complex", "mixed"):
        f = stock_sgd(kind, seed)
        n += 1
        if f:
            bad.append(((kind, "torch.optim.SGD with a StepLR scheduler"), f[:2]))
    for kind in ("positive", "complex"):
        f = nested_fit(kind, seed)
        n += 1
        if f:
            bad.append(((kind, "nested fit of the same state from a callback"), f[:2]))
    for kind in ("positive", "complex", "mixed"):
        f = restored_checkpoint(kind, seed)
        n += 1
        if f:
            bad.append(((kind, "checkpoint restored from a callback during the run"), f[:2]))
    for (kind, N, B, nB, k) in cases(tier == "quick"):
        for sched in (True, False):
            f = native_check(kind, N, B, nB, k, seed=seed, use_sched=sched)
            n += 1
            if f:
                bad.append(((kind, N, B, nB, k, sched), f[:2]))
        f = native_check(kind, N, B, nB, k, seed=seed + 3, use_sched=False, reinit=True)
        n += 1
        if f:
            bad.append(((kind, N, B, nB, k, "after reinitialize_parameters"), f[:2]))
    return {"driver": "drivers/C06.native_check", "label": "bounded", "evaluations": n, "failures": len(bad),
            "bound": "real fit with torch SGD (+StepLR): every step compared with theta - lr * slice of (positive - G(v_k)/|neg|), recomputed with the same RNG stream",
            "first_failures": [str(x)[:300] for x in bad[:3]]}
