#!/bin/bash
# tools/mut.sh <prop> <file-under-qucumber> <python-replace-old> <python-replace-new>  : run a check against a mutated scratch copy
set -e
PROP=$1; FILE=$2; OLD=$3; NEW=$4
SC=$(mktemp -d /tmp/vfmut.XXXXXX)
cp -r ${QUCUMBER_REPO:-/repo}/qucumber $SC/
python3 - "$SC/qucumber/$FILE" "$OLD" "$NEW" <<'PY'
import sys
p,old,new=sys.argv[1:4]
s=open(p).read()
assert old in s, "pattern not found"
open(p,'w').write(s.replace(old,new,1))
PY
set +e
QUCUMBER_REPO=$SC VF_EVIDENCE_DIR=$SC/ev VF_REPLAY_DIR=$SC/replay /verif/vf check $PROP --tier ${TIER:-quick} 2>&1 | grep -v condarc | tail -${TAIL:-6}
rm -rf $SC
