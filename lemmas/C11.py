"""C11 — saving and reloading reproduces the state exactly and has no side effects.

save / load / autoload are executed as the real function objects with torch.save /
torch.load replaced by recording contract stubs.  Their control flow inspects the
metadata only through truthiness and membership of the reserved names, so the
metadata classes enumerated below are a complete case analysis; values are opaque
objects compared by identity.
"""
import copy
import itertools
from unittest import mock

import numpy as np
import torch

LEVEL = "proof"
MANIFEST = {
    "engine": "qv-native",
    "category": "proof",
    "technique": "contracts on NeuralStateBase.save / load and the three autoload functions, executed as real function objects with torch.save / torch.load replaced by recording stubs; complete case analysis over the control-flow-relevant structure of the metadata (reserved keys present or not, empty or not) with opaque values; frame obligations by identity / deep comparison",
    "text": "save(location, metadata): raises ValueError iff metadata has a reserved key (a network name, or unitary_dict when the state has one), otherwise hands torch.save exactly {network: state_dict} + {unitary_dict} + metadata at the given location; the caller's metadata object is left unchanged (same keys, same value objects) so the same state and metadata can be saved again with the same result, and no parameter is written. load: every network's load_state_dict receives the file's entry (bit-identical parameters), map_location is the state's device, the unitary dictionary is restored. autoload: the architecture is inferred from the saved bias lengths (hidden / auxiliary sizes different from the visible size), custom unitaries are passed through, then load. The round trip through real files and interleavings of randomise / train / save / save-again / load / autoload are exercised by the bounded driver.",
    "note": "pickle (torch.save / torch.load) and state_dict / load_state_dict round trips are trusted library contracts; values of metadata entries are opaque",
}
EXPLANATION = "recording stubs for torch.save / torch.load; opaque metadata values; all three state types"
TRUSTED = ["torch.save / torch.load round-trip python dicts of tensors bit-identically", "nn.Module.state_dict / load_state_dict copy every parameter bit-identically"]

KINDS = ("positive", "complex", "mixed")


def configs(tier):
    # checkpoints written through the ModelSaver callback are part of the statement: its contract (C17's obligation set for
    # the callback) is shared here
    return [{"fn": "save", "kind": k} for k in KINDS] + [{"fn": "load", "kind": k} for k in KINDS] + [{"fn": "autoload", "kind": k} for k in KINDS] + [{"fn": "ModelSaver"}]


def canaries(tier):
    return [({"fn": "save", "kind": "complex"}, "spec-file-omits-metadata")]


def _state(kind, nv=2, nh=3, na=1, custom=False):
    from drivers import common as DC
    from qucumber.utils import unitaries
    ud = None
    if custom == "partial" and kind != "positive":
        # a user dictionary that is NOT a superset of the defaults, with a single-precision entry
        ud = {"Z": unitaries.create_dict()["Z"], "H": (torch.tensor([[[1., 1.], [1., -1.]], [[0., 0.], [0., 0.]]]) / np.sqrt(2)).float()}
    elif custom and kind != "positive":
        ud = unitaries.create_dict(H=torch.tensor([[[1., 1.], [1., -1.]], [[0., 0.], [0., 0.]]]) / np.sqrt(2))
    st = DC.make_state(kind, nv, nh, na, unitary_dict=ud)
    DC.randomize(st, np.random.default_rng(3), 1.0)
    return st


def run_config(ctx, cfg):
    if cfg["fn"] == "ModelSaver":
        from lemmas import C17
        return C17.run_config(ctx, {"cb": "ModelSaver"})
    return {"save": _save, "load": _load, "autoload": _autoload}[cfg["fn"]](ctx, cfg)


def _save(ctx, cfg):
    canary = getattr(ctx, "canary", None)
    kind = cfg["kind"]
    st = _state(kind, custom=True)
    has_ud = hasattr(st, "unitary_dict")
    nets = st.networks
    ctx.under_contract("NeuralStateBase.save")
    ctx.stub("torch.save")
    V = [object(), object(), {"nested": [1, 2]}, torch.ones(2)]
    classes = [("None", None), ("empty", {}), ("one key", {"a": V[0]}), ("several keys, nested and tensor values", {"a": V[0], "b": V[2], "t": V[3]})]
    reserved = [("key %r" % n, {n: V[1], "a": V[0]}) for n in nets] + [("key 'unitary_dict'", {"unitary_dict": V[1]})]
    if kind == "positive":
        reserved.append(("key 'rbm_ph' (not a network of this state)", {"rbm_ph": V[1]}))
    before = {(net, n): p.detach().clone() for net in nets for n, p in getattr(st, net).named_parameters()}
    ud_before = dict(st.unitary_dict) if has_ud else None
    for tag, md in classes + reserved:
        md_keys = None if md is None else list(md.keys())
        md_vals = None if md is None else list(md.values())
        must_raise = md is not None and (any(n in md for n in nets) or (has_ud and "unitary_dict" in md))
        for attempt in (1, 2):            # the same state and metadata object, saved twice (as the periodic saver does)
            saved = []
            with mock.patch.object(torch, "save", lambda obj, loc: saved.append((obj, loc))):
                try:
                    r = st.save("LOCATION", md)
                    raised = None
                except ValueError as e:
                    raised = e
            t = "[%s metadata=%s save#%d]" % (kind, tag, attempt)
            ctx.holds("save/ValueError iff a reserved key is present" + t, (raised is not None) == must_raise, repr(raised))
            ctx.holds("save/metadata object unchanged (same keys, same value objects)" + t,
                      md is None or (list(md.keys()) == md_keys and all(a is b for a, b in zip(md.values(), md_vals))),
                      "keys now %s" % (None if md is None else list(md.keys())))
            if raised is None and not must_raise:
                ctx.holds("save/returns None and writes exactly one file at the given location" + t, r is None and len(saved) == 1 and saved[0][1] == "LOCATION")
                if len(saved) == 1:
                    data = saved[0][0]
                    want_keys = set(nets) | ({"unitary_dict"} if has_ud else set()) | (set(md.keys()) if md else set())
                    if canary == "spec-file-omits-metadata":
                        want_keys = set(nets) | ({"unitary_dict"} if has_ud else set())
                    ctx.holds("save/file keys == networks + unitary_dict + metadata keys" + t, set(data.keys()) == want_keys, str(sorted(data.keys())))
                    ok = all(set(data[n].keys()) == set(getattr(st, n).state_dict().keys()) and
                             all(torch.equal(data[n][k], v) for k, v in getattr(st, n).state_dict().items()) for n in nets)
                    ctx.holds("save/file holds every network's state_dict" + t, ok)
                    if has_ud:
                        ctx.holds("save/file holds the state's unitary dictionary (incl. added unitaries)" + t,
                                  data.get("unitary_dict") is st.unitary_dict or (isinstance(data.get("unitary_dict"), dict) and
                                  set(data["unitary_dict"].keys()) == set(st.unitary_dict.keys()) and
                                  all(torch.equal(data["unitary_dict"][k], st.unitary_dict[k]) for k in st.unitary_dict)))
                    if md:
                        ctx.holds("save/file holds the caller's metadata values" + t, all(data.get(k) is v for k, v in zip(md_keys, md_vals)))
            else:
                ctx.holds("save/nothing written when refused" + t, saved == [])
    ctx.holds("save/no parameter written[%s]" % kind, all(torch.equal(p.detach(), before[(net, n)]) for net in nets for n, p in getattr(st, net).named_parameters()))
    # history: save, replace / change the parameters in every way the API offers, save again -> the file holds the current ones
    for how in ("reinitialize_parameters", "in-place update", "load_state_dict", "parameter objects replaced"):
        if how == "reinitialize_parameters":
            st.reinitialize_parameters()
        elif how == "in-place update":
            with torch.no_grad():
                for net in nets:
                    for p in getattr(st, net).parameters():
                        p.add_(0.25)
        elif how == "load_state_dict":
            for net in nets:
                sd = {k: v.clone() * 2 + 1 for k, v in getattr(st, net).state_dict().items()}
                getattr(st, net).load_state_dict(sd)
        else:
            for net in nets:
                m_ = getattr(st, net)
                for n_, p in list(m_.named_parameters()):
                    setattr(m_, n_, torch.nn.Parameter(p.detach().clone() - 3.0, requires_grad=False))
        saved = []
        with mock.patch.object(torch, "save", lambda obj, loc: saved.append((obj, loc))):
            st.save("LOCATION2", {"a": V[0]})
        ok = len(saved) == 1 and all(set(saved[0][0][n].keys()) == set(getattr(st, n).state_dict().keys()) and
                                     all(torch.equal(saved[0][0][n][k], v) for k, v in getattr(st, n).state_dict().items()) for n in nets)
        ctx.holds("save/after %s a later save writes the current parameters[%s]" % (how, kind), ok)
    if has_ud:
        ctx.holds("save/state's unitary dictionary untouched[%s]" % kind, set(st.unitary_dict.keys()) == set(ud_before.keys()) and all(st.unitary_dict[k] is ud_before[k] for k in ud_before))


def _same_dict(a, b):
    return set(a.keys()) == set(b.keys()) and all(a[k].dtype == b[k].dtype and torch.equal(a[k], b[k]) for k in b)


def _load(ctx, cfg):
    for custom in (True, "partial"):
        _load1(ctx, cfg, custom)


def _load1(ctx, cfg, custom):
    kind = cfg["kind"]
    src = _state(kind, custom=custom)
    dst = _state(kind, custom=False)
    from drivers import common as DC
    DC.randomize(dst, np.random.default_rng(11), 2.0)
    ctx.under_contract("NeuralStateBase.load")
    ctx.stub("torch.load")
    file = {n: copy.deepcopy(getattr(src, n).state_dict()) for n in src.networks}
    if hasattr(src, "unitary_dict"):
        file["unitary_dict"] = src.unitary_dict
    file["user"] = "metadata"
    calls = []

    extra_kwargs = []

    def fake_load(loc, map_location=None, **k):
        calls.append((loc, map_location))
        extra_kwargs.append(dict(k))
        return file
    objs_before = {(n, k): p for n in dst.networks for k, p in getattr(dst, n).named_parameters()}
    ud_before = {k: (v, v.detach().clone(), v._version) for k, v in getattr(dst, "unitary_dict", {}).items()}
    with mock.patch.object(torch, "load", fake_load):
        r = dst.load("LOCATION")
    # loading restores VALUES into the state as it is: its networks and their parameter objects stay the same objects, so
    # whoever holds them (an optimizer of a run in progress that restores a checkpoint from a callback) keeps training
    # this state, and the loaded values do not alias the file's tensors
    objs_after = {(n, k): p for n in dst.networks for k, p in getattr(dst, n).named_parameters()}
    ctx.holds("load/the state's parameter objects are kept (values copied in, objects not replaced)[%s]" % kind,
              set(objs_after) == set(objs_before) and all(objs_after[key] is objs_before[key] for key in objs_before))
    # the unitaries a state holds are the caller's tensors (its dictionary, and every other state built from it, share them):
    # loading replaces the state's dictionary, it never writes into those tensors
    ctx.holds("load/the unitary tensors the state held before are not written (the caller's dictionary and sibling states share them)[%s]" % kind,
              all(torch.equal(t, val) and t._version == ver for (t, val, ver) in ud_before.values()),
              str([k for k, (t, val, ver) in ud_before.items() if not (torch.equal(t, val) and t._version == ver)]))
    ctx.holds("load/loaded parameters do not share storage with the tensors of the file[%s]" % kind,
              all(objs_after[(n, k)].data_ptr() != file[n][k].data_ptr() for (n, k) in objs_after if k in file.get(n, {})))
    # what is loaded must not stay backed by the file: the file may be rewritten (the next checkpoint of a run, another
    # model saved under the same name) while the loaded state lives on
    ctx.holds("load/the file is read into memory, not memory-mapped (the loaded state does not depend on the file afterwards)[%s]" % kind,
              not any(k.get("mmap") for k in extra_kwargs), str(extra_kwargs))
    ctx.holds("load/reads the given location once onto the state's device[%s]" % kind, r is None and calls == [("LOCATION", dst.device)], str(calls))
    for n in src.networks:
        a, b = getattr(src, n), getattr(dst, n)
        ctx.holds("load/%s parameters bit-identical to the file[%s]" % (n, kind), all(torch.equal(p.detach(), dict(a.named_parameters())[k].detach()) for k, p in b.named_parameters()))
    if hasattr(src, "unitary_dict"):
        ctx.holds("load/unitary dictionary restored: exactly the saved entries (added unitaries kept, nothing added or converted)[%s custom=%s]" % (kind, custom),
                  dst.unitary_dict is file["unitary_dict"] or _same_dict(dst.unitary_dict, src.unitary_dict), str(sorted(dst.unitary_dict.keys())))
        f2 = {k: v for k, v in file.items() if k != "unitary_dict"}
        keep = dst.unitary_dict
        with mock.patch.object(torch, "load", lambda loc, map_location=None, **k: f2):
            dst.load("LOCATION")
        ctx.holds("load/a file without unitary_dict leaves the dictionary alone[%s]" % kind, dst.unitary_dict is keep)


def _autoload(ctx, cfg):
    kind = cfg["kind"]
    ctx.under_contract("%s.autoload" % {"positive": "PositiveWaveFunction", "complex": "ComplexWaveFunction", "mixed": "DensityMatrix"}[kind])
    ctx.stub("torch.load")
    for (nv, nh, na), custom in (((2, 3, 1), True), ((3, 1, 2), "partial"), ((1, 1, 1), True), ((2, 2, 2), "partial")):
        src = _state(kind, nv, nh, na, custom=custom)
        file = {n: copy.deepcopy(getattr(src, n).state_dict()) for n in src.networks}
        if hasattr(src, "unitary_dict"):
            file["unitary_dict"] = src.unitary_dict
        file["meta"] = 1
        locs = []
        with mock.patch.object(torch, "load", lambda loc, map_location=None, **k: (locs.append(loc), file)[1]):
            new = type(src).autoload("LOCATION", gpu=False)
        t = "[%s %d,%d,%d]" % (kind, nv, nh, na)
        ctx.holds("autoload/same class, architecture inferred from the saved bias lengths" + t,
                  type(new) is type(src) and new.num_visible == nv and new.num_hidden == nh and (kind != "mixed" or new.num_aux == na)
                  and all(getattr(new, n).num_visible == nv and getattr(new, n).num_hidden == nh for n in new.networks))
        ctx.holds("autoload/reads only the given location" + t, set(locs) == {"LOCATION"})
        same = all(torch.equal(p.detach(), dict(getattr(src, n).named_parameters())[k].detach()) for n in src.networks for k, p in getattr(new, n).named_parameters())
        ctx.holds("autoload/parameters bit-identical for every network" + t, same)
        if hasattr(src, "unitary_dict"):
            ctx.holds("autoload/unitary dictionary: exactly the saved entries (added unitaries kept, nothing added or converted)" + t,
                      _same_dict(new.unitary_dict, src.unitary_dict), str(sorted(new.unitary_dict.keys())))
        ctx.holds("autoload/independent of the source object" + t, all(p.data_ptr() != dict(getattr(src, n).named_parameters())[k].data_ptr()
                                                                      for n in src.networks for k, p in getattr(new, n).named_parameters()))


def replay(o):
    if o["cfg"].get("fn") == "ModelSaver":
        from drivers import C17 as D17
        return D17.replay({"cb": "ModelSaver"})
    from drivers import C11 as D
    return D.replay(o["cfg"])
