"""vf command line: check / replay / selftest."""
import argparse
import importlib
import json
import multiprocessing as mp
import os
import re
import sys
import time
import traceback

VERIF = os.path.dirname(os.path.dirname(os.path.abspath(__file__)))


_COV = set()


def _start_coverage():
    """Line coverage of the repository code executed by this configuration (sys.monitoring, near-zero overhead)."""
    root = os.path.join(os.environ.get("QUCUMBER_REPO", "/repo"), "qucumber") + os.sep
    mon = getattr(sys, "monitoring", None)
    if mon is None:
        return
    try:
        mon.use_tool_id(mon.COVERAGE_ID, "vf")
    except ValueError:
        return

    def cb(code, line):
        fn = code.co_filename
        if fn.startswith(root):
            _COV.add((fn[len(root):], code.co_qualname, line))
        return mon.DISABLE
    mon.register_callback(mon.COVERAGE_ID, mon.events.LINE, cb)
    mon.set_events(mon.COVERAGE_ID, mon.events.LINE)


def _bounded_child(Dm, tier, seed, conn):
    try:
        conn.send(("ok", Dm.bounded(tier, seed)))
    except Exception as e:
        tb = traceback.extract_tb(e.__traceback__)
        conn.send(("exc", repr(e), [(os.path.realpath(f.filename), f.lineno) for f in tb],
                   "".join(traceback.format_exception(type(e), e, e.__traceback__))[-2000:]))
    conn.close()


class _DriverError(Exception):
    def __init__(self, msg, last, text):
        Exception.__init__(self, msg)
        self.last, self.text = last, text


def _bounded_in_child(Dm, tier, seed):
    """The concrete driver runs in a child process: changed library code can take the interpreter down (a SIGBUS from a
    memory-mapped checkpoint, a segfault in a kernel), which must be reported, not die with the checker."""
    import signal
    parent, child = mp.Pipe(duplex=False)
    p = mp.get_context("fork").Process(target=_bounded_child, args=(Dm, tier, seed, child))
    p.start()
    child.close()
    res = None
    try:
        if parent.poll(float(os.environ.get("VF_DRIVER_TIMEOUT", "5400"))):
            res = parent.recv()
    except EOFError:
        res = None
    p.join(10)
    if p.is_alive():
        p.kill()
        p.join()
        raise RuntimeError("bounded driver exceeded its time limit")
    if res is None:
        code = p.exitcode
        if code is not None and code < 0:
            try:
                nm = signal.Signals(-code).name
            except ValueError:
                nm = str(-code)
            return {"driver": "drivers/%s" % Dm.__name__.split(".")[-1], "label": "bounded", "evaluations": 1, "failures": 1,
                    "bound": "the driver process was killed by %s while exercising the library" % nm,
                    "first_failures": [("the interpreter was killed by %s while the driver exercised the library (no Python exception)" % nm, None)],
                    "not_reproduced_as_input": True}
        raise RuntimeError("bounded driver process ended without a result (exit code %s)" % code)
    if res[0] == "ok":
        return res[1]
    _tag, msg, last, text = res
    err = _DriverError(msg, last, text)
    raise err


def _replay_child(L, cand, conn):
    try:
        _cfg = cand.get("cfg") if isinstance(cand, dict) else None
        if isinstance(_cfg, dict) and _cfg.get("signatures"):
            from contracts import signatures as _sigs
            conn.send(("ok", _sigs.replay(cand["name"].split("/")[0])))
        elif isinstance(_cfg, dict) and _cfg.get("grad") == "off":
            import torch as _torch
            with _torch.no_grad():
                conn.send(("ok", L.replay(cand)))
        else:
            conn.send(("ok", L.replay(cand)))
    except Exception as e:
        # the replay runs the real code on numbers: an exception whose innermost frame is library code is the library
        # failing on the replayed scenario
        fr = traceback.extract_tb(e.__traceback__)
        root = os.path.realpath(os.environ.get("QUCUMBER_REPO", "/repo"))
        if fr and os.path.realpath(fr[-1].filename).startswith(root + os.sep):
            conn.send(("ok", {"reproduced": True, "note": "the library raised %s: %s at %s:%s on the replayed scenario"
                              % (type(e).__name__, str(e)[:200], os.path.basename(fr[-1].filename), fr[-1].lineno)}))
        else:
            conn.send(("exc", repr(e)))
    conn.close()


def _replay_in_child(L, cand):
    """Replays run the real (possibly changed) library with concrete inputs: in a child process, for the same reason as
    the bounded driver."""
    import signal
    parent, child = mp.Pipe(duplex=False)
    p = mp.get_context("fork").Process(target=_replay_child, args=(L, cand, child))
    p.start()
    child.close()
    res = None
    try:
        if parent.poll(float(os.environ.get("VF_REPLAY_TIMEOUT", "1800"))):
            res = parent.recv()
    except EOFError:
        res = None
    p.join(10)
    if p.is_alive():
        p.kill()
        p.join()
        return {"reproduced": False, "error": "replay exceeded its time limit"}
    if res is None:
        code = p.exitcode
        if code is not None and code < 0:
            try:
                nm = signal.Signals(-code).name
            except ValueError:
                nm = str(-code)
            return {"reproduced": True, "note": "the replay process was killed by %s: the library took the interpreter down on the replayed scenario" % nm}
        return {"reproduced": False, "error": "replay process ended without a result (exit code %s)" % code}
    if res[0] == "ok":
        try:
            json.dumps(res[1], default=str)
        except Exception:
            return {"reproduced": bool(res[1] and res[1].get("reproduced")), "note": "replay record not serialisable"}
        return res[1]
    return {"reproduced": False, "error": "replay crashed: %s" % res[1]}


def _gen_prims():
    try:
        from . import gen
        return gen.PRIMS_USED
    except Exception:
        return {}


def _worker(job):
    prop, tier, seed, cfg, canary = job
    if canary is None:
        _start_coverage()
    # fresh algebra state per configuration (atoms are process-local; workers are forked per task)
    from . import obl, alg, symtensor as st, solve
    L = importlib.import_module("lemmas." + prop)
    ctx = obl.Ctx(prop, tier, seed, cfg)
    ctx.canary = canary
    t0 = time.time()
    err = None
    if isinstance(cfg, dict) and "via" in cfg:
        # the object under contract is reached as a copy (copy.deepcopy / pickle round trip) of another object, see
        # drivers/common.copied; under the symbolic front ends the original holds symbols of its own
        from drivers import common as _DC
        _DC.VIA[0] = cfg["via"]
        _DC.SYM_ORIG[0] = cfg.get("sym_orig", True)
    try:
        while True:
            try:
                if isinstance(cfg, dict) and cfg.get("signatures"):
                    from contracts import signatures as _sigs
                    _sigs.check(ctx, prop)
                elif isinstance(cfg, dict) and cfg.get("grad") == "off":
                    # the caller evaluates with autograd switched off (torch.no_grad): same results, same frames
                    import torch as _torch
                    with _torch.no_grad():
                        L.run_config(ctx, cfg)
                else:
                    L.run_config(ctx, cfg)
                break
            except alg.FinerExp:
                # half-angle style code: repeat the whole configuration with atoms exp(g/4), exp(g/8) (the reading of
                # the atoms is global, so nothing of the abandoned run is kept)
                if alg.EXP_DEN >= 8:
                    raise
                alg.EXP_DEN *= 2
                alg._FACTORS.clear(); alg.POSITIVE.clear(); alg.CERTIFIED_NONNEG.clear(); alg.GENERIC_POSITION.clear()
                st.FRAME_VIOLATIONS.clear() if hasattr(st, "FRAME_VIOLATIONS") and hasattr(st.FRAME_VIOLATIONS, "clear") else None
                ctx = obl.Ctx(prop, tier, seed, cfg)
                ctx.canary = canary
        # case split: the code asked whether some parameter tensors are identically zero; the run above took the generic
        # answer, now the special case: the same configuration with exactly those parameters held at 0
        work = [set(n) for n in st.SPLIT_LOG]
        del st.SPLIT_LOG[:]
        done_sets, runs = [], 0
        while work and runs < 4:
            zero = work.pop(0)
            if zero in done_sets:
                continue
            done_sets.append(zero)
            runs += 1
            alg.FORCED_ZERO = set(zero)
            alg._FACTORS.clear(); alg.POSITIVE.clear(); alg.CERTIFIED_NONNEG.clear()
            tagged = dict(cfg)
            tagged["held at 0"] = (", ".join(sorted(zero)))[:80]
            ctx2 = obl.Ctx(prop, tier, seed, tagged)
            ctx2.canary = canary
            try:
                L.run_config(ctx2, cfg)
            except alg.Unmodelled as e2:
                ctx2.undecided("run", "unmodelled in the case-split run: %s" % e2)
            finally:
                alg.FORCED_ZERO = set()
            for more in st.SPLIT_LOG:          # a further test met on this branch: split again, keeping what is already 0
                work.append(zero | set(more))
            del st.SPLIT_LOG[:]
            for o in ctx2.obls:
                o["cfg"] = cfg          # replay and grouping use the original configuration
                w = o.get("witness")
                if isinstance(w, dict) and isinstance(w.get("env"), dict):
                    for nm_ in zero:
                        w["env"][nm_] = 0.0         # the failing input has these parameters at exactly 0
            ctx.obls.extend(ctx2.obls)
            ctx.functions |= ctx2.functions
    except alg.ValueDependent as e:
        ctx.undecided("run", "value-dependent control flow: %s" % e)
    except alg.Unmodelled as e:
        tb = traceback.extract_tb(sys.exc_info()[2])
        where = ""
        for fr in reversed(tb):
            if "/qucumber/" in fr.filename:
                where = " at %s:%d" % (fr.filename, fr.lineno)
                break
        ctx.undecided("run", "unmodelled: %s%s" % (e, where))
    except Exception as e:
        # an exception escaping from the code under contract (e.g. changed code that no longer fits the stubs of its
        # callees) leaves this configuration undecided; the property's concrete driver still runs on the real code ...
        tb = "".join(traceback.format_exception(type(e), e, e.__traceback__))
        fr = traceback.extract_tb(e.__traceback__)
        root = os.path.realpath(os.environ.get("QUCUMBER_REPO", "/repo"))
        last = fr[-1] if fr else None
        in_lib = bool(last) and (os.path.realpath(last.filename).startswith(root + os.sep) or last.filename.startswith("<sandbox:"))
        if isinstance(e, st.TorchRefuses):
            # a torch primitive refuses the library's call (a modelled precondition of the primitive): the failing operation
            # is the library's innermost frame
            libfr = [f for f in fr if os.path.realpath(f.filename).startswith(root + os.sep) or f.filename.startswith("<sandbox:")]
            if libfr:
                last, in_lib = libfr[-1], True
        if in_lib and isinstance(e, (ValueError, RuntimeError, TypeError, AssertionError, NotImplementedError)) and (last.line or "").strip().startswith("raise "):
            # ... unless the library itself refuses (an explicit `raise` in library code) an input that the harness built
            # inside the property's domain: the operation is not defined where the property says it is
            ctx._rec("run/the library refuses an input inside the property's domain", "violated", "harness", 0.0,
                     {"why": "%s: %s" % (type(e).__name__, str(e)[:300]), "where": "%s:%s" % (os.path.basename(last.filename), last.lineno)},
                     witness={"exception": repr(e)[:300]})
        elif in_lib and not isinstance(e, (alg.Unmodelled, alg.FinerExp, MemoryError, RecursionError)):
            # an operation of the library itself failed (the innermost frame is library code: a call into torch / numpy, an
            # attribute or key that is not there, a wrong argument order) on inputs the harness built inside the property's
            # domain.  It could still be an artefact of running on symbolic or ghost values, so it only counts when the
            # replay on the real code with numbers reproduces a failure; otherwise the configuration is undecided
            ctx._rec("run/an operation of the library fails on an input inside the property's domain", "violated", "harness", 0.0,
                     {"why": "%s: %s" % (type(e).__name__, str(e)[:300]), "where": "%s:%s" % (os.path.basename(last.filename), last.lineno)},
                     witness={"exception": repr(e)[:300]})
            ctx.obls[-1]["needs_replay"] = True
        else:
            ctx.undecided("run", "configuration raised %s: %s | %s" % (type(e).__name__, str(e)[:200], tb[-1200:].replace("\n", " / ")))
    return {"cfg": cfg, "canary": canary, "obls": ctx.obls, "functions": sorted(ctx.functions),
            "stubs": sorted(ctx.stubs), "assumed": sorted(ctx.assumed | st.ASSUMED),
            "prims": dict(st.PRIMS_USED), "generic": sorted(alg.GENERIC_POSITION)[:20],
            "side": solve.STATS["side_conditions"][:50], "z3s": solve.STATS["z3_seconds"],
            "z3q": solve.STATS["z3_queries"], "z3_confirmed": ctx.z3_confirmed, "bounded": ctx.bounded,
            "wall": time.time() - t0, "error": err, "rewritten": getattr(ctx, "rewritten", []), "cov": sorted(_COV),
            "generic_done": getattr(ctx, "generic_done", []), "generic_skipped": getattr(ctx, "generic_skipped", []),
            "gprims": dict(_gen_prims()), "gconf": getattr(ctx, "gconf", None), "canary_na": getattr(ctx, "canary_na", False)}


def _child(job, conn):
    try:
        r = _worker(job)
    except BaseException as e:      # never let a worker die silently
        r = _failed(job, "".join(traceback.format_exception(type(e), e, e.__traceback__))[-3000:])
    try:
        conn.send(r)
    except Exception as e:
        conn.send(_failed(job, "result not picklable: %r" % (e,)))
    conn.close()


def _failed(job, err, undecided=None):
    prop, tier, seed, cfg, canary = job
    obls = []
    if undecided:
        from . import obl
        obls = [{"name": "%s/run[%s]" % (prop, obl.cfg_name(cfg)), "short": "run", "status": "undecided", "backend": "none",
                 "s": 0.0, "detail": undecided, "cfg": cfg}]
        err = None
    return {"cfg": cfg, "canary": canary, "obls": obls, "functions": [], "stubs": [], "assumed": [], "prims": {}, "generic": [],
            "side": [], "z3s": 0.0, "z3q": 0, "z3_confirmed": 0, "bounded": [], "wall": 0.0, "error": err, "rewritten": [], "cov": []}


def _run_tasks(work, nproc, timeout):
    """One forked process per configuration, at most nproc at a time, each under a wall-clock limit.
    A configuration that exceeds the limit or whose process dies is reported (undecided / crash), never lost."""
    if nproc <= 1:
        return [_worker(w) for w in work]
    ctxmp = mp.get_context("fork")
    pending = list(enumerate(work))
    running = {}
    results = [None] * len(work)
    while pending or running:
        while pending and len(running) < nproc:
            i, w = pending.pop(0)
            pr, pc = ctxmp.Pipe(False)
            p = ctxmp.Process(target=_child, args=(w, pc))
            p.start()
            pc.close()
            running[i] = (p, pr, time.time())
        progressed = False
        for i, (p, conn, t0) in list(running.items()):
            if conn.poll(0):
                try:
                    results[i] = conn.recv()
                except EOFError:
                    results[i] = _failed(work[i], "worker closed its pipe without a result (exit code %s)" % p.exitcode)
                p.join()
                del running[i]
                progressed = True
            elif not p.is_alive():
                results[i] = _failed(work[i], "worker process died (exit code %s)" % p.exitcode)
                del running[i]
                progressed = True
            elif time.time() - t0 > timeout:
                p.kill()
                p.join()
                results[i] = _failed(work[i], None, undecided="configuration exceeded the %.0f s limit" % timeout)
                del running[i]
                progressed = True
        if not progressed:
            time.sleep(0.02)
    return results


def load_known():
    p = os.path.join(VERIF, "known_findings.json")
    if not os.path.exists(p):
        return []
    return json.load(open(p)).get("findings", [])


def run_check(prop, tier, seed, jobs=None):
    from . import evidence
    t0 = time.time()
    import glob
    for f in glob.glob(os.path.join(os.environ.get("VF_REPLAY_DIR") or os.path.join(VERIF, "replay"), prop + "-*.json")):
        os.unlink(f)
    os.environ.setdefault("VF_CLEAR_LIMIT", "60000" if tier == "quick" else "400000")     # term budget of the zero test
    L = importlib.import_module("lemmas." + prop)
    cfgs = list(L.configs(tier))
    from contracts import signatures as _sigs
    if _sigs.table(prop):
        cfgs.append({"signatures": "positional order of the public parameters"})
    canaries = list(getattr(L, "canaries", lambda t: [])(tier))
    work = [(prop, tier, seed, c, None) for c in cfgs] + [(prop, tier, seed, c, k) for (c, k) in canaries]
    nproc = int(os.environ.get("VF_JOBS", "0")) or min(16, os.cpu_count() or 1)
    results = _run_tasks(work, nproc if len(work) > 1 else 1, float(os.environ.get("VF_CONFIG_TIMEOUT", "900" if tier == "quick" else "3600")))
    crashes = [r for r in results if r["error"]]
    main = [r for r in results if r["canary"] is None]
    can = [r for r in results if r["canary"] is not None]
    obls = [o for r in main for o in r["obls"]]
    viol = [o for o in obls if o["status"] == "violated"]
    und = [o for o in obls if o["status"] == "undecided"]
    # canaries: every canary run must contain at least one violated obligation
    dead = [r for r in can if not any(o["status"] == "violated" for o in r["obls"]) and not r["error"] and not r.get("canary_na")]
    # replay every violation natively
    lines = []
    known = load_known()
    reported, known_hits = [], []
    groups = {}
    for o in viol:
        # an open known finding is matched obligation by obligation (by name and witness), never by group: another input
        # that starts to fail the same clause is reported
        kf = _match_known(known, prop, o, None)
        if kf is not None:
            o["known_finding"] = kf["id"]
            known_hits.append((kf, o))
            continue
        groups.setdefault(_group_key(o), []).append(o)
    from . import obl as oblmod
    for gk, os_ in groups.items():
        o = os_[0]
        rep = None
        if hasattr(L, "replay"):
            for cand in os_[:6]:
                try:
                    rep = _replay_in_child(L, cand)
                except Exception as e:
                    rep = {"reproduced": False, "error": "replay crashed: %r" % (e,)}
                cand["replayed"] = rep
                if rep and rep.get("reproduced"):
                    o = cand
                    break
        o["replayed"] = rep
        if o.get("needs_replay") and not (rep and rep.get("reproduced")):
            for x in os_:
                x["status"] = "undecided"
                x["detail"] = {"why": "not reproduced on the real code with numbers; left undecided", "was": x.get("detail")}
            continue
        kf = _match_known(known, prop, o, rep)
        if kf is not None:
            known_hits.append((kf, o))
            continue
        path = oblmod.write_replay(prop, o, extra={"group_size": len(os_), "others": [x["name"] for x in os_[1:20]]})
        tail = "" if (rep and rep.get("reproduced")) else " no-failing-input-found"
        reported.append((o, path, tail))
    viol = [o for o in obls if o["status"] == "violated"]
    und = [o for o in obls if o["status"] == "undecided"]
    # labelled bounded stand-in (concrete driver on the real code); never counted as proved
    bounded_res = None
    try:
        Dm = importlib.import_module("drivers." + prop)
        if hasattr(Dm, "bounded"):
            try:
                bounded_res = _bounded_in_child(Dm, tier, seed)
            except Exception as e:
                # an exception raised *inside the library* while the driver exercised it is a failure of the code under
                # test (natively reproduced); anything else is a defect of the driver -> checker crash
                root = os.path.realpath(os.environ.get("QUCUMBER_REPO", "/repo"))
                frames = getattr(e, "last", None) or []
                last = frames[-1:] if frames else None
                libs = [i for i, fr in enumerate(frames) if fr[0].startswith(root + os.sep)]
                if last and last[0][0].startswith(root + os.sep):
                    where = "%s:%d" % (os.path.relpath(last[0][0], root), last[0][1])
                    bounded_res = {"driver": "drivers/%s" % prop, "label": "bounded", "evaluations": 1, "failures": 1,
                                   "bound": "the driver's first scenario that made the library raise",
                                   "first_failures": [("the library raised %s at %s" % (e, where), None)]}
                elif libs and frames[-1][0].startswith(os.path.join(VERIF, "drivers") + os.sep) and libs[-1] > 0:
                    # a callback / metric / observable of the driver, called BY the library, raised: on the unchanged tree they
                    # never do, so the library handed them something else than the documented arguments
                    where = "%s:%d" % (os.path.relpath(frames[libs[-1]][0], root), frames[libs[-1]][1])
                    bounded_res = {"driver": "drivers/%s" % prop, "label": "bounded", "evaluations": 1, "failures": 1,
                                   "bound": "the driver's first scenario in which a user function called by the library failed",
                                   "first_failures": [("a user callback called by the library at %s raised %s (called with unexpected arguments)" % (where, e), None)]}
                else:
                    crashes.append({"cfg": "bounded driver", "error": getattr(e, "text", None) or "".join(traceback.format_exception(type(e), e, e.__traceback__))[-2000:]})
    except ModuleNotFoundError:
        pass
    if bounded_res is not None:
        main[0]["bounded"].append(bounded_res)
        if bounded_res.get("failures"):
            o = {"name": "%s/bounded-driver" % prop, "short": "bounded-driver", "cfg": None, "status": "violated",
                 "backend": "concrete-driver", "detail": bounded_res.get("first_failures"),
                 "witness": {"first_failures": bounded_res.get("first_failures")},
                 "replayed": {"reproduced": not bounded_res.get("not_reproduced_as_input")}}
            kf = _match_known(known, prop, o, o["replayed"])
            if kf is not None:
                known_hits.append((kf, o))
            else:
                path = oblmod.write_replay(prop, o)
                reported.append((o, path, "" if o["replayed"].get("reproduced") else " no-failing-input-found"))
    # conformance sampling of the primitive models against the real torch / numpy (never counted as proof)
    conf = None
    if getattr(L, "MANIFEST", {}).get("engine", "").find("qv-native") >= 0:
        try:
            from . import conformance, native as _native
            conf = conformance.run(seed)
        except Exception as e:
            conf = {"calls": 0, "mismatches": [("conformance sampler", "crashed: %r" % (e,))]}
        usedp = sorted({k for r in main + can for k in r.get("prims", {})})
        skip = {"bernoulli", "torch.tensor(sym)"}        # the RNG is a recording stub (trusted, see assumptions); tensor(sym) is covered as "numpy()" round trips
        main[0]["bounded"].append({"label": "primitive-model conformance sample", "calls": conf["calls"], "mismatches": conf["mismatches"],
                                   "models_used_by_this_run": len(usedp),
                                   "models_used_without_a_conformance_case": [k for k in usedp if k not in conformance.COVERED and k not in skip]})
    gcalls, gmis, gskip = 0, [], []
    for r in main:
        g = r.get("gconf")
        if g:
            gcalls += g["calls"]
            gmis += g["mismatches"]
            gskip += g.get("skipped", [])
    if gcalls or gmis:
        main[0]["bounded"].append({"label": "front end G cross-check: real code on float tensors vs the contract evaluated numerically (sampled sizes and inputs)",
                                   "calls": gcalls, "mismatches": gmis, "skipped": gskip[:10]})
        if gmis:
            # the real code, run on floats at sampled sizes and inputs, returned something else than the contract evaluated
            # numerically: a concrete counterexample to the contract (it needs no model), reported as such.  (On the
            # unchanged tree the two agree on every run; a disagreement of the *primitive models* with the library is the
            # separate conformance sample above and stays a checker error.)
            o = {"name": "%s/generic/real code on sampled sizes and inputs == contract (bounded)" % prop, "short": "generic-cross-check", "cfg": {"generic": "every shape"},
                 "status": "violated", "backend": "concrete run of the real code", "detail": [list(x) for x in gmis[:3]],
                 "witness": {"mismatches": [list(x) for x in gmis[:3]]}, "replayed": {"reproduced": True, "note": "the mismatch is itself a run of the real code"}}
            path = oblmod.write_replay(prop, o)
            reported.append((o, path, ""))
    wall = time.time() - t0
    ev = evidence.build(prop, tier, seed, L, main, can, obls, viol, und, reported, known_hits, dead, crashes, wall)
    evidence.write(prop, ev)
    # ---- report
    ndis = sum(1 for o in obls if o["status"] == "discharged")
    print("%s tier=%s configs=%d obligations=%d discharged=%d violated=%d undecided=%d canaries=%d/%d wall=%.1fs"
          % (prop, tier, len(cfgs), len(obls), ndis, len(viol), len(und), len(can) - len(dead), len(can), wall))
    seen = set()
    for kf, o in known_hits:
        if kf["id"] in seen:
            continue
        seen.add(kf["id"])
        print("KNOWN-FINDING: property=%s %s" % (prop, kf["what"]))
    if conf and conf["mismatches"]:
        print("PRIMITIVE-MODEL-MISMATCH (assumed contract of a torch/numpy primitive disagrees with the library): %s" % (conf["mismatches"][:3],), file=sys.stderr)
        return 3
    if crashes:
        for r in crashes[:3]:
            print("CHECKER-CRASH cfg=%s\n%s" % (r["cfg"], r["error"]), file=sys.stderr)
        return 3
    if reported:
        for o in und[:5]:
            print("UNDECIDED %s: %s" % (o["name"], str(o.get("detail"))[:300]))
        for o, path, tail in reported:
            print("VIOLATION property=%s replay=%s obligation=%s%s" % (prop, (os.path.relpath(path, VERIF) if path.startswith(VERIF) else path), o["name"].replace(" ", "_"), tail))
        return 1
    if und or dead or not obls:
        for o in und[:10]:
            print("UNDECIDED %s: %s" % (o["name"], str(o.get("detail"))[:300]))
        for r in dead[:5]:
            print("DEAD-CANARY %s %s: a deliberately wrong contract was not refuted" % (r["canary"], r["cfg"]))
        if not obls:
            print("NO-OBLIGATIONS generated: vacuous run")
        return 2
    return 0


def _group_key(o):
    # one report per (function/clause), not per entry or configuration
    s = re.sub(r"\[[^\]]*\]", "", o.get("short") or o["name"])
    return s


def _match_known(known, prop, o, rep):
    for kf in known:
        if kf.get("status") != "open" or kf.get("property") != prop:
            continue
        if not re.search(kf["obligation_regex"], o["name"]):
            continue
        wr = kf.get("witness_regex")
        if wr and not re.search(wr, json.dumps([o.get("cfg"), o.get("witness"), o.get("detail")], default=str)):
            continue
        return kf
    return None


def main(argv=None):
    ap = argparse.ArgumentParser(prog="vf")
    sub = ap.add_subparsers(dest="cmd", required=True)
    c = sub.add_parser("check")
    c.add_argument("prop")
    c.add_argument("--tier", default=os.environ.get("VERIF_TIER", "quick"), choices=["quick", "thorough"])
    r = sub.add_parser("replay")
    r.add_argument("path")
    s = sub.add_parser("selftest")
    s.add_argument("--stored", action="store_true", help="run the stored blind seeded changes (must be reported) and benign rewrites (must pass)")
    s.add_argument("--jobs", type=int, default=6)
    s.add_argument("--only", default=None)
    s.add_argument("--tier", default="quick")
    a = ap.parse_args(argv)
    seed = int(os.environ.get("VERIF_SEED", "0") or 0)
    if a.cmd == "check":
        try:
            rc = run_check(a.prop, a.tier, seed)
        except Exception:
            traceback.print_exc()
            rc = 3
        sys.exit(rc)
    if a.cmd == "replay":
        rec = json.load(open(a.path))
        L = importlib.import_module("lemmas." + rec["property"])
        o = {"name": rec["obligation"], "short": rec.get("short"), "cfg": rec.get("cfg"), "witness": rec.get("witness"),
             "detail": rec.get("detail"), "status": "violated", "backend": rec.get("backend")}
        rep = L.replay(o) if hasattr(L, "replay") else None
        print(json.dumps(rep, indent=1, default=str))
        if rep and rep.get("reproduced"):
            print("VIOLATION property=%s replay=%s" % (rec["property"], a.path))
            sys.exit(1)
        sys.exit(0)
    if a.cmd == "selftest":
        from . import selftest
        if a.stored:
            sys.exit(selftest.stored(a.only, a.tier, a.jobs))
        sys.exit(selftest.main(a.only, a.tier))


if __name__ == "__main__":
    main()
