"""C07 — every epoch uses every training sample once, paired with its own basis (front end A)."""
import z3

from qv import astvc as A
from qv.astvc import VC, AND, OR, NOT, ITE, IMPLIES, SymInt

LEVEL = "proof"
MANIFEST = {
    "engine": "qv-astvc",
    "category": "proof",
    "technique": "contract on NeuralStateBase._shuffle_data executed in a sandbox on symbolic row sequences (N, batch sizes symbolic; randperm / randint replaced by their contracts: an uninterpreted bijection / bounded index function), list comprehensions mapped over symbolic ranges; data-preparation prefix of fit in the ghost fit world; obligations (linear / non-linear integer arithmetic) discharged by z3",
    "text": "For symbolic N >= 1, pos_batch_size >= 1, neg_batch_size >= 1: the batch list has ceil(N/B) entries; positive batch j has min(B, N - jB) rows and its row i is train[perm(jB+i)], the bases batch j has the same length and its row i is bases[perm(jB+i)] (the same index expression: each sample travels with its own basis); t -> (t div B, t mod B) is a bijection between [0,N) and batch positions, so with perm a bijection every row appears in exactly one positive batch. Negative batches: with bases every row is a reference-basis row z[r], 0 <= r < |z|, neg_batch_size rows per batch; without bases and equal sizes the negative batch is the positive batch, otherwise neg_batch_size rows train[r], 0 <= r < N. fit copies tensor / array / list data, passes the caller's bases through, extracts reference-basis rows from them, recomputes the shuffle once per epoch and never writes data or bases.",
    "note": "torch.randperm returns a permutation of [0,N) and torch.randint values in [0,high) (trusted RNG contracts); at least one all-Z row when bases are given (otherwise randint(0) raises before training); extract_refbasis_samples' own contract is C19; mathematical integers",
}
EXPLANATION = "row sequences as (source, z3 index term); perm is an uninterpreted function constrained to be a bijection on [0,N)"
TRUSTED = ["torch.randperm(N) is a permutation of 0..N-1; torch.randint(high, size) has values in [0, high)",
           "tensor[index_tensor] selects the indexed rows in order; tensor[a:b] is the clipped slice"]


def configs(tier):
    out = []
    for bases in (False, True):
        for neg in ("same", "different"):
            out.append({"part": "shuffle", "bases": bases, "neg": neg})
    for nets, data in ((["rbm_am"], "tensor"), (["rbm_am"], "array"), (["rbm_am", "rbm_ph"], "tensor"), (["rbm_am", "rbm_ph"], "array")):
        out.append({"part": "fit", "nets": nets, "bases": len(nets) == 2, "scheduler": False, "data": data})
    # sizes handed over as numpy integer scalars (a sweep over np.arange): isinstance(x, int) is False for them
    out.append({"part": "fit", "nets": ["rbm_am"], "bases": False, "scheduler": False, "data": "tensor", "sizes": "numpy integers"})
    out.append({"part": "index-lemmas"})
    out.append({"part": "second-fit", "nets": ["rbm_am", "rbm_ph"], "bases": True, "scheduler": False, "data": "tensor"})
    # the callee that provides the reference-basis rows the negative phase starts from (its contract is assumed by the fit part)
    out.append({"part": "refbasis"})
    return out


def canaries(tier):
    return [({"part": "shuffle", "bases": True, "neg": "different"}, "spec-bases-unshuffled")]


class Rows:
    """A tensor with a symbolic number of rows; row(i) = (source tag, z3 index term)."""

    def __init__(self, n, row, tag):
        self.n, self.row, self.tag = n, row, tag

    @property
    def shape(self):
        return (self.n, "nv")

    def sym_len(self):
        return self.n

    def length(self):
        return self.n

    def elem(self, i):
        return self.row(i)

    def __getitem__(self, idx):
        if isinstance(idx, Idx):
            return Rows(idx.n, lambda i: self.row(idx.at(i)), "%s[%s]" % (self.tag, idx.tag))
        if isinstance(idx, slice):
            a = 0 if idx.start is None else idx.start
            b = self.n if idx.stop is None else idx.stop
            if idx.step is not None:
                raise A.Unmodelled("stepped slice of a row sequence")
            b2 = A.sb_min(b, self.n)
            ln = ITE(b2 > a, b2 - a, 0)
            return Rows(ln, lambda i: self.row(a + i), "%s[%s:%s]" % (self.tag, a, b))
        raise A.Unmodelled("row sequence indexed by %r" % (type(idx),))


class Idx:
    """An index tensor: n entries, entry i = at(i) (a z3 term)."""

    def __init__(self, n, at, tag):
        self.n, self.at, self.tag = n, at, tag

    def sym_len(self):
        return self.n

    def numpy(self):
        return self

    def _pieces(self, size, count, what):
        """consecutive pieces of `size` entries (the last one shorter), `count` of them"""
        me = self
        return A.GhostSeq(count, lambda j: Idx(A.sb_min(size, me.n - j * size), lambda i, j=j: me.at(j * size + i), "%s.%s[%s]" % (me.tag, what, j)), what)

    def split(self, size, dim=0):
        # torch.split: pieces of exactly `size` entries, the last one with the remainder
        return self._pieces(size, (self.n + size - 1) // size, "split")

    def chunk(self, chunks, dim=0):
        # torch.chunk: pieces of ceil(n / chunks) entries - possibly FEWER than `chunks` pieces
        size = (self.n + chunks - 1) // chunks
        return self._pieces(size, (self.n + size - 1) // size, "chunk")

    def __getitem__(self, idx):
        if isinstance(idx, slice) and idx.step is None:
            a = 0 if idx.start is None else idx.start
            b = self.n if idx.stop is None else idx.stop
            b2 = A.sb_min(b, self.n)
            return Idx(ITE(b2 > a, b2 - a, 0), lambda i: self.at(a + i), "%s[%s:%s]" % (self.tag, a, b))
        raise A.Unmodelled("index tensor indexed by %r" % (type(idx),))


def _second_fit(ctx, cfg):
    """History: fit (empty epoch range) then fit again on the SAME state object with the caller's SAME bases object but
    new data: the second run must extract its reference-basis rows from the new data (nothing may be carried over)."""
    from qucumber.nn_states.neural_state import NeuralStateBase
    from contracts import fitworld as FW
    vc = VC(ctx)
    ctx.under_contract("NeuralStateBase.fit")

    def run():
        w1 = FW.FitWorld(vc, "none", cfg["nets"], True, False, "tensor")
        vc.assume(w1.epochs < w1.starting_epoch)           # first run: data preparation only, no epoch
        f1, _r = FW.make_sandbox(vc, w1, NeuralStateBase.fit, NeuralStateBase)
        w1.user_may_stop = lambda event: None
        _ret, me, _d = FW.run_fit(vc, w1, f1)
        bases = w1.bases_obj
        w2 = FW.FitWorld(vc, "C07", cfg["nets"], True, False, "tensor")
        w2.user_may_stop = lambda event: None             # stop requests are C12's subject; keep this history small
        f2, _r = FW.make_sandbox(vc, w2, NeuralStateBase.fit, NeuralStateBase)
        bases.rows = w2.N
        FW.run_fit(vc, w2, f2, me=me, bases_obj=bases)
        w2.check("C07", "second fit/reference-basis rows were extracted again from the new data", w2.z_obj is not None and w2.z_obj is not w1.z_obj)
    vc.explore(run, "second fit")
    vc.flush()
    ctx.holds("exploration/paths > 0", vc.paths > 0)


def run_config(ctx, cfg):
    A.INT_KIND[0] = "numpy" if cfg.get("sizes") == "numpy integers" else "python"
    if cfg["part"] == "refbasis":
        from lemmas import C19
        return C19._refbasis(ctx, cfg)
    if cfg["part"] == "second-fit":
        return _second_fit(ctx, cfg)
    if cfg["part"] == "fit":
        from lemmas import C12
        return C12.fit_part(ctx, cfg, prop="C07")
    if cfg["part"] == "index-lemmas":
        return _index_lemmas(ctx)
    return _shuffle(ctx, cfg)


def _shuffle(ctx, cfg):
    from qucumber.nn_states.neural_state import NeuralStateBase
    canary = getattr(ctx, "canary", None)
    vc = VC(ctx)
    ctx.under_contract("NeuralStateBase._shuffle_data")
    ctx.stub("torch.randperm", "torch.randint", "tensor indexing")
    holder = {}

    def run():
        N = vc.fresh_int("N", 1)
        B = vc.fresh_int("pos_batch_size", 1)
        if cfg["neg"] == "same":
            NB = B
        else:
            NB = vc.fresh_int("neg_batch_size", 1)
            if not cfg["bases"]:
                vc.assume(NB != B)
        nb = (N + B - 1) // B
        vc.witness_terms = {"N": N.e, "pos_batch_size": B.e, "neg_batch_size": A._z(NB)}
        perm = z3.Function("perm_%d" % vc.n_fresh, z3.IntSort(), z3.IntSort())
        inv = z3.Function("perminv_%d" % vc.n_fresh, z3.IntSort(), z3.IntSort())
        rint = z3.Function("randint_%d" % vc.n_fresh, z3.IntSort(), z3.IntSort())
        calls = {"randperm": 0, "randint": []}

        def mk_perm(pf, pinv):
            def perm_at(x):
                """randperm contract, instantiated at the index actually read (keeps the queries quantifier-free):
                the function maps [0,N) into [0,N) and has a left inverse there (it is a bijection of [0,N))."""
                x = A._z(x)
                vc.pc.append(z3.Implies(z3.And(x >= 0, x < N.e), z3.And(pf(x) >= 0, pf(x) < N.e, pinv(pf(x)) == x)))
                return SymInt(pf(x))
            return perm_at

        def rint_at(x, high):
            x = A._z(x)
            vc.pc.append(z3.And(rint(x) >= 0, rint(x) < A._z(high)))
            return SymInt(rint(x))

        class TorchProxy:
            long = "long"

            @staticmethod
            def randperm(n):
                calls["randperm"] += 1
                vc.check("randperm/over the number of training rows", n == N)
                # every call draws a fresh, independent permutation
                if calls["randperm"] == 1:
                    pf, pinv = perm, inv
                else:
                    pf = z3.Function("perm%d_%d" % (calls["randperm"], vc.n_fresh), z3.IntSort(), z3.IntSort())
                    pinv = z3.Function("perminv%d_%d" % (calls["randperm"], vc.n_fresh), z3.IntSort(), z3.IntSort())
                p = Idx(N, mk_perm(pf, pinv), "perm")
                p.numpy = lambda: p
                p.cpu = lambda: p
                return p

            @staticmethod
            def randint(high, size=None, dtype=None):
                n = size[0]
                calls["randint"].append((high, n))
                vc.no_exception("RuntimeError", high > 0, "randint over an empty range (no reference-basis rows)")
                return Idx(n, lambda i: rint_at(i, high), "randint")
        f, rew = A.load(NeuralStateBase._shuffle_data, None, vc, {"torch": TorchProxy}, name="NeuralStateBase._shuffle_data")
        holder["rew"] = rew
        train = Rows(N, lambda i: ("train", i), "train")
        bases = Rows(N, lambda i: ("bases", i), "bases") if cfg["bases"] else None
        nz = vc.fresh_int("n_z", 1)              # precondition: at least one all-Z row
        vc.assume(nz <= N)
        z = Rows(nz, lambda i: ("z", i), "z") if cfg["bases"] else None
        out = f(None, B, NB, nb, train, bases, z)
        L = A.seq_length(out)
        vc.check("batches/number of batches == ceil(N / pos_batch_size)", L == nb)
        vc.check("batches/one permutation per call", calls["randperm"] == 1)
        j = vc.fresh_int("j", 0)
        vc.assume(j < nb)
        parts = A.seq_elem(out, j)
        vc.check("batches/each entry is (positive, negative[, bases])", len(parts) == (3 if cfg["bases"] else 2))
        pos, neg = parts[0], parts[1]
        plen = A.seq_length(pos)
        vc.check("positive/batch j has min(B, N - jB) rows (full except possibly the last)", plen == A.sb_min(B, N - j * B))
        vc.check("positive/every batch is non-empty", plen >= 1)
        i = vc.fresh_int("i", 0)
        vc.assume(i < plen)
        src, idx = pos.row(i)
        vc.check("positive/row i of batch j is train[perm(jB + i)]", src == "train")
        vc.check("positive/row index", idx == SymInt(perm(A._z(j * B + i))))
        if cfg["bases"]:
            bb = parts[2]
            vc.check("bases/batch j has the same number of rows as the positive batch", A.seq_length(bb) == plen)
            bsrc, bidx = bb.row(i)
            vc.check("bases/row i of batch j is bases[.] of the caller", bsrc == "bases")
            if canary == "spec-bases-unshuffled":
                vc.check("pairing/each sample travels with its own basis row (same index)", bidx == j * B + i)
            else:
                vc.check("pairing/each sample travels with its own basis row (same index)", bidx == idx)
        # negative batches
        nlen = A.seq_length(neg)
        k = vc.fresh_int("k", 0)
        vc.assume(k < nlen)
        nsrc, nidx = neg.row(k)
        if cfg["bases"]:
            vc.check("negative/with bases every row is a reference-basis row", nsrc == "z")
            vc.check("negative/row index within the reference-basis rows", AND(nidx >= 0, nidx < nz))
            vc.check("negative/neg_batch_size rows per batch", nlen == NB)
        elif cfg["neg"] == "same":
            vc.check("negative/equal sizes without bases: the negative batch is the positive batch", AND(nsrc == "train", nlen == plen))
            i2 = vc.fresh_int("i2", 0)
            vc.assume(i2 < plen)
            vc.check("negative/same rows as the positive batch", neg.row(i2)[1] == pos.row(i2)[1])
        else:
            vc.check("negative/rows of the training data", nsrc == "train")
            vc.check("negative/row index within the data", AND(nidx >= 0, nidx < N))
            vc.check("negative/neg_batch_size rows per batch", nlen == NB)
    vc.explore(run, "_shuffle_data")
    ctx.rewritten = holder.get("rew", [])
    vc.flush()
    ctx.holds("exploration/paths > 0", vc.paths > 0)


def _index_lemmas(ctx):
    """t -> (t div B, t mod B) is a bijection between [0,N) and the batch positions {(j,i): 0<=j<nb, 0<=i<min(B,N-jB)}."""
    vc = VC(ctx)

    def run():
        N, B = vc.fresh_int("N", 1), vc.fresh_int("B", 1)
        nb = (N + B - 1) // B
        t = vc.fresh_int("t", 0)
        vc.assume(t < N)
        j, i = t // B, t % B
        vc.check("cover/every row index t lands in a valid batch position", AND(j >= 0, j < nb, i >= 0, i < A.sb_min(B, N - j * B), j * B + i == t))
        j2 = vc.fresh_int("j2", 0)
        i2 = vc.fresh_int("i2", 0)
        vc.assume(AND(j2 < nb, i2 < A.sb_min(B, N - j2 * B)))
        t2 = j2 * B + i2
        vc.check("positions/every batch position is a row index in [0,N)", AND(t2 >= 0, t2 < N))
        vc.check("injective/distinct batch positions hold distinct row indices", IMPLIES(t2 == t, AND(j2 == j, i2 == i)))
        tot_last = N - (nb - 1) * B
        vc.check("sizes/the last batch has between 1 and B rows", AND(tot_last >= 1, tot_last <= B))
    vc.explore(run, "index lemmas")
    vc.flush()


def replay(o):
    from drivers import C07 as D
    return D.replay(o["cfg"], (o.get("witness") or {}).get("model") or {})
