"""Front end N: run the real function objects of /repo on symbolic tensors."""
import contextlib
import itertools
import sys

import numpy as np
import torch
from torch import nn

from . import alg, solve
from . import symtensor as st
from .symtensor import SymTensor, fresh, sym

alg.NONNEG_ORACLE = solve.prove_nonneg


def symbolize(module, prefix, zero=(), frozen=True):
    """Replace every parameter of a real nn.Module (built by the real constructor)
    by an nn.Parameter wrapping fresh symbolic reals.  `zero` lists parameter names
    held at exactly 0 (documented preconditions such as the phase aux bias)."""
    names = []
    for name, p in list(module.named_parameters()):
        shape = tuple(p.shape)
        if name in zero:
            arr = np.empty(shape, dtype=object)
            arr[...] = alg.ZERO
            t = SymTensor(arr, st.Storage("%s.%s" % (prefix, name), frozen))
        else:
            t = fresh(shape, "%s.%s" % (prefix, name), owner="%s.%s" % (prefix, name), frozen=frozen)
        setattr(module, name, nn.Parameter(t, requires_grad=False))
        if st.REQUIRES_GRAD[0]:
            getattr(module, name)._rg = True      # as if installed by `nn.Parameter(W)` (see symtensor.REQUIRES_GRAD)
        names.append(name)
    return names


def param_entries(module):
    """name -> object ndarray of P for the (symbolized) module, in named_parameters() order."""
    return {n: p._arr for n, p in module.named_parameters()}


@contextlib.contextmanager
def stubbed(obj, name, fn):
    """Bind obj.name to a contract stub for the duration of the block (instance
    attribute on the sidecar-built object; classes of /repo are never patched)."""
    had = name in getattr(obj, "__dict__", {})
    old = obj.__dict__.get(name) if had else None
    object.__setattr__(obj, name, fn) if not isinstance(obj, nn.Module) else obj.__dict__.__setitem__(name, fn)
    try:
        yield
    finally:
        if had:
            obj.__dict__[name] = old
        else:
            obj.__dict__.pop(name, None)


def bits(n):
    return list(itertools.product((0, 1), repeat=n))


def hilbert(n):
    """All basis states as a concrete double tensor, big-endian (row k = binary expansion of k)."""
    return torch.tensor(bits(n), dtype=torch.double).reshape(2 ** n, n)
