"""Which shape-generic cases (front end G) belong to which property."""
from . import generic


def cases_for(prop):
    if prop == "C15":
        from qucumber.utils import cplx
        from . import gcplx
        return gcplx.cases(cplx)
    from . import grbm
    allc = grbm.cases("all")
    pick = {
        "C01": ("BinaryRBM.effective_energy[", "BinaryRBM.partition", "PositiveWaveFunction.", "ComplexWaveFunction."),
        "C02": ("PurificationRBM.effective_energy[", "PurificationRBM.partition", "PurificationRBM.mixing_term",
                "PurificationRBM.gamma[", "DensityMatrix."),
        "C03": ("BinaryRBM.effective_energy_gradient", "PurificationRBM.effective_energy_gradient"),
        "C05": ("BinaryRBM.prob_", "PurificationRBM.prob_"),
        "C10": ("NLL[", "KL[", "fidelity["),
        "C06": ("compute_batch_gradients[",),
        "C08": ("SigmaZ", "SigmaX", "SigmaY"),
        "C13": ("statistics_from_samples",),
        "C09": ("SWAP.apply[",),
    }.get(prop, ())
    return [c for c in allc if c.name.startswith(pick)]


def run(ctx, prop):
    cs = cases_for(prop)
    for c in cs:
        ctx.under_contract(c.name.split("[")[0])
    return generic.run_cases(ctx, cs, "", canary=getattr(ctx, "canary", None))


def replay(prop, o):
    return generic.replay_case(cases_for(prop), o)
