"""C04 — measurement-basis rotations equal the Kronecker-product unitary (front end N)."""
import itertools

import numpy as np
import torch

from qv import alg, native as N, symtensor as st
from qv.alg import I, ZERO, ONE
from contracts import unitary as U

LEVEL = "proof"
MANIFEST = {
    "engine": "qv-native",
    "category": "proof",
    "technique": "contracts on _kron_mult / rotate_psi / rotate_rho / rotate_psi_inner_prod / rotate_rho_probs / create_dict, bodies executed on symbolic unitaries, psi and rho; obligations discharged by polynomial normal form and z3",
    "text": "With every non-Z letter of the basis string bound to a fully symbolic complex 2x2 matrix (so user-added unitaries are covered), psi an arbitrary symbolic complex vector and rho an arbitrary symbolic complex (non-Hermitian, non-symmetric) matrix, the real functions must return exactly U psi, U rho U^dagger and their entries / real diagonal for the dense Kronecker product U built from its definition (site 0 leftmost), for explicit and model-derived states, with and without extras, for batches with repeats in any order. The default dictionary is checked to hold Z = 1 and the +1/-1 eigen-rows of Pauli X, Y, to be unitary, and rotated probabilities of a physical state to be non-negative and to sum to the normalisation.",
    "note": "floats as reals; the constant float(1/np.sqrt(2)) and its float products are treated as the algebraic number sqrt(1/2)^k; strings enumerated (quick n<=2, thorough all 3^n for n<=3, with an added unitary for five strings of up to 3 sites; four-site strings and 9-12 sites by the bounded driver), values unbounded",
}
EXPLANATION = "symbolic unitaries per letter, symbolic psi/rho entries; compared with dense Kronecker product built from the definition"
TRUSTED = ["float(1/np.sqrt(2)) and its float products are the algebraic constants sqrt(1/2)^k (recognised within a few ulp)"]


def configs(tier):
    out = [{"mode": "dictionary"}]
    if tier == "quick":
        strings = ["X", "Y", "Z", "H", "XY", "YX", "ZY", "XZ", "YY", "HZ", "XH", "ZZ"]
    else:
        strings = []
        for n in (1, 2, 3):
            strings += ["".join(s) for s in itertools.product("XYZ", repeat=n)]
        # four-site strings are left to the drivers: with the layout, element-type and grad-off obligations a symbolic
        # four-site rotation takes more than half an hour and several GB
        strings += ["H", "HX", "ZH", "YHZ", "HYX"]
    for s in strings:
        out.append({"mode": "symbolic", "basis": s})
    dstr = ["X", "Y", "Z", "XY", "YX", "YZ", "ZX", "YY"] if tier == "quick" else \
        ["".join(s) for n in (1, 2, 3) for s in itertools.product("XYZ", repeat=n)]
    for s in dstr:
        out.append({"mode": "default-dict", "basis": s})
    # _rotate_basis_state enumerates the rotated sub-space with generate_hilbert_space(size = number of non-Z sites) and
    # explicit states are indexed through _convert_basis_element_to_index: the rotation contracts above are proved per
    # basis string for up to 3-4 sites and rely on these two callees for every size; their contract (C19's exhaustive
    # obligation set) is shared here
    out.append({"mode": "symbolic", "basis": "XY", "grad": "off"})          # rotations called under torch.no_grad()
    out.append({"mode": "symbolic", "basis": "Y", "grad": "off"})
    for size in (range(1, 13) if tier == "quick" else range(1, 21)):
        out.append({"mode": "callee", "callee": "indexing", "size": size})
    return out


def canaries(tier):
    return [({"mode": "symbolic", "basis": "XY"}, "spec-reversed-site-order"),
            ({"mode": "symbolic", "basis": "Y"}, "spec-rho-transposed")]


def _sym_complex(shape, prefix):
    re_ = st.fresh(shape, prefix + "_re")._arr
    im_ = st.fresh(shape, prefix + "_im")._arr
    a = np.empty((2,) + tuple(shape), dtype=object)
    a[0], a[1] = re_, im_
    return st.SymTensor(a)


def _idx_rows(v):
    flat = v.reshape(-1, v.shape[-1]).tolist()
    return np.array([U.index_of(r) for r in flat]).reshape(v.shape[:-1])


def _psi_stub(psi_c):
    """Contract stub of nn_state.psi: opaque amplitudes indexed by basis state."""
    def stub(v):
        idx = _idx_rows(v)
        out = np.empty((2,) + idx.shape, dtype=object)
        for k in np.ndindex(*idx.shape):
            out[(0,) + k] = alg.re(psi_c[idx[k]])
            out[(1,) + k] = alg.im(psi_c[idx[k]])
        return st.SymTensor(out)
    return stub


def _rho_stub(rho_c):
    """Contract stub of DensityMatrix.rho(v, vp=None, expand=True): [i,j,...] = rho(v_i..., v_j...)."""
    def stub(v, vp=None, expand=True):
        if vp is None:
            vp = v
        if not expand:
            raise alg.Unmodelled("rho stub: expand=False")
        iv, ivp = _idx_rows(v), _idx_rows(vp)
        if v.dim() == 2:
            out = np.empty((2, iv.shape[0], ivp.shape[0]), dtype=object)
            for i in range(iv.shape[0]):
                for j in range(ivp.shape[0]):
                    out[0, i, j] = alg.re(rho_c[iv[i], ivp[j]])
                    out[1, i, j] = alg.im(rho_c[iv[i], ivp[j]])
            return st.SymTensor(out)
        K, B = iv.shape
        out = np.empty((2, K, K, B), dtype=object)
        for i in range(K):
            for j in range(K):
                for b in range(B):
                    out[0, i, j, b] = alg.re(rho_c[iv[i, b], ivp[j, b]])
                    out[1, i, j, b] = alg.im(rho_c[iv[i, b], ivp[j, b]])
        return st.SymTensor(out)
    return stub


def run_config(ctx, cfg):
    if cfg["mode"] == "callee":
        from lemmas import C19
        return C19._indexing(ctx, {"part": "indexing", "size": cfg["size"]})
    if cfg["mode"] == "dictionary":
        return _dictionary(ctx)
    return _rotations(ctx, cfg)


def _dictionary(ctx):
    from qucumber.utils import unitaries, cplx
    ctx.under_contract("unitaries.create_dict")
    d = unitaries.create_dict()
    ctx.holds("create_dict/keys", sorted(d.keys()) == ["X", "Y", "Z"], str(sorted(d.keys())))
    c = {k: U.cdec(st._obj(v)) for k, v in d.items()}
    h = alg.sqrt_half()
    want = {"Z": [[ONE, ZERO], [ZERO, ONE]], "X": [[h, h], [h, -h]], "Y": [[h, -I * h], [h, I * h]]}
    pauli = {"X": [[ZERO, ONE], [ONE, ZERO]], "Y": [[ZERO, -I], [I, ZERO]], "Z": [[ONE, ZERO], [ZERO, -ONE]]}
    for k in "XYZ":
        ctx.holds("create_dict/%s/shape-dtype" % k, tuple(d[k].shape) == (2, 2, 2) and d[k].dtype == torch.double)
        for r in range(2):
            for cc in range(2):
                ctx.eq("create_dict/%s/entry[%d,%d]" % (k, r, cc), c[k][r, cc], want[k][r][cc])
        # rows are the +1 / -1 eigenvectors (in that order): sigma . row_s^dagger == (+1,-1)_s row_s^dagger
        if k in "XY":
            for s, lam in ((0, 1), (1, -1)):
                ket = [alg.conj(c[k][s, 0]), alg.conj(c[k][s, 1])]
                for r in range(2):
                    lhs = pauli[k][r][0] * ket[0] + pauli[k][r][1] * ket[1]
                    ctx.eq("create_dict/%s/row%d-is-eigenvector(%+d)[%d]" % (k, s, lam, r), lhs, ket[r] * lam)
        UUd = U.matmat(c[k], U.dagger(c[k]))
        for r in range(2):
            for cc in range(2):
                ctx.eq("create_dict/%s/unitary[%d,%d]" % (k, r, cc), UUd[r, cc], ONE if r == cc else ZERO)
    Hm = torch.tensor([[[1.0, 2.0], [3.0, 4.0]], [[0.5, 0.0], [0.0, -0.5]]], dtype=torch.float32)
    d2 = unitaries.create_dict(H=Hm, G=[[[1, 0], [0, 1]], [[0, 1], [1, 0]]])
    ctx.holds("create_dict/added/keys", sorted(d2.keys()) == ["G", "H", "X", "Y", "Z"])
    ctx.holds("create_dict/added/value-and-double", d2["H"].dtype == torch.double and torch.equal(d2["H"], Hm.double())
              and d2["G"].dtype == torch.double and d2["G"].tolist() == [[[1, 0], [0, 1]], [[0, 1], [1, 0]]])
    ctx.holds("create_dict/added/not-aliasing-caller", d2["H"].data_ptr() != Hm.data_ptr())
    ctx.holds("create_dict/added/defaults-kept", all(torch.equal(d2[k], d[k]) for k in "XYZ"))
    # history: a dictionary belongs to whoever asked for it. Editing the tensors of one (or of a state's default dictionary)
    # in place reaches no other dictionary, no other state, and no dictionary made later
    from qucumber.nn_states import ComplexWaveFunction, DensityMatrix
    ref = {k: d[k].clone() for k in "XYZ"}
    mine, s_old = unitaries.create_dict(), ComplexWaveFunction(2, 1, gpu=False)
    ptrs = {id_: {k: v.data_ptr() for k, v in dd.items() if k in "XYZ"} for id_, dd in (("d", d), ("mine", mine), ("state", s_old.unitary_dict))}
    ctx.holds("create_dict/history: default entries of two dictionaries (and of a state's default dictionary) share no storage",
              all(len({ptrs[a][k] for a in ptrs}) == 3 for k in "XYZ"))
    for k in "XYZ":
        mine[k].mul_(-3.0).add_(0.25)
        s_old.unitary_dict[k].zero_()
    later, s_new, m_new = unitaries.create_dict(), ComplexWaveFunction(2, 1, gpu=False), DensityMatrix(2, 1, 1, gpu=False)
    ctx.holds("create_dict/history: after another dictionary's tensors were edited in place, an existing dictionary still holds the Pauli eigenvector unitaries",
              all(torch.equal(d[k], ref[k]) for k in "XYZ"))
    ctx.holds("create_dict/history: ... and so do a dictionary made later and the default dictionaries of states made later",
              all(torch.equal(later[k], ref[k]) and torch.equal(s_new.unitary_dict[k], ref[k]) and torch.equal(m_new.unitary_dict[k], ref[k]) for k in "XYZ"))


def _rotations(ctx, cfg):
    from drivers import common as DC
    from qucumber.utils import unitaries, cplx
    canary = getattr(ctx, "canary", None)
    basis = cfg["basis"]
    n = len(basis)
    D = 2 ** n
    symbolic = cfg["mode"] == "symbolic"
    cw = DC.make_state("complex", n, 1)
    dm = DC.make_state("mixed", n, 1, 1)
    base = unitaries.create_dict()
    if symbolic:
        ud = {"Z": base["Z"]}
        for L in sorted(set(basis) | {"X"}):
            if L != "Z":
                ud[L] = _sym_complex((2, 2), "U" + L)
        # names are case sensitive: 'x', 'y', 'z' are unitaries of the user's own, unrelated to 'X', 'Y', 'Z'
        for L in "xyz":
            ud[L] = _sym_complex((2, 2), "lower_" + L)
    else:
        ud = base
    cw.unitary_dict = dict(ud)
    dm.unitary_dict = dict(ud)
    uc = {k: U.cdec(st._obj(v)) for k, v in ud.items()}
    us = [uc[b] for b in basis]
    Ud = U.kron_dense(us[::-1] if canary == "spec-reversed-site-order" else us)
    Udag = U.dagger(Ud)
    space = cw.generate_hilbert_space(n)
    st.reset_logs()
    ctx.under_contract("unitaries._kron_mult", "unitaries.rotate_psi", "unitaries.rotate_rho", "unitaries._rotate_basis_state",
                       "unitaries._convert_basis_element_to_index", "unitaries.rotate_psi_inner_prod", "unitaries.rotate_rho_probs",
                       "cplx.matmul", "cplx.conjugate", "cplx.make_complex", "cplx.numpy")

    psi_t = _sym_complex((D,), "psi")
    psi_c = U.cdec(psi_t._arr)
    # explicit rho: Hermitian with complex (non-symmetric) off-diagonal entries, as the property quantifies
    rarr = np.empty((2, D, D), dtype=object)
    for i in range(D):
        for j in range(D):
            if i == j:
                rarr[0, i, j], rarr[1, i, j] = alg.par("rho_re[%d,%d]" % (i, i)), ZERO
            elif i < j:
                rarr[0, i, j], rarr[1, i, j] = alg.par("rho_re[%d,%d]" % (i, j)), alg.par("rho_im[%d,%d]" % (i, j))
            else:
                rarr[0, i, j], rarr[1, i, j] = alg.par("rho_re[%d,%d]" % (j, i)), -alg.par("rho_im[%d,%d]" % (j, i))
    rho_t = st.SymTensor(rarr)
    rho_c = U.cdec(rho_t._arr)
    Upsi = U.matvec(Ud, psi_c)
    UrU = U.matmat(U.matmat(Ud, rho_c.T if canary == "spec-rho-transposed" else rho_c), Udag)

    # ---- _kron_mult on a vector and on a matrix
    tl = [ud[b] for b in basis]
    y = unitaries._kron_mult(tl, psi_t)
    ctx.holds("_kron_mult/vector-shape", tuple(y.shape) == (2, D))
    ctx.eq_arrays("_kron_mult/vector == (u0 x ... x un-1) psi", U.cdec(y._arr), Upsi, z3_confirm=False)
    ym = unitaries._kron_mult(tl, rho_t)
    ctx.eq_arrays("_kron_mult/matrix == U rho", U.cdec(ym._arr), U.matmat(Ud, rho_c), z3_confirm=False)
    try:
        unitaries._kron_mult(tl, _sym_complex((D + 1,), "bad"))
        ctx.holds("_kron_mult/size-mismatch-raises", False, "no ValueError")
    except ValueError:
        ctx.holds("_kron_mult/size-mismatch-raises", True)
    ctx.holds("_kron_mult/input-not-written", psi_t._stor.version == 0 and rho_t._stor.version == 0)

    # ---- rotate_psi, explicit and model-derived (state.psi stubbed by its opaque spec)
    r1 = unitaries.rotate_psi(cw, basis, space, psi=psi_t)
    ctx.eq_arrays("rotate_psi/explicit-psi == U psi", U.cdec(r1._arr), Upsi, z3_confirm=False)
    with N.stubbed(cw, "psi", _psi_stub(psi_c)):
        ctx.stub("nn_state.psi")
        r2 = unitaries.rotate_psi(cw, basis, space)
        ctx.eq_arrays("rotate_psi/model-psi == U psi", U.cdec(r2._arr), Upsi, z3_confirm=False)
        r3 = unitaries.rotate_psi(cw, basis, space, unitaries=dict(ud))
        ctx.eq_arrays("rotate_psi/unitaries-argument == U psi", U.cdec(r3._arr), Upsi, z3_confirm=False)

    # ---- rotate_rho
    q1 = unitaries.rotate_rho(dm, basis, space, rho=rho_t)
    ctx.eq_arrays("rotate_rho/explicit-rho == U rho U^dagger", U.cdec(q1._arr), UrU, z3_confirm=False)
    with N.stubbed(dm, "rho", _rho_stub(rho_c)):
        ctx.stub("nn_state.rho")
        q2 = unitaries.rotate_rho(dm, basis, space)
        ctx.eq_arrays("rotate_rho/model-rho == U rho U^dagger", U.cdec(q2._arr), UrU, z3_confirm=False)

    # ---- the same explicit states in another memory layout (transposed storage, as `x.t()` / a slice of a larger buffer
    # give): the statement is about the values of psi / rho, not about how the caller happens to store them
    psi_nc = st.SymTensor(np.ascontiguousarray(psi_t._arr.T)).t()
    rho_nc = st.SymTensor(np.ascontiguousarray(rho_t._arr.transpose(2, 1, 0))).permute(2, 1, 0)
    big = np.empty((2, D + 1, D + 2), dtype=object)
    big[...] = alg.par("unrelated_buffer_entry")
    big[:, :D, 1:D + 1] = rho_t._arr
    rho_sl = st.SymTensor(big)[:, :D, 1:D + 1]
    ctx.holds("layout/the non-contiguous test states are non-contiguous", (not psi_nc.is_contiguous()) and (not rho_nc.is_contiguous()) and (D == 1 or not rho_sl.is_contiguous()))
    ctx.eq_arrays("layout/_kron_mult/transposed-storage vector == (u0 x ... x un-1) psi", U.cdec(unitaries._kron_mult(tl, psi_nc)._arr), Upsi, z3_confirm=False)
    ctx.eq_arrays("layout/_kron_mult/transposed-storage matrix == U rho", U.cdec(unitaries._kron_mult(tl, rho_nc)._arr), U.matmat(Ud, rho_c), z3_confirm=False)
    ctx.eq_arrays("layout/rotate_psi/transposed-storage explicit psi == U psi", U.cdec(unitaries.rotate_psi(cw, basis, space, psi=psi_nc)._arr), Upsi, z3_confirm=False)
    ctx.eq_arrays("layout/rotate_rho/transposed-storage explicit rho == U rho U^dagger", U.cdec(unitaries.rotate_rho(dm, basis, space, rho=rho_nc)._arr), UrU, z3_confirm=False)
    ctx.eq_arrays("layout/rotate_rho/explicit rho that is a window of a larger buffer == U rho U^dagger", U.cdec(unitaries.rotate_rho(dm, basis, space, rho=rho_sl)._arr), UrU, z3_confirm=False)
    ctx.holds("layout/input-not-written", psi_nc._stor.version == 0 and rho_nc._stor.version == 0 and rho_sl._stor.version == 0)

    # ---- explicit states of another element type (single precision, integers): the rotation is that of the values the
    # tensor holds, computed in double precision with the unitaries as they are
    for tname, dt in (("float32", torch.float32), ("int64", torch.int64)):
        p32 = psi_t.to(dt)
        r32 = rho_t.to(dt)
        pc32, rc32 = U.cdec(p32._arr), U.cdec(r32._arr)
        try:
            ctx.eq_arrays("dtype/rotate_psi/explicit %s psi == U psi" % tname, U.cdec(unitaries.rotate_psi(cw, basis, space, psi=p32)._arr), U.matvec(Ud, pc32), z3_confirm=False)
            ctx.eq_arrays("dtype/rotate_rho/explicit %s rho == U rho U^dagger" % tname, U.cdec(unitaries.rotate_rho(dm, basis, space, rho=r32)._arr),
                          U.matmat(U.matmat(Ud, rc32), Udag), z3_confirm=False)
            order32 = list(range(D))[::-1]
            b32 = space[order32].clone()
            a32 = unitaries.rotate_psi_inner_prod(cw, basis, b32, psi=p32)
            want_a = U.matvec(Ud, pc32)
            for b_, k_ in enumerate(order32):
                ctx.eq("dtype/rotate_psi_inner_prod/explicit %s psi == (U psi)[index][b=%d]" % (tname, b_), st._obj(a32)[0, b_] + I * st._obj(a32)[1, b_], want_a[k_], z3_confirm=False)
            q32 = unitaries.rotate_rho_probs(dm, basis, b32, rho=r32)
            want_q = U.matmat(U.matmat(Ud, rc32), Udag)
            for b_, k_ in enumerate(order32):
                ctx.eq("dtype/rotate_rho_probs/explicit %s rho == Re (U rho U^dagger)[index,index][b=%d]" % (tname, b_), st._obj(q32)[b_], alg.re(want_q[k_, k_]), z3_confirm=False)
        except alg.Unmodelled as e:
            ctx.undecided("dtype/explicit %s states" % tname, str(e)[:200])
    # ---- rotated amplitudes / probabilities of a batch of outcomes (repeats, any order)
    # (also a batch of exactly 2^n rows that is NOT the ordered basis: the number of rows says nothing about their content)
    orders = [("", list(range(D))[::-1] + [0, D - 1, 0]), ("2^n-rows/", (list(range(1, D))[::-1] + [D - 1]) if D > 1 else [0])]
    unchanged = True
    for otag, order in orders:
        batch = space[order].clone()
        keep = batch.clone()
        for label, kw_psi in (("explicit", {"psi": psi_t}), ("model", {})):
            with N.stubbed(cw, "psi", _psi_stub(psi_c)):
                a = unitaries.rotate_psi_inner_prod(cw, basis, batch, **kw_psi)
                ctx.holds("rotate_psi_inner_prod/" + otag + "%s/shape" % label, tuple(a.shape) == (2, len(order)), str(tuple(a.shape)))
                for b, k in enumerate(order):
                    ctx.eq("rotate_psi_inner_prod/" + otag + "%s == (U psi)[index][b=%d]" % (label, b), a._arr[0, b] + I * a._arr[1, b], Upsi[k], z3_confirm=False)
                a2, av, vv = unitaries.rotate_psi_inner_prod(cw, basis, batch, include_extras=True, **kw_psi)
                ctx.eq_arrays("rotate_psi_inner_prod/" + otag + "%s/extras: same result" % label, a2, a, z3_confirm=False)
                ctx.eq_arrays("rotate_psi_inner_prod/" + otag + "%s/extras: terms sum to result" % label, np.sum(av._arr, axis=1), a._arr, z3_confirm=False)
                ctx.holds("rotate_psi_inner_prod/" + otag + "%s/extras: v shape" % label, tuple(vv.shape)[1:] == tuple(batch.shape) and tuple(av.shape) == (2, vv.shape[0], len(order)))
                a1 = unitaries.rotate_psi_inner_prod(cw, basis, batch[1:2], **kw_psi)
                ctx.eq("rotate_psi_inner_prod/" + otag + "%s/batch-of-one" % label, a1._arr[0].reshape(-1)[0] + I * a1._arr[1].reshape(-1)[0], Upsi[order[1]], z3_confirm=False)
            with N.stubbed(dm, "rho", _rho_stub(rho_c)):
                kw_rho = {"rho": rho_t} if label == "explicit" else {}
                p = unitaries.rotate_rho_probs(dm, basis, batch, **kw_rho)
                ctx.holds("rotate_rho_probs/" + otag + "%s/shape" % label, tuple(p.shape) == (len(order),), str(tuple(p.shape)))
                for b, k in enumerate(order):
                    ctx.eq("rotate_rho_probs/" + otag + "%s == Re (U rho U^dagger)[index,index][b=%d]" % (label, b), p._arr[b], alg.re(UrU[k, k]), z3_confirm=False)
                p2, pv, vv = unitaries.rotate_rho_probs(dm, basis, batch, include_extras=True, **kw_rho)
                ctx.eq_arrays("rotate_rho_probs/" + otag + "%s/extras: same result" % label, p2, p, z3_confirm=False)
                ctx.eq_arrays("rotate_rho_probs/" + otag + "%s/extras: real terms sum to result" % label, np.sum(pv._arr[0], axis=(0, 1)), p._arr, z3_confirm=False)

        unchanged = unchanged and torch.equal(batch, keep)
    ctx.holds("batch-of-outcomes-not-modified", unchanged)

    # ---- history: the same basis string with ANOTHER dictionary in the same process (nothing may be carried over from
    # the calls above: user-added unitaries, states with different dictionaries, a dictionary edited in place)
    if symbolic:
        ud2 = {"Z": base["Z"]}
        for L in sorted(set(basis) | {"X"}):
            if L != "Z":
                ud2[L] = _sym_complex((2, 2), "V" + L)
        uc2 = {k: U.cdec(st._obj(v)) for k, v in ud2.items()}
        Ud2 = U.kron_dense([uc2[b] for b in basis])
        Upsi2 = U.matvec(Ud2, psi_c)
        UrU2 = U.matmat(U.matmat(Ud2, rho_c), U.dagger(Ud2))
        for holder, how in ((cw, "a second state / replaced dictionary"), (cw, "dictionary edited in place")):
            if how.startswith("a second"):
                cw.unitary_dict = dict(ud2)
                dm.unitary_dict = dict(ud2)
            else:
                cw.unitary_dict = dict(ud)
                dm.unitary_dict = dict(ud)
                unitaries.rotate_psi_inner_prod(cw, basis, batch, psi=psi_t)
                unitaries.rotate_rho_probs(dm, basis, batch, rho=rho_t)
                for k_ in list(cw.unitary_dict):
                    if k_ in ud2:
                        cw.unitary_dict[k_] = ud2[k_]
                        dm.unitary_dict[k_] = ud2[k_]
            a = unitaries.rotate_psi_inner_prod(cw, basis, batch, psi=psi_t)
            for b, k in enumerate(order[:D]):
                ctx.eq("history/%s: rotate_psi_inner_prod uses the dictionary of this call[b=%d]" % (how, b), a._arr[0, b] + I * a._arr[1, b], Upsi2[k], z3_confirm=False)
            p = unitaries.rotate_rho_probs(dm, basis, batch, rho=rho_t)
            for b, k in enumerate(order[:D]):
                ctx.eq("history/%s: rotate_rho_probs uses the dictionary of this call[b=%d]" % (how, b), p._arr[b], alg.re(UrU2[k, k]), z3_confirm=False)
            r2 = unitaries.rotate_psi(cw, basis, space, psi=psi_t)
            ctx.eq_arrays("history/%s: rotate_psi uses the dictionary of this call" % how, U.cdec(r2._arr), Upsi2, z3_confirm=False)
            a3 = unitaries.rotate_psi_inner_prod(cw, basis, batch, unitaries=dict(ud), psi=psi_t)
            for b, k in enumerate(order[:D]):
                ctx.eq("history/%s: an explicit unitaries= argument takes precedence[b=%d]" % (how, b), a3._arr[0, b] + I * a3._arr[1, b], Upsi[k], z3_confirm=False)

    # ---- lemma: unitarity consequences for the default dictionary (physical states)
    if not symbolic:
        n2 = ZERO
        tot = ZERO
        for k in range(D):
            tot = tot + alg.re(Upsi[k] * alg.conj(Upsi[k]))
            n2 = n2 + alg.re(psi_c[k] * alg.conj(psi_c[k]))
        ctx.eq("lemma/rotated pure probabilities sum to the norm", tot, n2, z3_confirm=False)
        tr, trr = ZERO, ZERO
        for k in range(D):
            tr = tr + UrU[k, k]
            trr = trr + rho_c[k, k]
        ctx.eq("lemma/rotation preserves the trace", tr, trr, z3_confirm=False)
        if n <= 2:
            # rho = Psi Psi^dagger (PSD, rank <= 2): rotated diagonal is a sum of squared moduli
            A = 2
            Ps = np.empty((D, A), dtype=object)
            for i in range(D):
                for a_ in range(A):
                    Ps[i, a_] = alg.par("Pr[%d,%d]" % (i, a_)) + I * alg.par("Pi[%d,%d]" % (i, a_))
            rho_psd = U.matmat(Ps, U.dagger(Ps))
            UP = U.matmat(Ud, Ps)
            R2 = U.matmat(U.matmat(Ud, rho_psd), Udag)
            for k in range(D):
                sq = ZERO
                for a_ in range(A):
                    sq = sq + alg.re(UP[k, a_] * alg.conj(UP[k, a_]))
                ctx.eq("lemma/rotated mixed probabilities are sums of squared moduli[%d]" % k, R2[k, k], sq, z3_confirm=False)


def replay(o):
    from drivers import C04 as D
    env = (o.get("witness") or {}).get("env") or {}
    return D.replay(o["cfg"], env)
