"""C16 — composite observables evaluate to the same arithmetic on their parts (front end A).

Structural induction by modularity: every node type is verified with its children
replaced by ghost observables whose per-sample value is an opaque symbolic real
(the induction hypothesis is the children's own `apply` contract), so the result
holds for expression trees of any depth.
"""
import numpy as np

from qv import astvc as A
from qv.astvc import VC

LEVEL = "proof"
MANIFEST = {
    "engine": "qv-astvc",
    "category": "proof",
    "technique": "contracts on the operator overloads of ObservableBase, SumObservable and ProdObservable (constructors and apply); current source recompiled in a sandbox and executed on symbolic scalars and ghost child observables; obligations (linear real arithmetic) discharged by z3",
    "text": "Each operator (-x, x+y, x-y, x*k, k+x, k-x, k*x) must build a node whose apply equals the corresponding arithmetic on the operands' per-sample values, for operands that are ghost observables with opaque symbolic values and scalars that are symbolic reals, symbolic ints, bools or float subclasses, on either side; apply of a node is verified against the apply contracts of its children (induction hypothesis), which gives every tree depth. Constructors must raise TypeError for operands that are neither numbers nor observables and ValueError for a product without exactly one observable.",
    "note": "per-sample values are modelled by one symbolic real per leaf (all node arithmetic is elementwise); mathematical reals; a bounded driver evaluates random trees of depth <= 6 on the real classes and real observables",
}
EXPLANATION = "ghost leaves with opaque symbolic per-sample values; symbolic scalars; modular induction over node types"
TRUSTED = ["elementwise tensor arithmetic acts independently per sample (so one symbolic value per leaf represents any batch)"]


def configs(tier):
    return [{"part": "nodes"}, {"part": "operators"}, {"part": "rejections"}, {"part": "frames"}]


def canaries(tier):
    return [({"part": "operators"}, "spec-rsub-swapped")]


def _world(vc):
    from qucumber.observables import observable as om
    OB, Sum, Prod = om.ObservableBase, om.SumObservable, om.ProdObservable
    SBSum = A.sandbox_class(Sum, vc)
    SBProd = A.sandbox_class(Prod, vc)
    # inside the recompiled classes the names SumObservable / ProdObservable denote the recompiled classes themselves, so
    # that `type(x) is SumObservable` and `isinstance` tests in the library's code see the objects under contract
    import types
    for cls_ in (SBSum, SBProd):
        for v in vars(cls_).values():
            fn = v if isinstance(v, types.FunctionType) else getattr(v, "__func__", None)
            if isinstance(fn, types.FunctionType) and fn.__globals__ is not globals():
                fn.__globals__["SumObservable"] = SBSum
                fn.__globals__["ProdObservable"] = SBProd
    opnames = ["__neg__", "__add__", "__sub__", "__mul__", "__radd__", "__rsub__", "__rmul__"]
    ops = {}
    rew = []
    for n in opnames:
        f, r = A.load(vars(OB)[n], None, vc, name="ObservableBase." + n)
        f.__globals__["SumObservable"] = SBSum
        f.__globals__["ProdObservable"] = SBProd
        ops[n] = f
        rew += r

    class Leaf(OB):
        def __init__(self, val, nm):
            self.val = val
            self.name = nm
            self.symbol = nm
            self.calls = 0

        def apply(self, nn_state, samples):
            self.calls += 1
            return self.val
    # the operators are inherited from ObservableBase; a composite class that defines one of its own keeps its own
    # (recompiled with the class)
    for cls, orig in ((Leaf, None), (SBSum, Sum), (SBProd, Prod)):
        for n, f in ops.items():
            if orig is None or n not in vars(orig):
                setattr(cls, n, f)
    return Leaf, SBSum, SBProd, rew + SBSum._vc_rewritten + SBProd._vc_rewritten


def frames(ctx, prefix=""):
    """Evaluating a composite reads its leaves' values: neither the tensors the leaves returned (which may be views of
    the sample array) nor the samples are modified (real classes, concrete tensors; every node form)."""
    import torch
    from qucumber.observables.observable import ObservableBase, SumObservable, ProdObservable

    class Column(ObservableBase):
        """a user observable returning a view of the samples"""

        def __init__(self, i):
            self.i = i
            self.name = "col%d" % i
            self.symbol = self.name

        def apply(self, nn_state, samples):
            return samples[:, self.i]
    forms = {"x + y": lambda x, y: x + y, "x - y": lambda x, y: x - y, "x + 2": lambda x, y: x + 2, "2 + x": lambda x, y: 2 + x, "x - 0.5": lambda x, y: x - 0.5,
             "3 - x": lambda x, y: 3 - x, "-x": lambda x, y: -x, "x * 2.5": lambda x, y: x * 2.5, "2.5 * x": lambda x, y: 2.5 * x,
             "(x + y) - (2 * x + 1)": lambda x, y: (x + y) - (2 * x + 1)}
    for tag, mk in forms.items():
        samples = torch.tensor([[0., 1., 1.], [1., 0., 1.], [1., 1., 0.], [0., 0., 1.]], dtype=torch.double)
        keep = samples.clone()
        x, y = Column(0), Column(1)
        node = mk(x, y)
        out = node.apply(None, samples)
        v = {"x": keep[:, 0], "y": keep[:, 1]}
        want = eval(tag, {}, v)
        ctx.holds(prefix + "frame/%s: value is the arithmetic on the leaves" % tag, torch.allclose(torch.as_tensor(out, dtype=torch.double), want))
        ctx.holds(prefix + "frame/%s: samples and the leaves' returned views are not modified" % tag, torch.equal(samples, keep))
        st1 = node.statistics_from_samples(None, samples)
        ctx.holds(prefix + "frame/%s: statistics_from_samples leaves the samples unchanged and describes the combined value" % tag,
                  torch.equal(samples, keep) and abs(st1["mean"] - float(want.mean())) < 1e-12)
        # history: the caller advances the chains in place (same tensor object) and evaluates again
        samples.copy_(torch.tensor([[1., 1., 0.], [0., 1., 0.], [0., 0., 1.], [1., 0., 0.]], dtype=torch.double))
        keep2 = samples.clone()
        out2 = node.apply(None, samples)
        want2 = eval(tag, {}, {"x": keep2[:, 0], "y": keep2[:, 1]})
        ctx.holds(prefix + "history/%s: evaluated again on the same tensor object after an in-place change == arithmetic on the current leaves" % tag,
                  torch.allclose(torch.as_tensor(out2, dtype=torch.double), want2))


def run_config(ctx, cfg):
    if cfg["part"] == "frames":
        ctx.under_contract("SumObservable.apply", "ProdObservable.apply", "ObservableBase.statistics_from_samples")
        return frames(ctx)
    canary = getattr(ctx, "canary", None)
    vc = VC(ctx)
    Leaf, SBSum, SBProd, rew = _world(vc)
    ctx.rewritten = rew
    ctx.under_contract("ObservableBase.__neg__", "ObservableBase.__add__", "ObservableBase.__sub__", "ObservableBase.__mul__",
                       "ObservableBase.__radd__", "ObservableBase.__rsub__", "ObservableBase.__rmul__", "SumObservable.__init__",
                       "SumObservable.apply", "ProdObservable.__init__", "ProdObservable.apply")
    S, X = object(), object()      # opaque state / batch handed through

    def scalars():
        return [("real", vc.fresh_real("a")), ("int", vc.fresh_int("k")), ("True", True), ("False", False), ("0", 0), ("-2.5", -2.5),
                ("np.float64", np.float64(1.5))]

    def val(x):
        return x

    if cfg["part"] == "nodes":
        def run():
            x, y = Leaf(vc.fresh_real("x"), "x"), Leaf(vc.fresh_real("y"), "y")
            n = SBSum(x, y)
            vc.check("Sum(obs,obs).apply == left + right", n.apply(S, X) == x.val + y.val)
            # names do not identify observables (SigmaZ and SigmaZ(absolute=True) share one): equal names, different values
            xs, ys = Leaf(vc.fresh_real("x"), "same"), Leaf(vc.fresh_real("y"), "same")
            vc.check("Sum(obs,obs).apply == left + right for operands that share a name", SBSum(xs, ys).apply(S, X) == xs.val + ys.val)
            vc.check("x - y for operands that share a name", (xs - ys).apply(S, X) == xs.val - ys.val)
            vc.check("x + x (the same object twice)", SBSum(xs, xs).apply(S, X) == xs.val + xs.val)
            vc.check("Sum(obs,obs).apply calls each child's apply once", x.calls == 1 and y.calls == 1)
            # history: the same node is evaluated again with the same state and batch *objects* after their contents
            # changed (chains advanced in place, parameters trained): the value is the arithmetic on the current leaf values
            x.val, y.val = vc.fresh_real("x2"), vc.fresh_real("y2")
            vc.check("history/Sum evaluated again on the same objects after their contents changed == current left + right",
                     n.apply(S, X) == x.val + y.val)
            pn = SBProd(x, 3)
            v1 = pn.apply(S, X)
            x.val = vc.fresh_real("x3")
            vc.check("history/Prod evaluated again on the same objects after their contents changed == current product",
                     pn.apply(S, X) == x.val * 3)
            deep = (x + y) - (2 * x + 1)
            d1 = deep.apply(S, X)
            x.val, y.val = vc.fresh_real("x4"), vc.fresh_real("y4")
            vc.check("history/a nested composite evaluated again follows its leaves", deep.apply(S, X) == (x.val + y.val) - (2 * x.val + 1))
            # history: an observable that is already part of other expressions keeps its own value (building a composite
            # never changes its operands; a shared sub-expression may appear several times in one tree)
            a, b, c3, w = (Leaf(vc.fresh_real(nm_), nm_) for nm_ in ("a", "b", "c3", "w"))
            H = a + b
            H2 = H + c3
            H3 = H - w
            H4 = 2 * H - (H + c3)
            vc.check("history/an operand is unchanged by the composites built from it: H = a + b still evaluates to a + b", H.apply(S, X) == a.val + b.val)
            vc.check("history/H + c", H2.apply(S, X) == a.val + b.val + c3.val)
            vc.check("history/H - w", H3.apply(S, X) == a.val + b.val - w.val)
            vc.check("history/2*H - (H + c) with H shared", H4.apply(S, X) == 2 * (a.val + b.val) - (a.val + b.val + c3.val))
            P1 = H * 3
            P2 = -H
            vc.check("history/H after H * 3 and -H", H.apply(S, X) == a.val + b.val and P1.apply(S, X) == 3 * (a.val + b.val) and P2.apply(S, X) == -(a.val + b.val))
            # the same for a scaled observable (a Prod node) that is negated and subtracted more than once
            F = 2.5 * a
            lower, upper = b - F, b + F
            n1, n2 = -F, -F
            names = (F.name, F.symbol)
            vc.check("history/F = 2.5*a shared by b - F, b + F, -F, -F: every one is its own arithmetic expression and F is unchanged",
                     F.apply(S, X) == 2.5 * a.val and lower.apply(S, X) == b.val - 2.5 * a.val and upper.apply(S, X) == b.val + 2.5 * a.val
                     and n1.apply(S, X) == -2.5 * a.val and n2.apply(S, X) == -2.5 * a.val and (-n1).apply(S, X) == 2.5 * a.val
                     and F.apply(S, X) == 2.5 * a.val and (F.name, F.symbol) == names and n1 is not F and lower is not F)
            G = (a * b) if False else (a + b) * 2
            nG = -G
            vc.check("history/-((a+b)*2) and a - ((a+b)*2) leave (a+b)*2 unchanged", (a - G).apply(S, X) == a.val - 2 * (a.val + b.val)
                     and nG.apply(S, X) == -2 * (a.val + b.val) and G.apply(S, X) == 2 * (a.val + b.val))
            # history: an evaluation in which a leaf raised (a batch of the wrong width refused by a Pauli observable, say)
            # and the caller caught the error leaves no trace: later evaluations are the arithmetic on the current leaves
            class Refusing(Leaf):
                refuse = False

                def apply(self, nn_state, samples):
                    if self.refuse:
                        raise ValueError("refused by a leaf")
                    return Leaf.apply(self, nn_state, samples)
            e1, e2, e3 = Leaf(vc.fresh_real("e1"), "e1"), Refusing(vc.fresh_real("e2"), "e2"), Leaf(vc.fresh_real("e3"), "e3")
            shared = e1 + e3
            tree = (shared * 2 + e2) - shared
            other = e1 * 3 + e3
            vc.check("history/exception: before any failure", tree.apply(S, X) == (e1.val + e3.val) * 2 + e2.val - (e1.val + e3.val))
            e2.refuse = True
            raised = False
            try:
                tree.apply(S, X)
            except ValueError:
                raised = True
            vc.check("history/exception: an error raised by a leaf reaches the caller", raised)
            e2.refuse = False
            e1.val, e2.val, e3.val = vc.fresh_real("e1b"), vc.fresh_real("e2b"), vc.fresh_real("e3b")
            vc.check("history/exception: the same composite after a failed evaluation == arithmetic on the current leaves",
                     tree.apply(S, X) == (e1.val + e3.val) * 2 + e2.val - (e1.val + e3.val))
            vc.check("history/exception: a sub-expression shared with the failed composite == arithmetic on the current leaves", shared.apply(S, X) == e1.val + e3.val)
            vc.check("history/exception: another composite over the same leaves == arithmetic on the current leaves", other.apply(S, X) == e1.val * 3 + e3.val)
            fresh_tree = (e1 + e3) * 2 + e2
            vc.check("history/exception: a composite built after the failure == arithmetic on the current leaves", fresh_tree.apply(S, X) == (e1.val + e3.val) * 2 + e2.val)
            for tag, c in scalars():
                x, y = Leaf(vc.fresh_real("x"), "x"), Leaf(vc.fresh_real("y"), "y")
                vc.check("Sum(num,obs).apply == num + obs [%s]" % tag, SBSum(c, x).apply(S, X) == c + x.val)
                vc.check("Sum(obs,num).apply == obs + num [%s]" % tag, SBSum(x, c).apply(S, X) == x.val + c)
                vc.check("Sum(num,num).apply == num + num [%s]" % tag, SBSum(c, c).apply(S, X) == c + c)
                vc.check("Prod(num,obs).apply == num * obs [%s]" % tag, SBProd(c, x).apply(S, X) == c * x.val)
                vc.check("Prod(obs,num).apply == num * obs [%s]" % tag, SBProd(x, c).apply(S, X) == c * x.val)
        vc.explore(run, "nodes")
    elif cfg["part"] == "operators":
        def run():
            for tag, c in scalars():
                x, y = Leaf(vc.fresh_real("x"), "x"), Leaf(vc.fresh_real("y"), "y")
                ev = lambda node: node.apply(S, X)
                vc.check("-x evaluates to -eval(x)", ev(-x) == -x.val)
                vc.check("x + y", ev(x + y) == x.val + y.val)
                vc.check("x - y", ev(x - y) == x.val - y.val)
                vc.check("x + c [%s]" % tag, ev(x + c) == x.val + c)
                vc.check("c + x [%s]" % tag, ev(c + x) == c + x.val)
                vc.check("x - c [%s]" % tag, ev(x - c) == x.val - c)
                vc.check("c - x [%s]" % tag, ev(c - x) == ((c - x.val) if canary != "spec-rsub-swapped" else (x.val - c)))
                vc.check("x * c [%s]" % tag, ev(x * c) == x.val * c)
                vc.check("c * x [%s]" % tag, ev(c * x) == c * x.val)
                # one more level: the result of an operator is itself an operand with the same contract
                z = (c * x - y) + c
                vc.check("(c*x - y) + c [%s]" % tag, ev(z) == c * x.val - y.val + c)
                vc.check("-(x + c) * c [%s]" % tag, ev((-(x + c)) * c) == -(x.val + c) * c)
                # a scalar on the LEFT of a composite operand (numpy scalars try their own arithmetic first: the operand
                # must make them defer to the reflected operators, i.e. the result is an observable with the contract's value)
                for form, node, want in (("c * (x + y)", lambda: c * (x + y), lambda: c * (x.val + y.val)),
                                         ("c + (x - y)", lambda: c + (x - y), lambda: c + (x.val - y.val)),
                                         ("c - (2 * x)", lambda: c - (2 * x), lambda: c - 2 * x.val),
                                         ("c * (-x)", lambda: c * (-x), lambda: c * (-x.val)),
                                         ("c * (x * 3)", lambda: c * (x * 3), lambda: c * (x.val * 3))):
                    try:
                        r = node()
                        isobs = hasattr(r, "apply") and not isinstance(r, np.ndarray)
                        vc.check("%s is an observable [%s]" % (form, tag), isobs)
                        if isobs:
                            vc.check("%s evaluates to the arithmetic on its parts [%s]" % (form, tag), ev(r) == want())
                    except Exception as e:      # building a linear combination must not raise
                        vc.check("%s can be built [%s]" % (form, tag), False, repr(e)[:120])
        vc.explore(run, "operators")
    else:
        def run():
            x, y = Leaf(vc.fresh_real("x"), "x"), Leaf(vc.fresh_real("y"), "y")
            for tag, mk in (("x * y", lambda: x * y), ("Prod(obs,obs)", lambda: SBProd(x, y)), ("Prod(num,num)", lambda: SBProd(2, 3.0))):
                try:
                    mk()
                    vc.check("non-linear combination rejected when built: " + tag, False)
                except ValueError:
                    vc.check("non-linear combination rejected when built: " + tag, True)
            for tag, bad in (("str", "a"), ("None", None), ("list", [1.0]), ("complex", 1j), ("dict", {}),
                             ("numeric-looking str", "2"), ("numeric-looking bytes", b"3"), ("str 1e1", "1e1")):
                for form, mk in (("x + bad", lambda: x + bad), ("bad + x", lambda: SBSum(bad, x)), ("x * bad", lambda: x * bad), ("bad * x", lambda: SBProd(bad, x))):
                    try:
                        mk()
                        vc.check("non-numeric operand rejected with TypeError: %s [%s]" % (form, tag), False)
                    except TypeError:
                        vc.check("non-numeric operand rejected with TypeError: %s [%s]" % (form, tag), True)
        vc.explore(run, "rejections")
    vc.flush()
    ctx.holds("exploration/paths > 0", vc.paths > 0)


def replay(o):
    from drivers import C16 as D
    return D.replay()
