"""Evidence writer: evidence/<id>.json, validated against EVIDENCE.schema.json."""
import json
import os
import re
import subprocess

VERIF = os.path.dirname(os.path.dirname(os.path.abspath(__file__)))

TRUSTED_COMMON = [
    "IEEE-754 float64 arithmetic treated as exact real arithmetic (softplus threshold, clamp, epsilon clamps and overflow are invisible)",
    "assumed contracts (models) of the torch / numpy primitives in qv/symtensor.py and qv/gen.py (conformance-sampled / cross-checked against the real code on sampled inputs, not proved)",
    "front ends N and A: tensor shapes are instantiated per configuration, proofs hold for all values at each enumerated shape / flag combination; only obligations with back end tensor-normal-form(all shapes) or lean4+mathlib hold for every size",
    "the home-made normalisers qv/alg.py and qv/gen.py (every rewrite is a real/complex identity under the recorded side condition); cross-checked by z3 on small obligations and by numeric evaluation against the real code",
    "obligations labelled '(bounded)' (size-fork / loop-contract probes, bounded drivers, conformance samples) are concrete runs at stated sizes: never counted as proof",
    "GPU branches are never executed",
]


def _scan_assumes():
    """Mechanical scan for assume / trusted markers in contracts, lemmas and engine."""
    hits = []
    for d in ("contracts", "lemmas", "qv"):
        p = os.path.join(VERIF, d)
        if not os.path.isdir(p):
            continue
        for fn in sorted(os.listdir(p)):
            if not fn.endswith(".py"):
                continue
            for i, line in enumerate(open(os.path.join(p, fn), errors="replace"), 1):
                if re.search(r"\bassume\(|\bTRUSTED\b|ASSUMED\.add\(|ctx\.assumed\.add\(", line) and "def " not in line and "re.search" not in line:
                    hits.append("%s/%s:%d" % (d, fn, i))
    return hits


def _line_coverage(main):
    """Per function of the repository entered by this check: executed lines / executable lines (front end N and the
    concretely executed parts; sandbox-recompiled functions of front end A are listed under rewritten_loops instead)."""
    import os
    root = os.path.join(os.environ.get("QUCUMBER_REPO", "/repo"), "qucumber")
    hit = {}
    for r in main:
        for (f, q, ln) in r.get("cov", []):
            hit.setdefault((f, q), set()).add(ln)
    out = {}
    files = {}
    for (f, q) in hit:
        if f not in files:
            try:
                code = compile(open(os.path.join(root, f)).read(), os.path.join(root, f), "exec")
            except (OSError, SyntaxError):
                continue
            table = {}

            def walk(co):
                for c in co.co_consts:
                    if hasattr(c, "co_code"):
                        lines = {l for (_s, _e, l) in c.co_lines() if l is not None and l != c.co_firstlineno}
                        table[c.co_qualname] = lines
                        walk(c)
            walk(code)
            files[f] = table
        lines = files[f].get(q)
        if not lines or q.startswith("<"):
            continue
        miss = sorted(lines - hit[(f, q)])
        out["%s:%s" % (f, q)] = "%d/%d" % (len(lines) - len(miss), len(lines)) + ((" missing lines %s" % miss[:12]) if miss else "")
    return out


def build(prop, tier, seed, L, main, can, obls, viol, und, reported, known_hits, dead, crashes, wall):
    backends = {}
    for o in obls:
        if o["status"] == "discharged":
            backends[o["backend"]] = backends.get(o["backend"], 0) + 1
    functions = sorted({f for r in main for f in r["functions"]})
    stubs = sorted({f for r in main for f in r["stubs"]})
    assumed = sorted({a for r in main for a in r["assumed"]})
    prims = {}
    for r in main:
        for k, v in r["prims"].items():
            prims[k] = prims.get(k, 0) + v
    bounded = [b for r in main for b in r["bounded"]]
    rewritten = sorted({json.dumps(x) for r in main for x in r.get("rewritten", [])})
    samples = []
    seen = set()
    for o in obls:
        key = re.sub(r"\[[^\]]*\]", "", o["short"])
        if key in seen:
            continue
        seen.add(key)
        samples.append({"obligation": o["name"], "status": o["status"], "backend": o["backend"], "configuration": o["cfg"]})
        if len(samples) >= 12:
            break
    ndis = sum(1 for o in obls if o["status"] == "discharged")
    # obligations that match an OPEN entry of known_findings.json are known to fail on this tree (a KNOWN-FINDING line is
    # printed for them): they are listed on their own and are not part of the claim the counts below describe
    kf_group = [o for o in viol if o.get("known_finding")]
    n_known = len(kf_group)
    trusted = list(TRUSTED_COMMON) + list(getattr(L, "TRUSTED", []))
    ev = {
        "property_id": prop,
        "tier": tier,
        "seed": seed,
        "level": getattr(L, "LEVEL", "proof"),
        "wall_s": round(wall, 2),
        "violations": len(reported),
        "assumptions": trusted + assumed,
        "coverage": {
            "obligations": len(obls) - n_known,
            "discharged": ndis,
            "undecided": len(und),
            "violated": len(viol) - n_known,
            "known_finding_obligations": [{"obligation": o["name"], "finding": o["known_finding"]} for o in kf_group],
            "checker_cmd": "./vf check %s --tier %s" % (prop, tier),
            "trusted_base": trusted,
            "back_ends": backends,
            "z3_independent_confirmations": sum(r["z3_confirmed"] for r in main),
            "solver_seconds": round(sum(r["z3s"] for r in main), 3),
            "solver_queries": sum(r["z3q"] for r in main),
            "cpu_seconds_all_configs": round(sum(r["wall"] for r in main), 2),
            "configurations": len(main),
            "functions_under_contract": functions,
            "stubs_applied": stubs,
            "rewritten_loops": [json.loads(x) for x in rewritten],
            "primitive_models_used": prims,
            "proved_for_every_shape": {
                "what": "front end G (qv/gen.py): the real function executed on tensors of symbolic shape; size "
                        "comparisons fork the run; equal tensor-algebra normal forms hold for all sizes and values",
                "cases": sorted({c for r in main for c, _n in r.get("generic_done", [])}),
                "paths": sum(n for r in main for _c, n in r.get("generic_done", [])),
                "outside_the_fragment_(per-shape_proof_only)": sorted({"%s: %s" % (c, w) for r in main for c, w in r.get("generic_skipped", [])}),
                "primitive_models_used": {k: sum(r.get("gprims", {}).get(k, 0) for r in main) for k in sorted({k for r in main for k in r.get("gprims", {})})},
            },
            "line_coverage_of_repository_functions_entered": _line_coverage(main),
            "side_conditions_proved_by_z3": sum(len(r["side"]) for r in main),
            "generic_position_assumptions": sorted({g for r in main for g in r["generic"]})[:20],
            "canaries": {"run": len(can), "refuted": len(can) - len(dead)},
            "assume_scan": _scan_assumes(),
            "bounded": bounded,
            "samples": samples,
            "explanation": getattr(L, "EXPLANATION", ""),
            "known_findings": sorted({kf["id"] for kf, _ in known_hits}),
            "violations_reported": [{"obligation": o["name"], "replay": os.path.relpath(p, VERIF),
                                     "reproduced_on_real_code": bool(o.get("replayed") and o["replayed"].get("reproduced"))}
                                    for o, p, _t in reported],
            "undecided_list": [{"obligation": o["name"], "why": str(o.get("detail"))[:200]} for o in und[:20]],
            "checker_crashes": len(crashes),
        },
    }
    try:
        ev["coverage"]["repo_head"] = subprocess.run(["git", "-C", os.environ.get("QUCUMBER_REPO", "/repo"), "rev-parse", "--short", "HEAD"],
                                                     capture_output=True, text=True).stdout.strip()
    except Exception:
        pass
    return ev


def write(prop, ev):
    edir = os.environ.get("VF_EVIDENCE_DIR") or os.path.join(VERIF, "evidence")     # selftest / mutant runs write elsewhere
    os.makedirs(edir, exist_ok=True)
    path = os.path.join(edir, "%s.json" % prop)
    try:
        import jsonschema
        schema = json.load(open("/root/.vp/EVIDENCE.schema.json"))
        jsonschema.validate(ev, schema)
    except FileNotFoundError:
        pass
    except Exception as e:     # write anyway, but say so
        ev["coverage"]["schema_error"] = str(e)[:300]
    with open(path, "w") as f:
        json.dump(ev, f, indent=1, default=str)
    return path
