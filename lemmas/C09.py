"""C09 — the swap estimator measures the purity of the reduced state (front end N)."""
import itertools

import numpy as np
import torch

from qv import alg, native as N, symtensor as st
from qv.alg import I, ZERO, ONE
from contracts import unitary as U

LEVEL = "proof"
MANIFEST = {
    "engine": "qv-native+qv-gen",
    "category": "proof",
    "technique": "contracts on swap, SWAP.apply and importance_sampling_weight with callees stubbed by opaque specs; purity lemma over symbolic psi / rho; obligations by polynomial normal form and z3",
    "text": "swap is proved to exchange exactly the columns of the region (int / list / array / tensor / empty encodings) on clones, leaving the batch untouched; SWAP.apply is executed with importance_sampling_weight replaced by an opaque weight table and must return Re[w(s'_i,s_i) w(s'_(i-1),s_(i-1))] with the cyclic partner i-1 for batches of 1..4 distinct rows; importance_sampling_weight is numerator/denominator. The lemma sum_{s1,s2} p(s1)p(s2) apply([s1;s2])[0] == tr(rho_A^2) (explicit partial trace) is discharged for arbitrary symbolic pure and Hermitian mixed states and all 2^n regions, plus purity symmetry A <-> complement and the trivial regions for pure states; non-negativity of S2 is certified for every region by the identity (tr rho_A)^2 - tr rho_A^2 == 2 * sum of squared moduli of the 2x2 minors of the (purified) amplitude matrix. Additionally (front end G) SWAP.apply with region {0,2} is executed for all three kinds of state on a batch of symbolic size and chain of symbolic length: every row is paired with its cyclic neighbour in the whole batch and the value is Re of the product of the two importance weights (psi(s')/psi(s), rho(s',s)/p(s)), for every batch size and length >= 3.",
    "note": "S2 >= 0 is certified by the Binet-Cauchy sum-of-squares identity for every enumerated region (pure states n <= 3, mixed states through a rank-2 purification n <= 2); for larger sizes / ranks it rests on tr M^2 <= (tr M)^2 for PSD M (bounded driver); floats as reals; batch sizes 1..4",
}
EXPLANATION = "opaque weight table for the stubbed callee; symbolic complex amplitudes / Hermitian matrix entries for the lemma"
TRUSTED = ["tr M^2 <= (tr M)^2 for positive semidefinite M (only used for S2 >= 0 beyond n = 2)"]


def configs(tier):
    out = [{"part": "swap", "n": 3}, {"part": "swap", "n": 4}]
    nmax = 2 if tier == "quick" else 3
    for n in range(1, nmax + 1):
        for A in itertools.chain.from_iterable(itertools.combinations(range(n), k) for k in range(n + 1)):
            out.append({"part": "apply", "n": n, "A": list(A)})
            for flav in ("pure", "mixed", "purified"):
                if flav != "pure" and n > 2:
                    continue
                out.append({"part": "lemma", "n": n, "A": list(A), "flavour": flav})
    out.append({"part": "weight"})
    out.append({"generic": "every shape"})
    out.append({"lean": "size-generic lemmas"})
    return out


def canaries(tier):
    return [({"part": "apply", "n": 2, "A": [0]}, "spec-partner-is-next"),
            ({"part": "lemma", "n": 2, "A": [1], "flavour": "pure"}, "spec-traces-complement-wrongly")]


def run_config(ctx, cfg):
    if cfg.get("lean"):
        from contracts import leanlink
        return leanlink.run(ctx, "C09")
    if cfg.get("generic"):
        from contracts import gsets
        return gsets.run(ctx, "C09")
    return {"swap": _swap, "apply": _apply, "lemma": _lemma, "weight": _weight}[cfg["part"]](ctx, cfg)


def _swap(ctx, cfg):
    from qucumber.observables.entanglement import swap
    ctx.under_contract("entanglement.swap")
    n = cfg["n"]
    rows = torch.tensor(list(itertools.product((0., 1.), repeat=n)), dtype=torch.double)
    s1, s2 = rows.clone(), torch.flip(rows, [0]).clone()
    regions = []
    # a region is a set of sites: every listing order (and, for n = 4, listings such as [0, 3, 2] whose ends look like a block)
    for A in itertools.chain.from_iterable(itertools.permutations(range(n), k) for k in range(n + 1)):
        A = list(A)
        regions += [("list", A), ("array", np.array(A, dtype=int)), ("tensor", torch.tensor(A, dtype=torch.long))]
        if len(A) == 1:
            regions.append(("int", A[0]))
    for enc, A in regions:
        a, b = s1.clone(), s2.clone()
        ra, rb = swap(a, b, A)
        Al = [A] if isinstance(A, int) else [int(x) for x in (A.tolist() if hasattr(A, "tolist") else A)]
        ok = ra is a and rb is b
        for c in range(n):
            if c in Al:
                ok &= torch.equal(ra[:, c], s2[:, c]) and torch.equal(rb[:, c], s1[:, c])
            else:
                ok &= torch.equal(ra[:, c], s1[:, c]) and torch.equal(rb[:, c], s2[:, c])
        ctx.holds("swap/exchanges-exactly-region-columns[%s A=%s]" % (enc, Al), bool(ok))


def _idx_rows(v):
    return [U.index_of(r) for r in v.reshape(-1, v.shape[-1]).tolist()]


def _apply(ctx, cfg):
    from qucumber.observables import SWAP
    from drivers import common as DC
    canary = getattr(ctx, "canary", None)
    n, A = cfg["n"], cfg["A"]
    D = 2 ** n
    state = DC.make_state("complex", n, 1)
    ctx.under_contract("SWAP.apply", "entanglement.swap", "cplx.elementwise_mult")
    ctx.stub("nn_state.importance_sampling_weight", "nn_state.importance_sampling_numerator", "nn_state.importance_sampling_denominator")
    Nt, Dt = {}, {}

    def Nn(a, b):
        if (a, b) not in Nt:
            Nt[(a, b)] = alg.par("n_re[%d,%d]" % (a, b)) + I * alg.par("n_im[%d,%d]" % (a, b))
        return Nt[(a, b)]

    def Dn(b):
        if b not in Dt:
            Dt[b] = alg.par("d_re[%d]" % b) + I * alg.par("d_im[%d]" % b)
        return Dt[b]

    def W(a, b):
        """importance weight: numerator(s', s) / denominator(s) (contract of importance_sampling_weight, part=weight)"""
        return Nn(a, b) * alg.inv(Dn(b))

    def _mk(f):
        def stub(*vs):
            idx = [_idx_rows(v) for v in vs]
            n_rows = len(idx[0])
            out = np.empty((2, n_rows), dtype=object)
            for r in range(n_rows):
                z = f(*[ix[r] for ix in idx])
                out[0, r], out[1, r] = alg.re(z), alg.im(z)
            return st.SymTensor(out)
        return stub
    w_stub = _mk(W)
    num_stub = _mk(Nn)
    den_stub = _mk(Dn)
    space = state.generate_hilbert_space(n)

    def swapped(x, y):
        """index of x with the bits of region A taken from y"""
        bx = [(x >> (n - 1 - s)) & 1 for s in range(n)]
        by = [(y >> (n - 1 - s)) & 1 for s in range(n)]
        return U.index_of([by[s] if s in A else bx[s] for s in range(n)])
    import random
    rnd = random.Random(3)
    # history: one SWAP object serves states with other numbers of sites before it meets this one
    reused = {}
    others = []
    for m in (n + 1, n + 2) + tuple(m for m in sorted({1, n - 1}) if 1 <= m < n and all(s < m for s in A)):
        so = DC.make_state("positive", m, 1)
        others.append((so, so.generate_hilbert_space(m)[: 3].clone()))
    for B in (1, 2, 3, 4):
        if B > D:
            continue
        rows = rnd.sample(range(D), B)
        batch = space[rows].clone()
        keep = batch.clone()
        encs = [("list", list(A))] + ([("int", A[0])] if len(A) == 1 else []) + [("tensor", torch.tensor(A, dtype=torch.long))]
        for enc, Aenc in encs:
            with N.stubbed(state, "importance_sampling_weight", w_stub), N.stubbed(state, "importance_sampling_numerator", num_stub), \
                    N.stubbed(state, "importance_sampling_denominator", den_stub):
                res = SWAP(Aenc).apply(state, batch)
                if enc not in reused:
                    reused[enc] = [SWAP(Aenc), SWAP(Aenc)]
                    for so, sb in others:                     # first met by a longer / by a shorter state
                        reused[enc][0 if sb.shape[-1] > n else 1].apply(so, sb)
                res_h = reused[enc][0].apply(state, batch)
                res_h2 = reused[enc][1].apply(state, batch)
            ctx.holds("apply/one-real-per-row[B=%d %s]" % (B, enc), tuple(res.shape) == (B,), str(tuple(res.shape)))
            ctx.eq_arrays("history: a SWAP object used on states with other numbers of sites (and on earlier batches) gives the same values[B=%d %s]" % (B, enc),
                          st._obj(res_h), st._obj(res), z3_confirm=False)
            ctx.eq_arrays("history: a SWAP object first used on a state with fewer sites gives the same values[B=%d %s]" % (B, enc),
                          st._obj(res_h2), st._obj(res), z3_confirm=False)
            for i in range(B):
                j = (i + 1) % B if canary == "spec-partner-is-next" else (i - 1) % B
                si, sj = rows[i], rows[j]
                want = alg.re(W(swapped(si, sj), si) * W(swapped(sj, si), sj))
                ctx.eq("apply == Re[w(s'_i,s_i) w(s'_(i-1),s_(i-1))] cyclic partner[B=%d %s row=%d]" % (B, enc, i), res._arr[i], want, z3_confirm=False)
            ctx.holds("apply/batch-not-modified[B=%d %s]" % (B, enc), torch.equal(batch, keep))


def _weight(ctx, cfg):
    from drivers import common as DC
    ctx.under_contract("NeuralStateBase.importance_sampling_weight", "cplx.elementwise_division")
    for kind in ("complex", "mixed"):
        state = DC.make_state(kind, 2, 1, 1)
        B = 3
        num = st.SymTensor(np.array([[alg.par("n_re[%d]" % r) for r in range(B)], [alg.par("n_im[%d]" % r) for r in range(B)]], dtype=object))
        den = st.SymTensor(np.array([[alg.par("d_re[%d]" % r) for r in range(B)], [alg.par("d_im[%d]" % r) for r in range(B)]], dtype=object))
        seen = []
        vp, v = torch.zeros(B, 2, dtype=torch.double), torch.ones(B, 2, dtype=torch.double)
        with N.stubbed(state, "importance_sampling_numerator", lambda a, b: (seen.append(("n", a is vp, b is v)), num)[1]), \
                N.stubbed(state, "importance_sampling_denominator", lambda b: (seen.append(("d", b is v)), den)[1]):
            w = state.importance_sampling_weight(vp, v)
        ctx.holds("importance_sampling_weight/%s/arguments" % kind, sorted(seen) == [("d", True), ("n", True, True)], str(seen))
        for r in range(B):
            wz = w._arr[0, r] + I * w._arr[1, r]
            ctx.eq("importance_sampling_weight/%s == numerator/denominator[row=%d]" % (kind, r),
                   wz * (den._arr[0, r] + I * den._arr[1, r]), num._arr[0, r] + I * num._arr[1, r], z3_confirm=False)


def _lemma(ctx, cfg):
    canary = getattr(ctx, "canary", None)
    n, A, flav = cfg["n"], cfg["A"], cfg["flavour"]
    D = 2 ** n
    Bc = [s for s in range(n) if s not in A]
    if flav == "pure":
        psi = [alg.par("psi_re[%d]" % k) + I * alg.par("psi_im[%d]" % k) for k in range(D)]
        rho = [[psi[a] * alg.conj(psi[b]) for b in range(D)] for a in range(D)]
    elif flav == "purified":
        PsiK = [[alg.par("P%d_re[%d]" % (k, s_)) + I * alg.par("P%d_im[%d]" % (k, s_)) for s_ in range(D)] for k in range(2)]
        rho = [[sum((PsiK[k][a] * alg.conj(PsiK[k][b]) for k in range(2)), ZERO) for b in range(D)] for a in range(D)]
    else:
        rho = [[None] * D for _ in range(D)]
        for a in range(D):
            for b in range(a, D):
                if a == b:
                    rho[a][a] = alg.uf("p[%d]" % a, "pos")
                else:
                    rho[a][b] = alg.par("rho_re[%d,%d]" % (a, b)) + I * alg.par("rho_im[%d,%d]" % (a, b))
                    rho[b][a] = alg.conj(rho[a][b])

    def bits(k):
        return [(k >> (n - 1 - s)) & 1 for s in range(n)]

    def compose(xa, xb, region, rest):
        """index whose bits on `region` come from index xa and on `rest` from xb"""
        ba, bb = bits(xa), bits(xb)
        return U.index_of([ba[s] if s in region else bb[s] for s in range(n)])

    def purity(region):
        """tr(rho_R^2), rho_R = partial trace over the complement of R, from the definition."""
        rest = [s for s in range(n) if s not in region]
        # enumerate reduced indices through representatives: fix rest-bits to vary
        reps_R = sorted({compose(k, 0, region, rest) for k in range(D)})
        reps_C = sorted({compose(0, k, region, rest) for k in range(D)})
        red = {}
        for a in reps_R:
            for a2 in reps_R:
                s = ZERO
                for b in reps_C:
                    s = s + rho[compose(a, b, region, rest)][compose(a2, b, region, rest)]
                red[(a, a2)] = s
        tot = ZERO
        for a in reps_R:
            for a2 in reps_R:
                tot = tot + red[(a, a2)] * red[(a2, a)]
        tr = ZERO
        for a in reps_R:
            tr = tr + red[(a, a)]
        return tot, tr, red, reps_R
    pA, trA, redA, repsA = purity(Bc if canary == "spec-traces-complement-wrongly" and flav == "mixed" else A)
    if canary == "spec-traces-complement-wrongly" and flav == "pure":
        pA = pA + rho[0][0] * rho[D - 1][D - 1]
    # estimator averaged over independent pairs: apply([s1;s2])[0] = Re[w(s1',s1) w(s2',s2)],
    # w(a,b) = rho(a,b)/rho(b,b) (pure: psi(a)/psi(b)), p(s) = rho(s,s)
    tot = ZERO
    done = set()
    for s1 in range(D):
        for s2 in range(D):
            s1p = compose(s2, s1, A, Bc)
            s2p = compose(s1, s2, A, Bc)
            for (a_, b_) in ((s1p, s1), (s2p, s2)):
                if (a_, b_) not in done:
                    done.add((a_, b_))
                    # p(s) w(s',s) == rho(s',s): the importance weight times the sampling probability
                    ctx.eq("lemma/p(s) * w(s',s) == rho(s',s)[%d,%d]" % (a_, b_), rho[b_][b_] * (rho[a_][b_] * alg.inv(rho[b_][b_])), rho[a_][b_], z3_confirm=False)
            tot = tot + alg.re(rho[s1p][s1] * rho[s2p][s2])
    ctx.eq("lemma/swap average == tr(rho_A^2)", tot, pA, z3_confirm=False)
    if flav == "pure":
        pC, _trC, _r, _q = purity(Bc)
        ctx.eq("lemma/pure: purity(A) == purity(complement)", pA, pC, z3_confirm=False)
        trfull = sum((rho[k][k] for k in range(D)), ZERO)
        if len(A) in (0, n):
            ctx.eq("lemma/pure: trivial region gives (tr rho)^2 (entropy zero)", pA, trfull * trfull, z3_confirm=False)
        # S2 >= 0: Binet-Cauchy / Lagrange identity, a sum-of-squares certificate for every region:
        # (tr rho_A)^2 - tr rho_A^2 == 2 * sum_{a<a'} sum_{b<b'} |psi(a,b) psi(a',b') - psi(a,b') psi(a',b)|^2
        rest = Bc
        repsC = sorted({compose(0, k, A, rest) for k in range(D)})
        sos = ZERO
        for ia, a0 in enumerate(repsA):
            for a1 in repsA[ia + 1:]:
                for ib, b in enumerate(repsC):
                    for b2 in repsC[ib + 1:]:
                        m = psi[compose(a0, b, A, rest)] * psi[compose(a1, b2, A, rest)] - psi[compose(a0, b2, A, rest)] * psi[compose(a1, b, A, rest)]
                        sos = sos + m * alg.conj(m)
        ctx.eq("lemma/pure: (tr rho_A)^2 - tr rho_A^2 == 2 * sum of squared moduli of 2x2 minors (hence S2 >= 0)", trA * trA - pA, 2 * sos, z3_confirm=False)
    if flav == "purified":
        # mixed state given by a purification Psi(sigma, k), k = 0,1: rho = sum_k Psi_k Psi_k^dagger (every PSD rho of
        # rank <= 2); the same certificate with the purifying index counted to the traced-out part
        K = 2
        repsC = sorted({compose(0, k, A, Bc) for k in range(D)})
        sos = ZERO
        for ia, a0 in enumerate(repsA):
            for a1 in repsA[ia + 1:]:
                cols = [(b, k) for b in repsC for k in range(K)]
                for ic, (b, k) in enumerate(cols):
                    for (b2, k2) in cols[ic + 1:]:
                        m = PsiK[k][compose(a0, b, A, Bc)] * PsiK[k2][compose(a1, b2, A, Bc)] - PsiK[k2][compose(a0, b2, A, Bc)] * PsiK[k][compose(a1, b, A, Bc)]
                        sos = sos + m * alg.conj(m)
        ctx.eq("lemma/purified mixed state: (tr rho_A)^2 - tr rho_A^2 == 2 * sum of squared moduli of minors (hence S2 >= 0)", trA * trA - pA, 2 * sos, z3_confirm=False)


def replay(o):
    if o["cfg"].get("generic"):
        from contracts import gsets
        return gsets.replay("C09", o)
    from drivers import C09 as D
    return D.replay(o["cfg"], (o.get("witness") or {}).get("env") or {})
