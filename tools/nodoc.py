import ast,sys
def strip(path):
    src=open(path).read()
    tree=ast.parse(src)
    for node in ast.walk(tree):
        if isinstance(node,(ast.FunctionDef,ast.ClassDef,ast.Module)):
            if node.body and isinstance(node.body[0],ast.Expr) and isinstance(getattr(node.body[0],'value',None),ast.Constant) and isinstance(node.body[0].value.value,str):
                node.body=node.body[1:] or [ast.Pass()]
    print("#"*10,path); print(ast.unparse(tree))
for p in sys.argv[1:]: strip(p)
