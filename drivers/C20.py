"""C20 concrete driver: construct / train / reinitialise sequences on the real code."""
import numpy as np
import torch

from . import common as C


def native_check(seed=0):
    from qucumber.rbm import BinaryRBM, PurificationRBM
    from qucumber.nn_states import PositiveWaveFunction, ComplexWaveFunction, DensityMatrix
    rng = np.random.default_rng(seed)
    torch.manual_seed(seed)
    fails = []
    for kind, cls in (("positive", PositiveWaveFunction), ("complex", ComplexWaveFunction), ("mixed", DensityMatrix)):
        mod = PurificationRBM(2, 3, 2, gpu=False) if kind == "mixed" else BinaryRBM(2, 3, gpu=False)
        try:
            s = cls(2, module=mod, gpu=False)
        except Exception as e:
            fails.append("%s(num_visible, module=...) raised %r" % (cls.__name__, e))
            continue
        if s.rbm_am is not mod:
            fails.append("%s: amplitude network is not the supplied module" % kind)
        if kind != "positive":
            a = {n: p.detach().clone() for n, p in s.rbm_am.named_parameters()}
            with torch.no_grad():
                for p in s.rbm_ph.parameters():
                    p.add_(1.0)
            if any(not torch.equal(p.detach(), a[n]) for n, p in s.rbm_am.named_parameters()):
                fails.append("%s: phase network shares parameters with the supplied module" % kind)
    # gpu=True without a GPU is legal (a warning): the construction is the CPU one
    import warnings
    for kind, cls, args in (("positive", PositiveWaveFunction, (2, 3)), ("complex", ComplexWaveFunction, (2, 3)), ("mixed", DensityMatrix, (2, 3, 2))):
        with warnings.catch_warnings():
            warnings.simplefilter("ignore")
            s = cls(*args, gpu=True)
        for net in s.networks:
            for n, p in getattr(s, net).named_parameters():
                if n.startswith("weights") and not bool((p != 0).any()):
                    fails.append("%s(..., gpu=True) on a CPU-only machine: %s.%s is all zero instead of a random draw" % (cls.__name__, net, n))
    # phase auxiliary bias stays zero through training with several optimizers
    for opt, oargs in ((torch.optim.SGD, {}), (torch.optim.SGD, {"momentum": 0.9}), (torch.optim.Adam, {}), (torch.optim.Adadelta, {})):
        s = DensityMatrix(2, 2, 2, gpu=False)
        data = torch.tensor(rng.integers(0, 2, size=(6, 2)), dtype=torch.double)
        bases = np.array([list("ZZ"), list("XZ"), list("ZY"), list("ZZ"), list("YX"), list("XX")])
        s.fit(data, epochs=3, pos_batch_size=2, lr=0.1, input_bases=bases, optimizer=opt, optimizer_args=oargs)
        if bool((s.rbm_ph.aux_bias != 0).any()):
            fails.append("phase auxiliary bias moved away from zero under %s %s" % (opt.__name__, oargs))
        shapes = {(net, n): tuple(p.shape) for net in s.networks for n, p in getattr(s, net).named_parameters()}
        s.reinitialize_parameters()
        if {(net, n): tuple(p.shape) for net in s.networks for n, p in getattr(s, net).named_parameters()} != shapes:
            fails.append("reinitialize changed shapes")
    return fails


def replay(cfg):
    f = native_check(0)
    return {"reproduced": bool(f), "failed_clauses": f[:3]}


def bounded(tier, seed):
    f = native_check(seed)
    return {"driver": "drivers/C20.native_check", "label": "bounded", "evaluations": 7, "failures": len(f),
            "bound": "module-branch construction for three state types; three epochs of real training of a mixed state with SGD, SGD+momentum, Adam, Adadelta followed by reinitialisation",
            "first_failures": f[:3]}
