"""C01 — Born rule for wavefunction states (front end N).

Contracts are discharged function by function: each caller is executed with its
callees replaced by contract stubs (opaque results), the callees' own contracts
are discharged on their bodies, and the property is a lemma over the specs.
"""
import numpy as np
import torch

from qv import alg, native as N, symtensor as st
from qv.alg import ZERO, ONE
from contracts import rbm as R

LEVEL = "proof"
MANIFEST = {
    "engine": "qv-native+qv-gen",
    "category": "proof",
    "technique": "contracts on the real functions, executed on symbolic real parameters; obligations discharged by exp-polynomial normal form and z3",
    "text": "Every function between the property and the code (effective_energy, partition, probability, normalization, amplitude, phase, psi, importance-sampling accessors) has a contract against a spec built from the joint Boltzmann energy; each body is run symbolically with all weights and biases as free reals, callees stubbed by opaque spec values, and the Born-rule lemma is discharged over the specs. Holds for all parameter values at each enumerated architecture. Additionally (front end G) effective_energy, partition, amplitude, phase, psi, probability and normalization are executed on tensors of symbolic shape and equal the unit-by-unit closed form for every number of visible / hidden units and every batch size; that this closed form is the marginal over all hidden configurations for every size is lean/Marginals.lean (Lean 4 + Mathlib), whose statement is printed from the contract at check time.",
    "note": "floats treated as reals; torch primitive models assumed (conformance-sampled); shapes enumerated (quick: 4 architectures, thorough: nv 1..5 x nh 1..6), values unbounded; the shape-generic part (front end G) holds for all sizes and values, equalities decided by tensor-algebra normal form (sound, incomplete: a miss is undecided, never a violation without a replayed witness)",
}
EXPLANATION = ("Real function objects of qucumber executed on symbolic real parameters (all weights and all biases "
               "free reals); every entry of every result compared with the spec built from the joint Boltzmann energy "
               "(all 2^nh hidden configurations expanded).")
TRUSTED = []


def configs(tier):
    if tier == "quick":
        archs = [(1, 1), (2, 3), (3, 2), (2, 1)]
    else:
        archs = [(nv, nh) for nv in range(1, 6) for nh in range(1, 7)]
    hist = [{"kind": "complex", "nv": 2, "nh": 1, "grad": "off"}, {"kind": "positive", "nv": 2, "nh": 3, "via": "deepcopy"}, {"kind": "complex", "nv": 2, "nh": 1, "via": "deepcopy"}, {"kind": "complex", "nv": 1, "nh": 1, "via": "pickle"},
            {"kind": "positive", "nv": 2, "nh": 2, "params": "require grad"}, {"kind": "complex", "nv": 2, "nh": 1, "params": "require grad"}]
    return [{"kind": k, "nv": nv, "nh": nh} for k in ("positive", "complex") for (nv, nh) in archs] + hist + [{"generic": "every shape"}, {"lean": "size-generic lemmas"}, {"independence": "complex"}] + \
        [{"callee": "indexing", "size": s} for s in (1, 2, 3, 4)]


def canaries(tier):
    return [({"kind": "complex", "nv": 2, "nh": 2}, "spec-drops-hidden-bias"),
            ({"kind": "positive", "nv": 2, "nh": 2}, "spec-sign-of-weight"),
            ({"generic": "every shape"}, "generic-wrong-contract")]


def _opaque(prefix, n, sign="real"):
    arr = np.empty((n,), dtype=object)
    for r in range(n):
        arr[r] = alg.uf("%s[%d]" % (prefix, r), sign)
    return arr


def _mk_stub_energy(arr, log, nv):
    """Contract stub of BinaryRBM.effective_energy: checks `requires` (0/1 rows of the
    right width, given in basis order) and returns the opaque spec value."""
    def stub(v):
        vv = v if isinstance(v, torch.Tensor) and not isinstance(v, st.SymTensor) else None
        if vv is None:
            raise alg.Unmodelled("effective_energy stub called with a symbolic state")
        if vv.dim() == 1:
            idx = int(sum(int(x) << (nv - 1 - i) for i, x in enumerate(vv.tolist())))
            log.append(("vec", idx))
            return st.SymTensor(np.array(arr[idx], dtype=object).reshape(()))
        rows = [int(sum(int(x) << (nv - 1 - i) for i, x in enumerate(row))) for row in vv.tolist()]
        log.append(("batch", tuple(rows)))
        return st.SymTensor(np.array([arr[i] for i in rows], dtype=object))
    return stub


def run_config(ctx, cfg):
    if cfg.get("callee"):
        # the basis over which the statements of this property are summed is generate_hilbert_space's result: its
        # contract (C19: row k is the expansion of k, also after a caller modified an earlier result) is shared here
        from lemmas import C19
        return C19._indexing(ctx, {"part": "indexing", "size": cfg["size"]})
    if cfg.get("independence"):
        # the amplitude and the phase network are independent objects on every construction route (also module=): what one
        # network holds never follows the other
        from lemmas import C20
        return C20._module(ctx, {"kind": cfg["independence"]})
    if cfg.get("lean"):
        from contracts import leanlink
        return leanlink.run(ctx, "C01")
    if cfg.get("generic"):
        from contracts import gsets
        return gsets.run(ctx, "C01")
    from drivers import common as _DC
    _DC.VIA[0] = cfg.get("via")        # the object under contract is reached as a copy of another one (drivers/common.copied)
    _DC.SYM_ORIG[0] = True
    st.REQUIRES_GRAD[0] = cfg.get("params") == "require grad"      # parameters as `nn.Parameter(W)` installs them
    from drivers import common as DC
    kind, nv, nh = cfg["kind"], cfg["nv"], cfg["nh"]
    canary = getattr(ctx, "canary", None)
    state = DC.make_state(kind, nv, nh)
    N.symbolize(state.rbm_am, "am")
    if kind == "complex":
        N.symbolize(state.rbm_ph, "ph")
    am = R.params_of(state.rbm_am)
    if canary == "spec-drops-hidden-bias":
        am = dict(am)
        hb = am["hidden_bias"].copy()
        hb[0] = ZERO
        am["hidden_bias"] = hb
    if canary == "spec-sign-of-weight":
        am = dict(am)
        w = am["weights"].copy()
        w[0, 0] = -w[0, 0]
        am["weights"] = w
    space = state.generate_hilbert_space(nv)           # concrete; its own contract is C19
    D = 2 ** nv
    states = R.bits(nv)
    marg = [R.marginal(am, v) for v in states]          # spec: sum_h exp(-E(v,h))
    st.reset_logs()

    # ---- contract: BinaryRBM.effective_energy (body), both networks, both call forms
    nets = [("am", state.rbm_am, am, marg)]
    if kind == "complex":
        ph = R.params_of(state.rbm_ph)
        margp = [R.marginal(ph, v) for v in states]
        nets.append(("ph", state.rbm_ph, ph, margp))
    ctx.under_contract("BinaryRBM.effective_energy", "auto_unsqueeze_args")
    for tag, rbm, par, mg in nets:
        E = rbm.effective_energy(space)
        ctx.holds("effective_energy/%s/shape" % tag, tuple(E.shape) == (D,), "shape %s" % (tuple(E.shape),))
        for r in range(D):
            ctx.eq("effective_energy/%s/marginal[row=%d]" % (tag, r), alg.exp(-E._arr[r]), mg[r])
        for r in sorted({0, D - 1, D // 2}):
            e1 = rbm.effective_energy(space[r])
            ctx.holds("effective_energy/%s/vector-form-shape[row=%d]" % (tag, r), tuple(e1.shape) == ())
            ctx.eq("effective_energy/%s/vector-form[row=%d]" % (tag, r), e1._arr[()], E._arr[r])
    ctx.frame("effective_energy/frame")
    Espec = {"am": state.rbm_am.effective_energy(space)._arr.copy()}
    if kind == "complex":
        Espec["ph"] = state.rbm_ph.effective_energy(space)._arr.copy()

    # ---- contract: partition (caller of effective_energy; callee stubbed opaque)
    ctx.under_contract("BinaryRBM.partition")
    Eo = _opaque("Eam", D)
    log = []
    with N.stubbed(state.rbm_am, "effective_energy", _mk_stub_energy(Eo, log, nv)):
        ctx.stub("BinaryRBM.effective_energy")
        Zs = state.rbm_am.partition(space)
        ctx.holds("partition/shape", tuple(Zs.shape) == ())
        ctx.eq("partition/sum-of-weights", Zs._arr[()], sum((alg.exp(-e) for e in Eo), ZERO))
        ctx.holds("partition/calls-energy-on-space", log == [("batch", tuple(range(D)))], str(log))

        # ---- contract: NeuralStateBase.probability / normalization
        ctx.under_contract("NeuralStateBase.probability", "NeuralStateBase.normalization")
        Zp = alg.uf("Zpos", "pos")
        Zt = st.SymTensor(np.array(Zp, dtype=object).reshape(()))
        p = state.probability(space, Zt)
        ctx.holds("probability/shape", tuple(p.shape) == (D,))
        for r in range(D):
            ctx.eq("probability/exp(-E)/Z[row=%d]" % r, p._arr[r] * Zp, alg.exp(-Eo[r]))
        p1 = state.probability(space)                                  # default Z = 1.0
        for r in range(D):
            ctx.eq("probability/default-Z[row=%d]" % r, p1._arr[r], alg.exp(-Eo[r]))
        # Z given as a Python number (what `normalization(space).item()` hands out), at full double precision; each form
        # on its own, so that one form leaving the modelled fragment does not hide a refutation of another
        for zc in (0.1, 7, 3.0e39, "symbolic"):
            zval, zP = (st.SymFloat(Zp), Zp) if zc == "symbolic" else (zc, alg.to_P(zc))
            try:
                pc = state.probability(space, zval)
            except (alg.Unmodelled, alg.ValueDependent) as e:
                ctx.undecided("probability/Z = %r (Python number)" % (zc,), str(e)[:200])
                continue
            for r in range(D):
                ctx.eq("probability/Z = %r (Python number): exp(-E)/Z[row=%d]" % (zc, r), pc._arr[r] * zP, alg.exp(-Eo[r]))
        pv = state.probability(space[D - 1])
        ctx.holds("probability/vector-form-shape", tuple(pv.shape) == ())
        ctx.eq("probability/vector-form", pv._arr[()], alg.exp(-Eo[D - 1]))

        # ---- contract: amplitude
        ctx.under_contract("WaveFunctionBase.amplitude", "%s.amplitude" % type(state).__name__)
        a = state.amplitude(space)
        ctx.holds("amplitude/shape", tuple(a.shape) == (D,))
        for r in range(D):
            ctx.eq("amplitude/square[row=%d]" % r, a._arr[r] * a._arr[r], alg.exp(-Eo[r]))
            ctx.nonneg("amplitude/nonneg[row=%d]" % r, a._arr[r])

    with N.stubbed(state.rbm_am, "partition", lambda sp: st.SymTensor(np.array(alg.uf("Zpart", "pos"), dtype=object).reshape(()))):
        ctx.stub("BinaryRBM.partition")
        Zn = state.normalization(space)
        ctx.eq("normalization/is-partition", Zn._arr[()], alg.uf("Zpart", "pos"))
        Zc = state.compute_normalization(space)
        ctx.eq("compute_normalization/is-partition", Zc._arr[()], alg.uf("Zpart", "pos"))

    # ---- contract: phase
    ctx.under_contract("%s.phase" % type(state).__name__)
    if kind == "complex":
        Ep = _opaque("Eph", D)
        plog = []
        with N.stubbed(state.rbm_ph, "effective_energy", _mk_stub_energy(Ep, plog, nv)):
            phs = state.phase(space)
            ctx.holds("phase/shape", tuple(phs.shape) == (D,))
            for r in range(D):
                ctx.eq("phase/half-negated-energy[row=%d]" % r, phs._arr[r], -Ep[r] / 2)
            pv = state.phase(space[1 % D])
            ctx.eq("phase/vector-form", pv._arr[()], -Ep[1 % D] / 2)
    else:
        phs = state.phase(space)
        ctx.holds("phase/zeros", isinstance(phs, torch.Tensor) and tuple(phs.shape) == (D,) and
                  not isinstance(phs, st.SymTensor) and bool((phs == 0).all()), "phase not identically 0")
        pv = state.phase(space[0])
        ctx.holds("phase/vector-form", tuple(pv.shape) == () and float(pv) == 0.0)

    # ---- contract: psi (callees amplitude / phase stubbed opaque)
    ctx.under_contract("WaveFunctionBase.psi", "%s.psi" % type(state).__name__, "cplx.make_complex")
    Ao = _opaque("Amp", D, "pos")
    Fo = _opaque("Phi", D)

    def amp_stub(v):
        if v.dim() == 1:
            idx = int(sum(int(x) << (nv - 1 - i) for i, x in enumerate(v.tolist())))
            return st.SymTensor(np.array(Ao[idx], dtype=object).reshape(()))
        rows = [int(sum(int(x) << (nv - 1 - i) for i, x in enumerate(row))) for row in v.tolist()]
        return st.SymTensor(np.array([Ao[i] for i in rows], dtype=object))

    def ph_stub(v):
        if v.dim() == 1:
            idx = int(sum(int(x) << (nv - 1 - i) for i, x in enumerate(v.tolist())))
            return st.SymTensor(np.array(Fo[idx], dtype=object).reshape(()))
        rows = [int(sum(int(x) << (nv - 1 - i) for i, x in enumerate(row))) for row in v.tolist()]
        return st.SymTensor(np.array([Fo[i] for i in rows], dtype=object))

    import contextlib
    with N.stubbed(state, "amplitude", amp_stub), \
            (N.stubbed(state, "phase", ph_stub) if kind == "complex" else contextlib.nullcontext()):
        ctx.stub("amplitude")
        if kind == "complex":
            ctx.stub("phase")
            want0 = [Ao[r] * alg.cos(Fo[r]) for r in range(D)]
            want1 = [Ao[r] * alg.sin(Fo[r]) for r in range(D)]
        else:
            want0 = [Ao[r] for r in range(D)]
            want1 = [ZERO for r in range(D)]
        psi = state.psi(space)
        psiv = state.psi(space[D - 1])
        ctx.holds("psi/shape", tuple(psi.shape) == (2, D), str(tuple(psi.shape)))
        ctx.holds("psi/vector-form-shape", tuple(psiv.shape) == (2,), str(tuple(psiv.shape)))
        for r in range(D):
            ctx.eq("psi/real[row=%d]" % r, psi._arr[0, r], want0[r])
            ctx.eq("psi/imag[row=%d]" % r, psi._arr[1, r], want1[r])
        ctx.eq("psi/vector-form-real", psiv._arr[0], want0[D - 1])
        ctx.eq("psi/vector-form-imag", psiv._arr[1], want1[D - 1])
        # the basis states may be handed over in any tensor type that holds 0 / 1 (integer, bool, single precision, a
        # numpy-backed tensor): the values are those of the double-precision call
        for tname, conv in (("int64", lambda t: t.long()), ("int32", lambda t: t.int()), ("uint8", lambda t: t.to(torch.uint8)), ("bool", lambda t: t.bool()),
                            ("float32", lambda t: t.float()), ("non-contiguous double", lambda t: t.t().contiguous().t())):
            for form, vv in (("batch", conv(space)), ("vector", conv(space[D - 1]))):
                try:
                    pt = state.psi(vv)
                except alg.Unmodelled as e:
                    ctx.undecided("psi/basis states given as %s (%s)" % (tname, form), str(e)[:160])
                    continue
                if form == "batch":
                    ctx.eq_arrays("psi/basis states given as %s == the double-precision call" % tname, st._obj(pt), psi._arr)
                else:
                    ctx.eq_arrays("psi/one basis state given as %s == the double-precision call" % tname, st._obj(pt), psiv._arr)
        rev = torch.flip(space, [0])
        isn = state.importance_sampling_numerator(rev, space)
        isd = state.importance_sampling_denominator(space)
        ctx.under_contract("WaveFunctionBase.importance_sampling_numerator", "WaveFunctionBase.importance_sampling_denominator")
        ctx.eq_arrays("importance_sampling_numerator/is-psi(vp)", isn, psi._arr[:, ::-1])
        ctx.eq_arrays("importance_sampling_denominator/is-psi(v)", isd, psi)
    ctx.frame("evaluation/frame")

    # ---- lemma C01 over the specs (reveal): compose the contracts
    # amplitude^2 = exp(-E_am) = marginal; phase = -E_ph/2; psi = [A cos phi, A sin phi]
    Eam = Espec["am"]
    tot = ZERO
    for r in range(D):
        A = alg.sqrt(alg.exp(-Eam[r]))
        if kind == "complex":
            phi = -Espec["ph"][r] / 2
            p0, p1 = A * alg.cos(phi), A * alg.sin(phi)
        else:
            phi = ZERO
            p0, p1 = A, ZERO
        mod2 = p0 * p0 + p1 * p1
        ctx.eq("lemma/born: |psi|^2 == probability == hidden marginal[row=%d]" % r, mod2, marg[r])
        names = alg.free_names(mod2)
        ctx.holds("lemma/modulus-depends-only-on-amplitude-network[row=%d]" % r,
                  all(n.startswith("am.") for n in names), str(sorted(names))[:200])
        if kind == "complex":
            # phase is exactly half the negated effective energy of the phase network: exp(2*phase) == P_mu
            ctx.eq("lemma/phase: exp(2*phase) == phase-network marginal[row=%d]" % r, alg.exp(2 * phi), margp[r])
        else:
            ctx.eq("lemma/positive-imag-zero[row=%d]" % r, p1, ZERO)
            ctx.nonneg("lemma/positive-real-nonneg[row=%d]" % r, p0)
        tot = tot + marg[r]
    Zfull = state.normalization(space)
    ctx.eq("lemma/normalization == sum of probabilities", Zfull._arr[()], tot)
    # order of calls: what probability / psi return with their arguments left at the defaults does not depend on whether
    # the normalisation has been computed on this object before
    state.compute_normalization(space)
    p_after = state.probability(space)
    psi_after = state.psi(space)
    for r in range(D):
        ctx.eq("history/probability(v) with the default Z after normalization() was called == hidden marginal[row=%d]" % r, p_after._arr[r], marg[r])
        ctx.eq("history/psi(v) after normalization() was called: |psi|^2 == hidden marginal[row=%d]" % r,
               psi_after._arr[0, r] * psi_after._arr[0, r] + psi_after._arr[1, r] * psi_after._arr[1, r], marg[r])
    ctx.frame("lemma/frame")


def replay(o):
    if o["cfg"].get("callee"):
        from drivers import C19 as D19
        return D19.replay({"part": "indexing", "size": o["cfg"]["size"]})
    if o["cfg"].get("independence"):
        from drivers import C20 as D20
        return D20.replay({"part": "module", "kind": o["cfg"]["independence"]})
    if o["cfg"].get("generic"):
        from contracts import gsets
        return gsets.replay("C01", o)
    from drivers import C01 as D
    env = (o.get("witness") or {}).get("env")
    cfg = o["cfg"]
    fails = D.native_check(cfg, env, seed=1)
    if not fails:
        for s in range(2, 8):
            fails = D.native_check(cfg, None, seed=s, scale=1.0 + s)
            if fails:
                break
    return {"reproduced": bool(fails), "failed_clauses": [(c, str(d)[:300]) for c, d in fails[:4]], "env": env, "cfg": cfg}
