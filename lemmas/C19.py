"""C19 — basis-state indexing and data loading are mutually consistent.

The indexing domain is finite (sizes 1..max_size = 20 is enforced by the code), so
the decision is complete without abstraction: the real functions are compared
with the big-endian expansion on every row (quick: every row up to 2^12 and seeded
rows above; thorough: all 2^21 - 2 rows), and the bit-order statement itself is
discharged per size as a z3 bit-vector lemma for a symbolic index.
"""
import io
from unittest import mock

import numpy as np
import torch
import z3

from qv import solve

LEVEL = "proof"
MANIFEST = {
    "engine": "qv-native",
    "category": "proof",
    "technique": "finite-domain decision of generate_hilbert_space / subspace_vector / _convert_basis_element_to_index against the big-endian expansion (exhaustive in the thorough tier), z3 bit-vector lemmas for a symbolic index per size, contracts on load_data / load_data_DM with np.loadtxt stubbed, exhaustive small-scope decision of extract_refbasis_samples",
    "text": "For every size 1..20 row k of the generated Hilbert space, subspace_vector(k) and the index recomputed by _convert_basis_element_to_index denote the n-bit big-endian expansion of k (site 0 = most significant bit); sizes above max_size are refused. Per size the statements 'column c of row k is bit size-1-c of k' and 'sum_c bit * 2^(size-1-c) == k' are z3 bit-vector lemmas over a symbolic k. 'Site 0 is the leftmost tensor factor' and 'position k of every psi / rho array' are obligations of C04 / C01 / C02, stated against the same index function. The loaders are executed with np.loadtxt replaced by a stub: list order and presence pattern, samples == double(float32(file)), target columns 0/1 as real/imaginary parts, real and imaginary matrices stacked, ValueError iff exactly one matrix path, bases passed through as strings. extract_refbasis_samples returns exactly the rows whose basis row is all 'Z', in order (all patterns for N <= 4 rows x n <= 3 sites over {X,Y,Z} and three alphabets with labels that sort before and after 'Z', plus seeded larger cases).",
    "note": "np.loadtxt's parsing is a library contract (the bounded driver writes random files and compares); quick tier samples rows above 2^12 for sizes > 12",
}
EXPLANATION = "finite domain: sizes 1..20; all rows (thorough) / all rows up to 2^12 plus 4096 seeded rows per larger size (quick)"
TRUSTED = ["numpy.loadtxt parses whitespace-separated numeric / string tables as documented"]


def configs(tier):
    out = [{"part": "indexing", "size": s} for s in range(1, 21)]
    out += [{"part": "oversize"}, {"part": "loaders"}, {"part": "refbasis"}]
    # site 0 is the leftmost factor of every tensor product: the C04 contracts of _kron_mult / rotate_* on
    # non-palindromic basis strings, stated against the same big-endian index function
    out += [{"part": "tensor-order", "basis": b} for b in (["XZ", "ZY"] if tier == "quick" else ["XZ", "ZY", "XYZ", "ZZX", "YZ", "XZZY"])]
    # the same with the library's own X, Y, Z matrices (code that looks at the entries of a unitary is decidable there)
    out += [{"part": "tensor-order", "basis": b, "mode": "default-dict"} for b in (["XZ", "ZY", "ZXZ"] if tier == "quick" else ["XZ", "ZY", "ZXZ", "XZZY", "YZX"])]
    return out


def canaries(tier):
    return [({"part": "indexing", "size": 5}, "spec-little-endian")]


def run_config(ctx, cfg):
    if cfg["part"] == "tensor-order":
        from lemmas import C04
        return C04._rotations(ctx, {"mode": cfg.get("mode", "symbolic"), "basis": cfg["basis"]})
    return {"indexing": _indexing, "oversize": _oversize, "loaders": _loaders, "refbasis": _refbasis}[cfg["part"]](ctx, cfg)


def _state(n=2):
    from qucumber.nn_states import PositiveWaveFunction
    return PositiveWaveFunction(n, 1, gpu=False)


def _indexing(ctx, cfg):
    from qucumber.utils.unitaries import _convert_basis_element_to_index
    canary = getattr(ctx, "canary", None)
    size = cfg["size"]
    ctx.under_contract("NeuralStateBase.generate_hilbert_space", "NeuralStateBase.subspace_vector", "unitaries._convert_basis_element_to_index")
    st = _state()
    space = st.generate_hilbert_space(size)
    D = 2 ** size
    ctx.holds("generate_hilbert_space/shape and dtype[size=%d]" % size, tuple(space.shape) == (D, size) and space.dtype == torch.double)
    exhaustive = ctx.tier == "thorough" or size <= 12
    if exhaustive:
        ks = np.arange(D, dtype=np.int64)
    else:
        rng = np.random.default_rng(1000 + size + ctx.seed)
        ks = np.unique(np.concatenate([np.arange(2048), np.arange(D - 2048, D), rng.integers(0, D, size=4096)])).astype(np.int64)
    shifts = np.arange(size - 1, -1, -1) if canary != "spec-little-endian" else np.arange(size)
    want = ((ks[:, None] >> shifts[None, :]) & 1).astype(np.float64)
    got = space.numpy()[ks]
    ctx.holds("generate_hilbert_space/row k is the big-endian expansion of k[size=%d rows=%d%s]" % (size, len(ks), " exhaustive" if exhaustive else " sampled"),
              bool(np.array_equal(got, want)))
    idx = _convert_basis_element_to_index(space[torch.as_tensor(ks)])
    ctx.holds("_convert_basis_element_to_index/recovers k from row k[size=%d]" % size, bool(np.array_equal(idx.numpy(), ks.astype(np.float64))))
    sub = ks if len(ks) <= 2048 else ks[:: max(1, len(ks) // 2048)]
    ok = True
    for k in sub.tolist():
        v = st.subspace_vector(k, size)
        if tuple(v.shape) != (size,) or not np.array_equal(v.numpy(), want[np.searchsorted(ks, k)]):
            ok = False
            break
    ctx.holds("subspace_vector/basis vector k is row k of the space[size=%d rows=%d]" % (size, len(sub)), ok)
    # z3 bit-vector lemmas for a symbolic index
    k = z3.BitVec("k", size)
    conds = []
    for c in range(size):
        j = size - 1 - c
        code_bit = (k & z3.BitVecVal(1 << j, size)) != 0               # (num & (1 << j)) > 0, read at column c after the [::-1]
        conds.append(code_bit == (z3.Extract(j, j, k) == 1))
    ctx.z3("lemma/column c of row k is bit size-1-c of k (symbolic k)[size=%d]" % size, [], z3.And(*conds))
    tot = z3.BitVecVal(0, size + 1)
    for c in range(size):
        j = size - 1 - c
        tot = tot + z3.ZeroExt(1, z3.If(z3.Extract(j, j, k) == 1, z3.BitVecVal(1 << j, size), z3.BitVecVal(0, size)))
    ctx.z3("lemma/sum_c bit_(size-1-c)(k) * 2^(size-1-c) == k (symbolic k)[size=%d]" % size, [], tot == z3.ZeroExt(1, k))
    # the index function alone has no size limit: rows of up to 50 sites (indices far above 2**24, exact in double
    # precision), and the same rows under a caller's autocast context
    if size in (9, 10, 12):
        wide = size + 38 if size == 12 else size + 16
        rngw = np.random.default_rng(7 + size)
        bits = rngw.integers(0, 2, size=(64, wide))
        bits[0, :] = 1
        bits[1, :] = 0
        bits[2, :] = 1
        bits[2, 0] = 0
        wantw = [int("".join(str(int(b)) for b in r), 2) for r in bits]
        gotw = _convert_basis_element_to_index(torch.tensor(bits, dtype=torch.double))
        ctx.holds("_convert_basis_element_to_index/exact for rows of %d sites (indices above 2**24)" % wide, [int(x) for x in gotw.tolist()] == wantw, str(gotw.tolist()[:3]))
        with torch.autocast("cpu", dtype=torch.bfloat16):
            ga = _convert_basis_element_to_index(space[torch.as_tensor(ks[-512:])])
            gs = _convert_basis_element_to_index(space[int(ks[-1])])
        ctx.holds("_convert_basis_element_to_index/recovers k from row k inside a caller's autocast context[size=%d]" % size,
                  [int(x) for x in ga.tolist()] == [int(x) for x in ks[-512:]] and int(gs) == int(ks[-1]), str(ga.tolist()[-3:]))
    if size <= 10:
        # history: a caller may modify the tensor it was given (e.g. sample(..., initial_state=space, overwrite=True));
        # the next request, from this or any other model, still gets the expansion
        first = st.generate_hilbert_space(size)
        first.mul_(2.0).sub_(1.0)
        again = st.generate_hilbert_space(size)
        other = _state().generate_hilbert_space(size)
        ctx.holds("generate_hilbert_space/a space modified by its caller does not leak into later requests[size=%d]" % size,
                  bool(np.array_equal(again.numpy(), ((np.arange(D)[:, None] >> np.arange(size - 1, -1, -1)[None, :]) & 1).astype(float)))
                  and torch.equal(again, other) and again.data_ptr() != first.data_ptr())
        v1 = st.subspace_vector(D - 1, size)
        v1.zero_()
        ctx.holds("subspace_vector/likewise[size=%d]" % size, bool((st.subspace_vector(D - 1, size) == 1).all()))
    st2 = _state(size if size <= 6 else 2)
    if size <= 6:
        ctx.holds("generate_hilbert_space/default size is num_visible[size=%d]" % size, torch.equal(st2.generate_hilbert_space(), space))
        ctx.holds("subspace_vector/default size is num_visible[size=%d]" % size, torch.equal(st2.subspace_vector(D - 1), space[D - 1]))


def _oversize(ctx, cfg):
    st = _state()
    ctx.under_contract("NeuralStateBase.max_size", "NeuralStateBase.generate_hilbert_space")
    ctx.holds("max_size is 20", st.max_size == 20)
    for size in (21, 22, 64):
        try:
            st.generate_hilbert_space(size)
            ctx.holds("generate_hilbert_space/size %d refused" % size, False)
        except ValueError:
            ctx.holds("generate_hilbert_space/size %d refused" % size, True)
    ctx.holds("generate_hilbert_space/size 20 accepted", tuple(st.generate_hilbert_space(20).shape) == (2 ** 20, 20))
    # the limit also holds when the size is not given (the model's own number of sites is used): a model beyond the limit
    from qucumber.nn_states import PositiveWaveFunction, ComplexWaveFunction, DensityMatrix
    real_arange = np.arange

    def guarded(*a, **k):          # never build a 2^21-row table if the refusal is missing
        if a and isinstance(a[0], (int, np.integer)) and a[0] > 2 ** 20:
            raise MemoryError("a space beyond the limit was about to be generated")
        return real_arange(*a, **k)
    for mk, nm in ((lambda: PositiveWaveFunction(21, 1, gpu=False), "positive"), (lambda: ComplexWaveFunction(21, 1, gpu=False), "complex"),
                   (lambda: DensityMatrix(21, 1, 1, gpu=False), "mixed")):
        big = mk()
        with mock.patch.object(np, "arange", guarded):
            try:
                big.generate_hilbert_space()
                ok = False
            except ValueError:
                ok = True
            except MemoryError:
                ok = False
        ctx.holds("generate_hilbert_space/a model of 21 sites asked for its own space (no size given) is refused [%s]" % nm, ok)

    class Small(PositiveWaveFunction):          # the same rule at a limit that is cheap to reach from both sides
        max_size = property(lambda self: 3)
    s4, s3 = Small(4, 1, gpu=False), Small(3, 1, gpu=False)
    for call, want_refusal, tag in ((lambda: s4.generate_hilbert_space(), True, "own size 4 > limit 3"), (lambda: s4.generate_hilbert_space(4), True, "size 4 > limit 3"),
                                    (lambda: s4.generate_hilbert_space(3), False, "size 3 == limit"), (lambda: s3.generate_hilbert_space(), False, "own size 3 == limit")):
        try:
            call()
            refused = False
        except ValueError:
            refused = True
        ctx.holds("generate_hilbert_space/refused iff size > max_size [%s]" % tag, refused == want_refusal)


def _loaders(ctx, cfg):
    from qucumber.utils import data as D
    ctx.under_contract("data.load_data", "data.load_data_DM")
    ctx.stub("np.loadtxt")
    for nq in (1, 2, 3):      # one site matters: the psi file is then 2 x 2 and its orientation cannot be guessed from its shape
        Dq = 2 ** nq
        rng = np.random.default_rng(5)
        samples = rng.integers(0, 2, size=(7 if nq != 2 else 1, nq)).astype("float32")       # n = 2: a file with a single sample
        psi = rng.normal(size=(Dq, 2)).astype("float32")
        re_, im_ = rng.normal(size=(Dq, Dq)).astype("float32"), rng.normal(size=(Dq, Dq)).astype("float32")
        trb = np.array([list("XYZ"[:nq]), list("ZZZ"[:nq]), list("ZQZ"[-nq:])] * 2 + [list("ZZZ"[:nq])])[:len(samples)]
        bs = np.array(["XYZ"[:nq], "ZZZ"[:nq]])
        calls = []
        table = {"S": samples, "P": psi, "R": re_, "I": im_, "TB": trb, "B": bs}

        def fake(path, dtype=float, ndmin=0, **k):
            # numpy.loadtxt: the table as written when ndmin=2, otherwise squeezed (a one-row or one-column file loses that
            # dimension) and padded back up to ndmin dimensions
            calls.append((path, dtype, ndmin))
            a = np.asarray(table[path])
            if ndmin == 2 and a.ndim == 2:
                return a
            a = np.squeeze(a)
            while a.ndim < ndmin:
                a = a[None]
            return a
        with mock.patch.object(np, "loadtxt", fake):
            for tb in (None, "TB"):
                for b in (None, "B"):
                    for p in (None, "P"):
                        del calls[:]
                        out = D.load_data("S", p, tb, b)
                        t = "[n=%d psi=%s tr_bases=%s bases=%s]" % (nq, p, tb, b)
                        n = 1 + (p is not None) + (tb is not None) + (b is not None)
                        ctx.holds("load_data/returns [samples, target?, tr_bases?, bases?] in that order" + t, isinstance(out, list) and len(out) == n)
                        ctx.holds("load_data/samples == double(float32(file)), one row per sample and one column per site" + t,
                              out[0].dtype == torch.double and tuple(out[0].shape) == samples.shape and torch.equal(out[0], torch.tensor(samples, dtype=torch.double)))
                        i = 1
                        if p:
                            tp = out[i]
                            ctx.holds("load_data/target psi: columns 0 / 1 are real / imaginary parts, single precision values" + t,
                                      tuple(tp.shape) == (2, Dq) and tp.dtype == torch.double and torch.equal(tp[0], torch.tensor(psi[:, 0], dtype=torch.double))
                                      and torch.equal(tp[1], torch.tensor(psi[:, 1], dtype=torch.double)))
                            i += 1
                        if tb:
                            ctx.holds("load_data/training bases returned as written (strings, one row per sample)" + t,
                                  isinstance(out[i], np.ndarray) and out[i].shape == trb.shape and bool((out[i] == trb).all()))
                            i += 1
                        if b:
                            ctx.holds("load_data/bases returned as written (strings, at least 1-d)" + t, isinstance(out[i], np.ndarray) and out[i].shape == bs.shape and bool((out[i] == bs).all()) and any(c[0] == "B" and c[1] is str and c[2] >= 1 for c in calls))
                        ctx.holds("load_data/numeric files read as float32, bases as str" + t,
                                  all((c[1] == "float32") if c[0] in ("S", "P") else (c[1] is str) for c in calls))
            # history: the same paths are loaded again after the files were rewritten (the next data set under the same name,
            # a relative path used from another working directory): every load returns what the files hold NOW
            old_tab = dict(table)
            table["S"] = 1.0 - samples
            table["P"] = (psi * -2.0).astype("float32")
            table["R"], table["I"] = (re_ + 1.0).astype("float32"), (im_ - 1.0).astype("float32")
            table["TB"] = trb[::-1].copy()
            table["B"] = bs[::-1].copy()
            o2 = D.load_data("S", "P", "TB", "B")
            ctx.holds("load_data/history: a second load of the same paths returns the current file contents[n=%d]" % nq,
                      torch.equal(o2[0], torch.tensor(1.0 - samples, dtype=torch.double)) and torch.equal(o2[1][0], torch.tensor(psi[:, 0] * -2.0, dtype=torch.double))
                      and bool((o2[2] == trb[::-1]).all()) and bool((o2[3] == bs[::-1]).all()))
            o3 = D.load_data_DM("S", "R", "I", "TB", "B")
            ctx.holds("load_data_DM/history: a second load of the same paths returns the current file contents[n=%d]" % nq,
                      torch.equal(o3[0], torch.tensor(1.0 - samples, dtype=torch.double)) and torch.equal(o3[1][0], torch.tensor(re_ + 1.0, dtype=torch.double))
                      and torch.equal(o3[1][1], torch.tensor(im_ - 1.0, dtype=torch.double)) and bool((o3[2] == trb[::-1]).all()))
            table.update(old_tab)
            for r in (None, "R"):
                for im in (None, "I"):
                    t = "[n=%d real=%s imag=%s]" % (nq, r, im)
                    try:
                        out = D.load_data_DM("S", r, im, "TB", "B")
                        ok = (r is None) == (im is None)
                        ctx.holds("load_data_DM/ValueError iff exactly one matrix path is given" + t, ok)
                        if r and im:
                            ctx.holds("load_data_DM/order [samples, target, tr_bases, bases]" + t, len(out) == 4 and np.shape(out[2]) == trb.shape and bool((out[2] == trb).all()) and np.shape(out[3]) == bs.shape and bool((out[3] == bs).all()))
                            ctx.holds("load_data_DM/target == make_complex(real, imag) in double" + t, tuple(out[1].shape) == (2, Dq, Dq) and out[1].dtype == torch.double
                                      and torch.equal(out[1][0], torch.tensor(re_, dtype=torch.double)) and torch.equal(out[1][1], torch.tensor(im_, dtype=torch.double)))
                        else:
                            ctx.holds("load_data_DM/without matrices [samples, tr_bases, bases]" + t, len(out) == 3 and out[1] is trb)
                        ctx.holds("load_data_DM/samples == double(float32(file))" + t, torch.equal(out[0], torch.tensor(samples, dtype=torch.double)))
                    except ValueError:
                        ctx.holds("load_data_DM/ValueError iff exactly one matrix path is given" + t, (r is None) != (im is None))
            out = D.load_data_DM("S")
            ctx.holds("load_data_DM/samples only", len(out) == 1)


def _refbasis(ctx, cfg):
    import itertools
    from qucumber.utils.data import extract_refbasis_samples
    ctx.under_contract("data.extract_refbasis_samples")
    total = 0
    ok = True
    bad = None
    # alphabets: the Pauli labels, and labels that sort before / after "Z" (a lower-case "z" is another label, not the reference one)
    for n, alphabet in [(n, a) for a in ("XYZ", "AZa", "Zz_", "HZ") for n in (1, 2, 3)]:
        letters = list(itertools.product(alphabet, repeat=n))
        for N in (0, 1, 2, 3, 4):
            combos = itertools.product(letters, repeat=N) if len(letters) ** N <= 3000 else \
                [tuple(letters[i] for i in np.random.default_rng(s).integers(0, len(letters), size=N)) for s in range(1500)]
            for rows in combos:
                bases = np.array([list(r) for r in rows]).reshape(N, n).astype("<U1")
                samples = torch.arange(N * n, dtype=torch.double).reshape(N, n)
                keep = samples.clone()
                z = extract_refbasis_samples(samples, bases)
                want = [i for i, r in enumerate(rows) if all(c == "Z" for c in r)]
                total += 1
                if tuple(z.shape) != (len(want), n) or not torch.equal(z, samples[want]) or not torch.equal(samples, keep):
                    ok, bad = False, (rows,)
                    break
            if not ok:
                break
        if not ok:
            break
    ctx.holds("extract_refbasis_samples/exactly the all-Z rows, in order, data untouched (%d basis patterns, exhaustive for small N,n)" % total, ok, str(bad))
    ctx.bounded.append({"label": "exhaustive-small-scope", "what": "extract_refbasis_samples", "evaluations": total,
                        "bound": "all basis patterns over {X,Y,Z}, {A,Z,a}, {Z,z,_} and {H,Z} for N <= 4 rows (incl. none), n <= 3 sites (seeded subset where the count exceeds 3000)"})


def replay(o):
    if o["cfg"].get("part") == "tensor-order":
        from drivers import C04 as D4
        env = (o.get("witness") or {}).get("env") or {}
        return D4.replay({"mode": o["cfg"].get("mode", "symbolic"), "basis": o["cfg"]["basis"]}, env)
    from drivers import C19 as D
    return D.replay(o["cfg"])
