"""C14 concrete driver: two identically seeded histories with foreign RNGs perturbed in between; read-only operations compared before / after."""
import random

import numpy as np
import torch

from . import common as C


def history(kind, seed, perturb):
    import qucumber
    from qucumber.observables import SigmaZ, SigmaX
    np.random.seed(perturb)
    random.seed(perturb)
    qucumber.set_random_seed(seed, cpu=True, gpu=False, quiet=True)
    st = C.make_state(kind, 3, 2, 2)
    out = []
    out.append(st.sample(k=5, num_samples=6).clone())
    np.random.rand(perturb % 7 + 1)
    random.random()
    s = SigmaZ().statistics(st, num_samples=12, num_chains=4, burn_in=3, steps=2)
    out.append(torch.tensor([s["mean"], s["variance"], s["std_error"]], dtype=torch.double))
    data = st.sample(k=3, num_samples=8).clone()
    kw = {}
    if kind != "positive":
        kw["input_bases"] = np.array([list("ZZZ"), list("XZZ"), list("ZYZ"), list("ZZZ"), list("ZZX"), list("YYZ"), list("ZZZ"), list("XXX")])
    np.random.seed(perturb + 1)
    st.fit(data, epochs=2, pos_batch_size=3, neg_batch_size=2, k=2, lr=0.1, **kw)
    # k = 0: the negative-phase start states enter the update directly (identically seeded Gibbs chains started from
    # different states tend to coalesce after a step or two, which would hide a foreign random source)
    np.random.seed(perturb + 2)
    st.fit(data, epochs=2, pos_batch_size=3, neg_batch_size=2, k=0, lr=0.3, **kw)
    for net in st.networks:
        for p in getattr(st, net).parameters():
            out.append(p.detach().clone())
    out.append(st.sample(k=2, num_samples=4).clone())
    return out


def readonly(kind, seed):
    from qucumber.observables import SigmaX, SigmaZ, SWAP
    from qucumber.utils import training_statistics as ts, unitaries
    import tempfile, os
    rng = np.random.default_rng(seed)
    st = C.make_state(kind, 2, 2, 1)
    C.randomize(st, rng, 0.7)
    if kind == "mixed":
        st.rbm_ph.aux_bias.data.zero_()
    space = st.generate_hilbert_space(2)
    before = {(net, n): p.detach().clone() for net in st.networks for n, p in getattr(st, net).named_parameters()}
    st.sample(k=3, num_samples=5)
    for o in (SigmaX(), SigmaZ(), SWAP([0]), SigmaX() + 2 * SigmaZ()):
        o.apply(st, space.clone())
        o.statistics(st, num_samples=6, num_chains=3, burn_in=2)
    ts.NLL(st, space, space)
    if kind != "positive":
        bases = np.array([list("XZ"), list("ZY"), list("ZZ"), list("YX")])
        st.gradient(space, bases)
        st.compute_exact_gradients(space, space, bases)
        st.compute_batch_gradients(2, space, space, bases)
        ts.NLL(st, space, space, sample_bases=bases)
        if kind == "complex":
            unitaries.rotate_psi(st, "XY", space)
            t = st.psi(space)
            ts.fidelity(st, t / t.norm(), space)
            ts.KL(st, t / st.normalization(space).sqrt(), space, bases=["XY", "ZZ"])
        else:
            unitaries.rotate_rho(st, "XY", space)
            r = st.rho(space, space) / st.normalization(space)
            ts.fidelity(st, r, space)
            ts.KL(st, r, space, bases=["XY", "ZZ"])
    else:
        st.gradient(space)
        st.compute_exact_gradients(space, space)
        st.compute_batch_gradients(2, space, space)
    d = tempfile.mkdtemp(prefix="vf_c14_")
    try:
        st.save(os.path.join(d, "f.pt"), {"a": 1})
    finally:
        import shutil
        shutil.rmtree(d, ignore_errors=True)
    return [(k) for k, v in before.items() if not torch.equal(v, dict(getattr(st, k[0]).named_parameters())[k[1]].detach())]


def native_check(quick=True):
    fails, n = [], 0
    for kind in ("positive", "complex", "mixed"):
        for seed in ((1234,) if quick else (0, 1234, 99)):
            a = history(kind, seed, 1)
            b = history(kind, seed, 77)
            n += 2
            if len(a) != len(b) or any(not torch.equal(x, y) for x, y in zip(a, b)):
                fails.append("%s: two runs seeded with %d differ (numpy/random perturbed in between)" % (kind, seed))
            for other in (seed + 1, -seed if seed else -1, seed + 2 ** 20):
                c = history(kind, other, 1)
                n += 1
                if torch.equal(a[0], c[0]) and torch.equal(a[-1], c[-1]):
                    fails.append("%s: the different seeds %d and %d gave identical draws" % (kind, seed, other))
        ch = readonly(kind, 3)
        n += 1
        if ch:
            fails.append("%s: read-only operations changed parameters %s" % (kind, ch[:3]))
    return fails, n


def replay(cfg):
    f, n = native_check(True)
    return {"reproduced": bool(f), "failed_clauses": f[:3]}


def bounded(tier, seed):
    f, n = native_check(tier == "quick")
    return {"driver": "drivers/C14.native_check", "label": "bounded", "evaluations": n, "failures": len(f),
            "bound": "per state type: two identically seeded histories (init, sampling, statistics, training, sampling) with numpy / random reseeded differently and consumed in between, compared bitwise; a third run with another seed; a battery of read-only operations compared before / after",
            "first_failures": f[:3]}
