"""Size-generic lemmas checked by Lean 4 + Mathlib (lean/Marginals.lean) and their mechanical link to the contracts of
front end G: the closed forms are printed from contracts/grbm.py at check time (qv.gen.to_lean) into generated
theorems `contract_*`, so the Lean statements are about the very tensors the real code was proved to compute."""
import os
import re
import shutil
import subprocess
import tempfile
import time

from qv import astvc, gen as G

VERIF = os.path.dirname(os.path.dirname(os.path.abspath(__file__)))
MATHLIB = os.environ.get("VF_MATHLIB", "/opt/veriftools/mathlib4")
STD_AXIOMS = {"propext", "Classical.choice", "Quot.sound"}

SOURCE = {"C08": ("Estimators.lean", False), "C09": ("Metrics.lean", False), "C10": ("Metrics.lean", False)}      # default: ("Marginals.lean", True = append the generated contract links)

THEOREMS = {
    "C01": [("sum_bool_exp", "sum over all bit strings of exp(sum_j h_j x_j) == prod_j (1 + exp x_j), every n"),
            ("marginal_eq_exp_neg_effEnergy", "sum over all hidden configurations of exp(-E(v,h)) == exp(-effective energy), every nv, nh"),
            ("contract_effEnergy", "the effective energy of that lemma is the contract of BinaryRBM.effective_energy (printed from the contract)")],
    "C05": [("conditional_h_given_v", "p(h | v) of the joint distribution == prod_j Bernoulli(sigmoid(c_j + W_j.v)), every nv, nh"),
            ("contract_sigmoid", "that Bernoulli parameter is the contract of prob_h_given_v (printed from the contract)")],
    "C08": [("normSq_mul_ratio", "|psi|^2 * (psi'/psi) == conj(psi) * psi'  (sampling probability times importance weight)"),
            ("sigmaX_local_estimator", "sum_sigma |psi(sigma)|^2 Re(psi(sigma^i)/psi(sigma)) == Re <psi| X_i |psi>, every number of sites"),
            ("sigmaY_local_estimator", "the same for Y_i with the coefficient i*(+-1) that SigmaY.apply multiplies by"),
            ("sigmaX_site_average", "the |psi|^2-weighted sum of SigmaX.apply's per-sample value == (1/n) sum_i Re <psi| X_i |psi>")],
    "C09": [("swap_estimator", "the |psi|^2 |psi'|^2-weighted sum over pairs of SWAP.apply's per-pair value == Re sum conj psi conj psi' psi(swap) psi(swap') (Tr rho_A^2 written out), every n and region")],
    "C10": [("kl_nonneg", "Gibbs' inequality: KL(p | q) >= 0 for strictly positive probability vectors of every length"),
            ("kl_self", "KL(p | p) == 0"),
            ("fidelity_le", "|<t|psi>|^2 <= <t|t><psi|psi> (pure-state fidelity of normalised states is at most 1), every dimension"),
            ("fidelity_self", "|<psi|psi>|^2 == <psi|psi>^2 (fidelity of a state with itself is 1 after normalisation)")],
    "C02": [("sum_bool_cexp", "sum over all auxiliary bit strings of exp(sum_a a_a z_a) == prod_a (1 + exp z_a) over the complex numbers, every n"),
            ("exp_pi_eq_sum_over_aux", "exp(sum_a log|w_a| + i sum_a arg w_a) == sum over all auxiliary configurations (partial trace), w_a != 0, every n"),
            ("abs_one_add_cexp", "|1 + exp(x + i phi)| == sqrt(1 + 2 e^x cos phi + e^2x)  (the real part DensityMatrix.pi computes per auxiliary unit)"),
            ("re_im_one_add_cexp", "Re, Im of 1 + exp(x + i phi) are the two arguments DensityMatrix.pi hands to atan2")],
}


def _emitted(ctx):
    from contracts import grbm
    out = {}
    vc = astvc.VC(ctx)

    def run():
        cs = {c.name: c for c in grbm.cases("binary")}
        c = cs["BinaryRBM.effective_energy[one state]"]
        ins = {n: G.val_of(G.inp(n, s)) for n, s, _d in c.inputs}
        out["EFF_ENERGY"] = G.to_lean(c.spec(**ins).body)
        c = cs["BinaryRBM.prob_h_given_v[one state]"]
        ins = {n: G.val_of(G.inp(n, s)) for n, s, _d in c.inputs}
        w = c.spec(**ins)
        out["PROB_H"] = G.to_lean(w.body, {w.ix[0]: "j"})
    G.explore(vc, run, "lean-export")
    return out


def run(ctx, prop):
    t0 = time.time()
    fname, linked = SOURCE.get(prop, ("Marginals.lean", True))
    src = open(os.path.join(VERIF, "lean", fname)).read()
    tmpl = open(os.path.join(VERIF, "lean", "Link.lean.tmpl")).read() if linked else ""
    names = [n for n, _w in THEOREMS[prop]]
    try:
        em = _emitted(ctx) if linked else {}
        for k, v in em.items():
            tmpl = tmpl.replace("@@%s@@" % k, v)
    except Exception as e:
        for n, what in THEOREMS[prop]:
            ctx._rec("lean/%s: %s" % (n, what), "undecided", "lean4+mathlib", 0.0, "export of the contract failed: %r" % (e,))
        return
    d = tempfile.mkdtemp(prefix="vflean_")
    try:
        f = os.path.join(d, "Check.lean")
        open(f, "w").write(src + tmpl)
        lean = shutil.which("lean")
        if lean is None or not os.path.isdir(MATHLIB):
            for n, what in THEOREMS[prop]:
                ctx._rec("lean/%s: %s" % (n, what), "undecided", "lean4+mathlib", 0.0, "lean / mathlib not available")
            return
        # the search path lake would set, computed here: nothing is written into the Mathlib checkout
        import glob
        lp = sorted(glob.glob(os.path.join(MATHLIB, ".lake", "packages", "*", ".lake", "build", "lib", "lean"))) + \
            [os.path.join(MATHLIB, ".lake", "build", "lib", "lean")]
        env = dict(os.environ, LEAN_PATH=":".join(lp))
        try:
            r = subprocess.run([lean, f], cwd=d, env=env, capture_output=True, text=True, timeout=900)
            outp = r.stdout + r.stderr
            rc = r.returncode
        except subprocess.TimeoutExpired:
            outp, rc = "timeout", 124
    finally:
        shutil.rmtree(d, ignore_errors=True)
    secs = time.time() - t0
    axioms = {}
    for m in re.finditer(r"'QuCumber\.(\w+)' depends on axioms: \[([^\]]*)\]", outp):
        axioms[m.group(1)] = {a.strip() for a in m.group(2).split(",") if a.strip()}
    errors = [l for l in outp.splitlines() if "error" in l]
    for n, what in THEOREMS[prop]:
        nm = "lean/%s: %s" % (n, what)
        if rc == 0 and not errors and n in axioms and axioms[n] <= STD_AXIOMS:
            ctx._rec(nm, "discharged", "lean4+mathlib", secs / len(names), None)
        else:
            why = "lean exit %s; axioms %s; %s" % (rc, sorted(axioms.get(n, ["<theorem not checked>"])), " | ".join(errors[:3])[:600])
            ctx._rec(nm, "undecided", "lean4+mathlib", secs / len(names), why)
    ctx.under_contract("lean/%s (%s)" % (fname, ", ".join(names)))
