"""Solver back ends: z3 (python API, 5.1) first, cvc5 (python API) on z3's unknowns.

* export of `qv.alg.P` elements to z3 real arithmetic: every atom becomes a
  real constant (complex atoms a pair) with its defining side condition
  (eh > 0, ch on the unit circle, R^2 = u & R >= 0, Inv*u = 1, Abs^2 = u^2).
  Lg / At atoms are left unconstrained reals (sound for proving: fewer
  constraints can only make `unsat` harder).
* generic helpers for integer / boolean obligations of front end A.

A result is one of  "proved" (negation unsat), "refuted" (negation sat, model
returned), "unknown".
"""
import time
from fractions import Fraction as Fr

import z3

from . import alg

DEFAULT_TIMEOUT_MS = 60000


class Z3Export:
    def __init__(self):
        self.vars = {}       # atom id -> (re, im) z3 exprs
        self.inv = {}        # atom id -> z3 var for inverse of an eh / pos atom
        self.cons = []
        self.n = 0

    def fresh(self, nm):
        self.n += 1
        return z3.Real("%s_%d" % (nm, self.n))

    def atom(self, at):
        r = self.vars.get(at.id)
        if r is not None:
            return r
        k = at.kind
        zero = z3.RealVal(0)
        if k == "i":
            r = (zero, z3.RealVal(1))
        elif k == "par":
            r = (z3.Real("p_" + str(at.key[1])), zero)
        elif k == "UF":
            sign = at.key[2]
            if sign == "complex":
                r = (z3.Real("ufr_" + str(at.key[1])), z3.Real("ufi_" + str(at.key[1])))
            else:
                v = z3.Real("uf_" + str(at.key[1]))
                if sign == "pos":
                    self.cons.append(v > 0)
                r = (v, zero)
        elif k == "eh":
            v = self.fresh("eh")
            self.cons.append(v > 0)
            r = (v, zero)
        elif k == "ch":
            c, s = self.fresh("chr"), self.fresh("chi")
            self.cons.append(c * c + s * s == 1)
            r = (c, s)
        elif k == "R":
            v = self.fresh("R")
            ur, _ui = self.poly(at.args[0])
            self.cons.append(v >= 0)
            self.cons.append(v * v == ur)
            r = (v, zero)
        elif k == "Cl":
            ur, _ui = self.poly(at.args[0])
            v = ur
            if at.args[1] is not None:
                lo = z3.RealVal(str(at.args[1]))
                v = z3.If(v < lo, lo, v)
            if at.args[2] is not None:
                hi = z3.RealVal(str(at.args[2]))
                v = z3.If(v > hi, hi, v)
            r = (v, zero)
        elif k == "Abs":
            v = self.fresh("Abs")
            ur, _ui = self.poly(at.args[0])
            self.cons.append(v >= 0)
            self.cons.append(v * v == ur * ur)
            r = (v, zero)
        elif k == "Inv":
            ur, ui = self.poly(at.args[0])
            if at.real:
                v = self.fresh("Inv")
                self.cons.append(v * ur == 1)
                r = (v, zero)
            else:
                vr, vi = self.fresh("Invr"), self.fresh("Invi")
                self.cons.append(vr * ur - vi * ui == 1)
                self.cons.append(vr * ui + vi * ur == 0)
                r = (vr, vi)
        elif k in ("Lg", "At", "Cast"):
            r = (self.fresh(k), zero)
        else:
            raise alg.Unmodelled("z3 export of atom kind %s" % k)
        self.vars[at.id] = r
        return r

    def atom_pow(self, at, e):
        re_, im_ = self.atom(at)
        if e < 0:
            if at.kind == "ch":
                re_, im_ = re_, -im_
                e = -e
            elif at.kind == "i":
                im_ = -im_
                e = -e
            else:
                v = self.inv.get(at.id)
                if v is None:
                    v = self.fresh("inv")
                    self.cons.append(v * re_ == 1)
                    self.inv[at.id] = v
                re_, im_ = v, z3.RealVal(0)
                e = -e
        rr, ri = re_, im_
        isreal = z3.is_rational_value(im_) and im_.as_fraction() == 0
        for _ in range(e - 1):
            if isreal:
                rr = rr * re_
            else:
                rr, ri = rr * re_ - ri * im_, rr * im_ + ri * re_
        return rr, ri

    def poly(self, p):
        tr, ti = [], []
        for m, c in p.t.items():
            cf = Fr(c)
            mr, mi = z3.RealVal(str(cf)), None
            for a, e in m:
                ar, ai = self.atom_pow(alg.atom(a), e)
                ai_zero = z3.is_rational_value(ai) and ai.as_fraction() == 0
                if mi is None:
                    if ai_zero:
                        mr = mr * ar
                    else:
                        mr, mi = mr * ar, mr * ai
                else:
                    if ai_zero:
                        mr, mi = mr * ar, mi * ar
                    else:
                        mr, mi = mr * ar - mi * ai, mr * ai + mi * ar
            tr.append(mr)
            if mi is not None:
                ti.append(mi)
        zr = z3.Sum(tr) if tr else z3.RealVal(0)
        zi = z3.Sum(ti) if ti else z3.RealVal(0)
        return zr, zi


def _check(solver_assertions, timeout_ms, want_model=False):
    """Return (status, model, seconds, backend). status in unsat/sat/unknown."""
    t0 = time.time()
    s = z3.Solver()
    s.set("timeout", int(timeout_ms))
    s.add(*solver_assertions)
    r = s.check()
    if r == z3.unknown:
        # second try with the nlsat pipeline
        try:
            t = z3.Then("simplify", "propagate-values", "solve-eqs", "qfnra-nlsat")
            s2 = t.solver()
            s2.set("timeout", int(timeout_ms))
            s2.add(*solver_assertions)
            r2 = s2.check()
            if r2 != z3.unknown:
                r, s = r2, s2
        except z3.Z3Exception:
            pass
    dt = time.time() - t0
    if r == z3.unsat:
        return "unsat", None, dt, "z3"
    if r == z3.sat:
        return "sat", (s.model() if want_model else None), dt, "z3"
    # cvc5 second opinion via SMT-LIB text
    st = _cvc5_check(solver_assertions, timeout_ms)
    return st, None, time.time() - t0, "cvc5" if st != "unknown" else "z3+cvc5"


def _cvc5_check(assertions, timeout_ms):
    import subprocess
    import tempfile
    import os
    import shutil
    exe = shutil.which("cvc5")
    if not exe:
        return "unknown"
    s = z3.Solver()
    s.add(*assertions)
    smt = s.to_smt2()
    if "(set-logic" not in smt:
        smt = "(set-logic ALL)\n" + smt
    fd, path = tempfile.mkstemp(suffix=".smt2")
    try:
        with os.fdopen(fd, "w") as f:
            f.write(smt)
        try:
            out = subprocess.run([exe, "--tlimit=%d" % int(timeout_ms), path], capture_output=True, text=True,
                                 timeout=timeout_ms / 1000.0 + 5).stdout.strip().splitlines()
        except subprocess.TimeoutExpired:
            return "unknown"
        if out and out[0] in ("unsat", "sat"):
            return out[0]
        return "unknown"
    finally:
        os.unlink(path)


# ---------------------------------------------------------------- numeric algebra queries
_NONNEG_CACHE = {}
STATS = {"z3_queries": 0, "z3_seconds": 0.0, "side_conditions": []}


def prove_nonneg(p, timeout_ms=4000):
    """Prove re(p) >= 0 (and im(p) == 0) for all admissible atom values."""
    k = p.key()
    r = _NONNEG_CACHE.get(k)
    if r is not None:
        return r
    ex = Z3Export()
    zr, zi = ex.poly(p)
    st, _m, dt, be = _check(ex.cons + [z3.Or(zr < 0, zi != 0)], timeout_ms)
    STATS["z3_queries"] += 1
    STATS["z3_seconds"] += dt
    r = (st == "unsat")
    _NONNEG_CACHE[k] = r
    if r:
        STATS["side_conditions"].append({"claim": "nonneg", "expr": p.short(120), "backend": be, "s": round(dt, 4)})
    return r


def prove_zero(p, timeout_ms=DEFAULT_TIMEOUT_MS):
    """Independent z3 confirmation that p == 0 for all admissible atom values.
    Returns (status, seconds, backend), status in proved / refuted / unknown."""
    ex = Z3Export()
    zr, zi = ex.poly(p)
    st, _m, dt, be = _check(ex.cons + [z3.Or(zr != 0, zi != 0)], timeout_ms)
    STATS["z3_queries"] += 1
    STATS["z3_seconds"] += dt
    return {"unsat": "proved", "sat": "refuted"}.get(st, "unknown"), dt, be


def prove(assumptions, goal, timeout_ms=DEFAULT_TIMEOUT_MS):
    """Generic: assumptions |= goal.  Returns (status, model_or_None, seconds, backend)."""
    st, m, dt, be = _check(list(assumptions) + [z3.Not(goal)], timeout_ms, want_model=True)
    STATS["z3_queries"] += 1
    STATS["z3_seconds"] += dt
    return {"unsat": "proved", "sat": "refuted"}.get(st, "unknown"), m, dt, be


def satisfiable(assertions, timeout_ms=10000):
    st, m, dt, be = _check(list(assertions), timeout_ms, want_model=True)
    STATS["z3_queries"] += 1
    STATS["z3_seconds"] += dt
    return st, m
