"""Front end G: the real tensor code executed on tensors of *symbolic shape*.

A GT is a genuine torch.Tensor wrapper subclass (like SymTensor) whose payload is an element-wise description
    shape = (d0, d1, ...)      each a Dim (symbolic size, any value >= 0) or a python int
    ix    = (i0, i1, ...)      one index variable per dimension
    body  = E                  a scalar expression over ix: the value of element [i0, i1, ...]
E is a polynomial (rational coefficients) over atoms
    el(T, ix...)      element of a named input tensor
    fn(f, E...)       pointwise function application (softplus, exp, log, sigmoid, cos, sin, sqrt, inv, abs, atan2)
    dim(D)            the size of a dimension as a number
    dl(a, b)          Kronecker delta of two index terms
in which a monomial may carry *bound* summation indices  (sum over k in D of a product).  The normal form expands
products, pulls sums outward, merges exp factors, eliminates deltas and names bound indices canonically, so two
expressions that are equal as tensor-algebra terms for every size have the same canonical string.  Obligations
discharged through it therefore hold for all shapes; size comparisons in the code fork the exploration (astvc.VC),
so a branch that exists only for some sizes is explored, not missed.

Sound, incomplete: equal canonical strings => equal for all sizes and values (each rewrite is an identity of real
arithmetic).  Different strings => a numeric witness is searched at small concrete sizes (then replayed on the real
code by the lemma); without one the obligation is undecided.
"""
import itertools
import math
import random
from fractions import Fraction as Fr

import numpy as np
import torch
import z3

from . import astvc
from .alg import Unmodelled

# --------------------------------------------------------------------------------------------------------------------
# dimensions and index variables
# --------------------------------------------------------------------------------------------------------------------


class TorchRuntimeError(RuntimeError):
    """An error the real torch primitive raises for these operands (size mismatch, ...), raised by its model."""


class TorchIndexError(IndexError):
    """IndexError of the real torch primitive, raised by its model."""


class Dim:
    __slots__ = ("name", "z")

    def __init__(self, name):
        self.name = name
        self.z = z3.Int("dim_" + name)

    def __repr__(self):
        return self.name


DIM_LB = {}      # name -> known lower bound of a symbolic dimension on this path (a precondition of the case)
DIMS = {}        # name -> Dim
REP = {}         # path-local unification of dims proved equal (name -> Dim)
IXDIM = {}       # index variable -> Dim | int
_cnt = itertools.count()


def dim(name):
    d = DIMS.get(name)
    if d is None:
        d = DIMS[name] = Dim(name)
    return d


def rep(d):
    while isinstance(d, Dim) and d.name in REP:
        d = REP[d.name]
    return d


def fresh_ix(d):
    n = "k%d" % next(_cnt)
    IXDIM[n] = rep(d)
    return n


def size_obj(d):
    """What the code under contract sees as a size."""
    d = rep(d)
    return d if isinstance(d, int) else astvc.SymInt(d.z)


def to_dim(x):
    """Back from a size object handed to torch by the code."""
    if isinstance(x, Dim):
        return rep(x)
    if isinstance(x, (int, np.integer)) and not isinstance(x, bool):
        return int(x)
    if isinstance(x, astvc.SymInt):
        e = z3.simplify(x.e)
        if z3.is_int_value(e):
            return e.as_long()
        if z3.is_const(e) and e.decl().name().startswith("dim_"):
            return rep(DIMS[e.decl().name()[4:]])
        # a size computed from other sizes (e.g. the number of parameters): a dimension of its own, tied to the expression
        nm = "(" + str(e).replace("dim_", "").replace("\n", "").replace(" ", "") + ")"
        dd = DIMS.get(nm)
        if dd is None:
            dd = DIMS[nm] = Dim(nm)
            dd.z = e
        return rep(dd)
    raise Unmodelled("size object %r" % (x,))


def same_dim(a, b):
    """Decide (forking the exploration if the path condition leaves it open) whether two dimensions are equal."""
    a, b = rep(a), rep(b)
    if a is b or (isinstance(a, int) and isinstance(b, int) and a == b):
        return True
    if isinstance(a, int) and isinstance(b, int):
        return False
    za = a if isinstance(a, int) else a.z
    zb = b if isinstance(b, int) else b.z
    vc = astvc.VC.cur()
    if vc.decide(za == zb):
        if isinstance(a, Dim):
            REP[a.name] = b
        else:
            REP[b.name] = a
        return True
    return False


# --------------------------------------------------------------------------------------------------------------------
# scalar expressions
# --------------------------------------------------------------------------------------------------------------------
# term = (coef: Fraction, bound: tuple[str], factors: tuple[(atom, int)])
# atom = ("el", name, ix...) | ("fn", f, E...) | ("dim", name) | ("dl", a, b)

# index terms: a variable name, an int, or ("sh", base, s, dim): (base - s) mod size(dim)   (torch.roll)
def _ix_occurs(i, k):
    return i == k or (isinstance(i, tuple) and i[1] == k)


def _ix_subst(i, m):
    if isinstance(i, str):
        return m.get(i, i)
    if isinstance(i, tuple):
        b = m.get(i[1], i[1]) if isinstance(i[1], str) else i[1]
        s = i[2]
        if isinstance(b, tuple):
            s, b = s + b[2], b[1]
        dsz = rep(DIMS[i[3]]) if i[3] in DIMS else None
        if isinstance(b, int) and isinstance(dsz, int):
            return (b - s) % dsz
        if s == 0:
            return b
        return ("sh", b, s, i[3])
    return i


def _ix_val(i, env, sizes):
    if isinstance(i, str):
        return env[i]
    if isinstance(i, tuple):
        b = env[i[1]] if isinstance(i[1], str) else i[1]
        dsz = rep(DIMS[i[3]])
        n = dsz if isinstance(dsz, int) else sizes[dsz.name]
        return (b - i[2]) % n
    return i


def _atom_occurs(a, k):
    if a[0] == "el":
        return any(_ix_occurs(i, k) for i in a[2:])
    if a[0] == "dl":
        return _ix_occurs(a[1], k) or _ix_occurs(a[2], k)
    if a[0] == "fn":
        return any(x.occurs(k) for x in a[2:])
    if a[0] == "lt":
        return _ix_occurs(a[1], k)
    return False


def _atom_subst(a, m):
    if a[0] == "el":
        return ("el", a[1]) + tuple(_ix_subst(i, m) for i in a[2:])
    if a[0] == "dl":
        return ("dl", _ix_subst(a[1], m), _ix_subst(a[2], m))
    if a[0] == "fn":
        return ("fn", a[1]) + tuple(x.subst(m) for x in a[2:])
    if a[0] == "lt":
        return ("lt", _ix_subst(a[1], m), a[2])
    return a


def _ixs(i, env):
    if isinstance(i, tuple):
        return "(%s-%d mod %s)" % (_ixs(i[1], env), i[2], i[3])
    return env.get(i, i) if isinstance(i, str) else "#%d" % i


def _atom_cs(a, env):
    if a[0] == "el":
        return "%s[%s]" % (a[1], ",".join(_ixs(i, env) for i in a[2:]))
    if a[0] == "dl":
        x, y = sorted((_ixs(a[1], env), _ixs(a[2], env)))
        return "d(%s,%s)" % (x, y)
    if a[0] == "fn":
        return "%s(%s)" % (a[1], ";".join(x.cs(env) for x in a[2:]))
    if a[0] == "lt":
        return "[%s<%s]" % (_ixs(a[1], env), a[2])
    return "|%s|" % a[1]


def _term_cs(t, env):
    coef, bound, factors = t
    if not bound:
        return "%s*%s" % (coef, "*".join(sorted("%s^%d" % (_atom_cs(a, env), p) for a, p in factors)))
    # canonical naming of the bound indices: dims in name order, all orders inside one dim, smallest string wins
    groups = {}
    for k in bound:
        d = IXDIM[k]
        groups.setdefault(str(rep(d)), []).append(k)
    names = sorted(groups)
    if sum(len(v) for v in groups.values()) > 6:
        raise Unmodelled("more than 6 nested summation indices")
    best = None
    base = len(env)
    for perms in itertools.product(*(itertools.permutations(groups[n]) for n in names)):
        e2 = dict(env)
        j = base
        hdr = []
        for n, pm in zip(names, perms):
            for k in pm:
                e2[k] = "b%d" % j
                hdr.append("b%d:%s" % (j, n))
                j += 1
        s = "%s*S[%s]{%s}" % (coef, ",".join(hdr), "*".join(sorted("%s^%d" % (_atom_cs(a, e2), p) for a, p in factors)))
        if best is None or s < best:
            best = s
    return best


class E:
    __slots__ = ("terms", "_cs")

    def __init__(self, terms=()):
        self.terms = tuple(terms)
        self._cs = None

    # ---- construction
    @staticmethod
    def const(c):
        c = Fr(c)
        return E(((c, (), ()),)) if c else ZERO

    @staticmethod
    def atom(a, p=1):
        return _norm([(Fr(1), (), ((a, p),))])

    def cs(self, env=None):
        if env:
            return "(" + "+".join(sorted(_term_cs(t, env) for t in self.terms)) + ")"
        if self._cs is None:
            self._cs = "(" + "+".join(sorted(_term_cs(t, {}) for t in self.terms)) + ")"
        return self._cs

    def __hash__(self):
        return hash(self.cs())

    def __eq__(self, o):
        return isinstance(o, E) and self.cs() == o.cs()

    def is_zero(self):
        return not self.terms

    def as_const(self):
        if not self.terms:
            return Fr(0)
        if len(self.terms) == 1 and not self.terms[0][1] and not self.terms[0][2]:
            return self.terms[0][0]
        return None

    def occurs(self, k):
        return any(any(_atom_occurs(a, k) for a, _p in f) for _c, _b, f in self.terms)

    def subst(self, m):
        if not m:
            return self
        out = []
        for c, b, f in self.terms:
            out.append((c, b, tuple((_atom_subst(a, m), p) for a, p in f)))
        return _norm(out)

    # ---- arithmetic
    def __add__(self, o):
        o = to_E(o)
        return _norm(list(self.terms) + list(o.terms))

    __radd__ = __add__

    def __neg__(self):
        return E(tuple((-c, b, f) for c, b, f in self.terms))

    def __sub__(self, o):
        return self + (-to_E(o))

    def __rsub__(self, o):
        return to_E(o) + (-self)

    def __mul__(self, o):
        o = to_E(o)
        out = []
        for c1, b1, f1 in self.terms:
            for t2 in o.terms:
                c2, b2, f2 = t2
                if b2 and (set(b2) & set(b1) or True):
                    c2, b2, f2 = _freshen(t2)
                out.append((c1 * c2, b1 + b2, f1 + f2))
        return _norm(out)

    __rmul__ = __mul__

    def __pow__(self, n):
        if not isinstance(n, int):
            raise Unmodelled("non-integer power")
        if n < 0:
            return fn("inv", self) ** (-n)
        r = ONE
        for _ in range(n):
            r = r * self
        return r

    def __truediv__(self, o):
        o = to_E(o)
        c = o.as_const()
        if c is not None:
            if c == 0:
                raise Unmodelled("division by the constant 0")
            return self * E.const(1 / c)
        return self * fn("inv", o)

    def __rtruediv__(self, o):
        return to_E(o) / self

    def __repr__(self):
        s = self.cs()
        return s if len(s) < 400 else s[:400] + "..."


def to_E(x):
    if isinstance(x, E):
        return x
    if isinstance(x, bool):
        return E.const(int(x))
    if isinstance(x, (int, Fr, np.integer)):
        return E.const(Fr(int(x)) if not isinstance(x, Fr) else x)
    if isinstance(x, (float, np.floating)):
        f = Fr(float(x))
        if f.denominator > 1 << 20:
            raise Unmodelled("float constant %r is not a small dyadic rational" % (x,))
        return E.const(f)
    if type(x).__name__ == "GScalar":
        return x.e
    if isinstance(x, astvc.SymInt):
        d = to_dim(x)
        return E.const(d) if isinstance(d, int) else E.atom(("dim", d.name))
    if isinstance(x, astvc.SymReal):
        e = z3.simplify(x.e)
        if z3.is_app(e) and e.decl().kind() == z3.Z3_OP_TO_REAL:
            return to_E(astvc.SymInt(e.arg(0)))
        if z3.is_rational_value(e):
            return E.const(Fr(e.numerator_as_long(), e.denominator_as_long()))
    raise Unmodelled("scalar of type %s in a symbolic-shape tensor expression" % type(x).__name__)


def _freshen(t):
    c, b, f = t
    m = {}
    for k in b:
        m[k] = fresh_ix(IXDIM[k])
    return c, tuple(m[k] for k in b), tuple((_atom_subst(a, m), p) for a, p in f)


def _norm(terms):
    """Normalise a list of raw terms into an E (merging like terms by canonical string)."""
    acc = {}
    work = list(terms)
    while work:
        c, b, f = work.pop()
        if c == 0:
            continue
        r = _norm_term(c, b, f)
        if isinstance(r, E):          # a rule expanded the term into a polynomial
            work.extend(r.terms)
            continue
        if r is None:
            continue
        key = _term_cs((Fr(1), r[1], r[2]), {})
        if key in acc:
            acc[key] = (acc[key][0] + r[0], acc[key][1], acc[key][2])
        else:
            acc[key] = r
    return E(tuple(t for t in acc.values() if t[0] != 0))


def _norm_term(c, bound, factors):
    # 1. merge equal atoms
    d = {}
    order = []
    for a, p in factors:
        if a not in d:
            order.append(a)
            d[a] = 0
        d[a] += p
    bound = list(bound)
    # 2. deltas
    changed = True
    while changed:
        changed = False
        for a in list(d):
            if a[0] != "dl" or d.get(a, 0) == 0:
                continue
            x, y = a[1], a[2]
            if d[a] < 0:
                raise Unmodelled("inverse of a Kronecker delta")
            if x == y:
                del d[a]
                changed = True
                break
            if isinstance(x, int) and isinstance(y, int):
                return None
            d[a] = 1
            for u, w in ((x, y), (y, x)):
                if isinstance(u, str) and u in bound:
                    # sum_u delta(u, w) f(u) = f(w)   (w ranges inside the dimension of u: same dimension or a constant)
                    dw = IXDIM[w] if isinstance(w, str) else None
                    du = IXDIM[u]
                    ok = (dw is not None and rep(dw) is rep(du)) or (dw is not None and rep(dw) == rep(du)) or \
                         (isinstance(w, int) and isinstance(rep(du), int) and 0 <= w < rep(du)) or \
                         (isinstance(w, int) and isinstance(rep(du), Dim) and 0 <= w < DIM_LB.get(rep(du).name, 1))
                    if not ok:
                        continue
                    del d[a]
                    bound.remove(u)
                    nf = [(_atom_subst(b_, {u: w}), p) for b_, p in d.items() if p]
                    return _norm([(c, tuple(bound), tuple(nf))])
    for a in list(d):
        if a[0] == "lt" and d.get(a, 0) > 1:
            d[a] = 1
    # products of deltas on the same variable with different constants vanish
    seen = {}
    for a in d:
        if a[0] == "dl" and d[a]:
            for u, w in ((a[1], a[2]), (a[2], a[1])):
                if isinstance(u, str) and isinstance(w, int):
                    if u in seen and seen[u] != w:
                        return None
                    seen[u] = w
    # 3. function-specific rules
    exps = [(a, p) for a, p in d.items() if a[0] == "fn" and a[1] == "exp" and p]
    if len(exps) > 1 or (len(exps) == 1 and exps[0][1] != 1):
        arg = ZERO
        for a, p in exps:
            arg = arg + a[2] * p
            del d[a]
        e = fn("exp", arg)
        rest = tuple((a, p) for a, p in d.items() if p)
        return E(((c, tuple(bound), rest),)) * e if rest or bound else e * E.const(c)
    for a, p in list(d.items()):
        if a[0] == "fn" and a[1] == "sqrt" and (p >= 2 or p <= -2):
            q, r = divmod(p, 2) if p > 0 else (-((-p) // 2), -((-p) % 2))
            del d[a]
            rest = tuple((x, y) for x, y in d.items() if y) + (((a, r),) if r else ())
            base = a[2] ** q if q > 0 else fn("inv", a[2]) ** (-q)
            return E(((c, tuple(bound), rest),)) * base
        if a[0] == "fn" and a[1] == "inv" and p < 0:
            del d[a]
            rest = tuple((x, y) for x, y in d.items() if y)
            return E(((c, tuple(bound), rest),)) * (a[2] ** (-p))
        if a[0] == "dim" and False:
            pass
    # 4. bound indices that no factor mentions: the size of the dimension
    for k in list(bound):
        if not any(_atom_occurs(a, k) for a, p in d.items() if p):
            bound.remove(k)
            dk = rep(IXDIM[k])
            if isinstance(dk, int):
                c = c * dk
            else:
                a = ("dim", dk.name)
                d[a] = d.get(a, 0) + 1
    if c == 0:
        return None
    f = tuple(sorted(((a, p) for a, p in d.items() if p), key=lambda ap: (_atom_cs(ap[0], {}), ap[1])))
    return (c, tuple(bound), f)


ZERO = E(())
ONE = E(((Fr(1), (), ()),))


LOOPVARS = {}     # z3 constant name of a loop counter -> index variable standing for it


class LoopBroken(Unmodelled):
    """A loop contract of front end G was not re-established by the body."""


def loop_bound(x, d):
    """Classify the position a loop invariant is stated at: 0, "END" (the whole dimension d), a loop-counter index variable,
    or ("succ", variable)."""
    if isinstance(x, int):
        return x
    e = z3.simplify(x.e)
    if z3.is_int_value(e):
        return e.as_long()
    dz = rep(d)
    if isinstance(dz, Dim) and e.eq(z3.simplify(dz.z)):
        return "END"
    if z3.is_const(e):
        return loop_var(e, d)
    if z3.is_add(e) and e.num_args() == 2:
        a, b = e.arg(0), e.arg(1)
        if z3.is_int_value(a) and a.as_long() == 1 and z3.is_const(b):
            return ("succ", loop_var(b, d))
        if z3.is_int_value(b) and b.as_long() == 1 and z3.is_const(a):
            return ("succ", loop_var(a, d))
    if isinstance(dz, Dim) and not astvc.VC.cur()._sat(e != dz.z):
        return "END"          # equal to the dimension's size under the path condition (e.g. max(n, 0) with n >= 1)
    if not astvc.VC.cur()._sat(e != 0):
        return 0
    raise Unmodelled("loop position %s" % e)


def loop_var(e, d):
    nm = e.decl().name()
    k = LOOPVARS.get(nm)
    if k is None:
        k = LOOPVARS[nm] = "L%d" % next(_cnt)
        IXDIM[k] = rep(d)
    return k


def below(k, bound):
    """[k < bound] as a scalar expression: 0 at the loop entry, 1 once the loop is over, and
    [k < i+1] = [k < i] + delta(k, i) in between."""
    if bound == 0:
        return ZERO
    if bound == "END":
        return ONE
    if isinstance(bound, int):
        return sum((delta(k, c) for c in range(bound)), ZERO)
    if isinstance(bound, tuple):
        return below(k, bound[1]) + delta(k, bound[1])
    return E.atom(("lt", k, bound))


def partial_sum(d, bound, f):
    """sum over k in dimension d with k < bound of f(k)."""
    k = fresh_ix(d)
    return esum(below(k, bound) * to_E(f(k)), k)


def el(name, *ix):
    return E.atom(("el", name) + tuple(ix))


def delta(a, b):
    return E.atom(("dl", a, b))


def _single_atom(e):
    """(coef, atom, power) if e is a single monomial made of one atom without bound indices."""
    if len(e.terms) == 1 and not e.terms[0][1] and len(e.terms[0][2]) == 1:
        c, _b, ((a, p),) = e.terms[0]
        return c, a, p
    return None


def fn(name, *args):
    args = tuple(to_E(a) for a in args)
    x = args[0]
    c = x.as_const()
    if name == "exp":
        if x.is_zero():
            return ONE
        sa = _single_atom(x)
        if sa and sa[1][0] == "fn" and sa[1][1] == "log" and sa[2] == 1 and sa[0].denominator == 1:
            return sa[1][2] ** int(sa[0])
    elif name == "log":
        if c == 1:
            return ZERO
        sa = _single_atom(x)
        if sa and sa[0] == 1 and sa[1][0] == "fn" and sa[1][1] == "exp" and sa[2] == 1:
            return sa[1][2]
        if sa and sa[0] == 1 and sa[1][0] == "fn" and sa[1][1] == "sqrt" and sa[2] == 1:
            return fn("log", sa[1][2]) / 2
    elif name == "inv":
        if c is not None:
            if c == 0:
                raise Unmodelled("1/0")
            return E.const(1 / c)
        if len(x.terms) == 1 and not x.terms[0][1]:
            # inverse of a monomial: invert every factor
            cc, _b, f = x.terms[0]
            out = E.const(1 / cc)
            for a, p in f:
                if a[0] == "fn" and a[1] == "inv":
                    out = out * (a[2] ** p)
                elif a[0] == "fn" and a[1] == "exp":
                    out = out * fn("exp", -a[2] * p)
                elif a[0] == "dl":
                    raise Unmodelled("inverse of a Kronecker delta")
                else:
                    out = out * E(((Fr(1), (), ((a, -p),)),))     # x * x^-1 = 1 away from x = 0 (recorded assumption)
                    ASSUMED.add("cancellation x * (1/x) = 1 for tensor elements assumes x != 0")
            return out
    elif name == "sqrt":
        sa = _single_atom(x)
        if sa and sa[2] == 1 and sa[1][0] == "fn" and sa[1][1] == "exp" and sa[0] > 0:
            return fn("sqrt", E.const(sa[0])) * fn("exp", sa[1][2] / 2)
        if c is not None and c >= 0:
            n, dn = c.numerator, c.denominator
            rn, rd = math.isqrt(n), math.isqrt(dn)
            if rn * rn == n and rd * rd == dn:
                return E.const(Fr(rn, rd))
    elif name in ("cos",) and x.is_zero():
        return ONE
    elif name in ("sin", "tanh", "atan", "tan") and x.is_zero():
        return ZERO
    elif name == "clamp01":
        sa = _single_atom(x)
        if sa and sa[0] == 1 and sa[2] == 1 and sa[1][0] == "fn" and sa[1][1] == "sigmoid":
            return x                      # 0 < sigmoid < 1
        if c is not None:
            return E.const(min(max(c, 0), 1))
    elif name == "abs" and c is not None:
        return E.const(abs(c))
    return E(((Fr(1), (), ((("fn", name) + args, 1),)),))


def esum(e, k):
    """sum over the index variable k (over its whole dimension)."""
    d = rep(IXDIM[k])
    if isinstance(d, int):
        out = ZERO
        for cidx in range(d):
            out = out + e.subst({k: cidx})
        return out
    return _norm([(c, b + (k,), f) for c, b, f in e.terms])


def sum_over(d, f):
    """spec helper: sum_{k in d} f(k)"""
    k = fresh_ix(d)
    return esum(to_E(f(k)), k)


# ---- numeric evaluation (witness search, replay) -------------------------------------------------------------------
_FN = {
    "exp": math.exp, "log": math.log, "sqrt": math.sqrt, "cos": math.cos, "sin": math.sin, "abs": abs,
    "softplus": lambda x: math.log1p(math.exp(-abs(x))) + max(x, 0.0),
    "sigmoid": lambda x: 1 / (1 + math.exp(-x)), "inv": lambda x: 1 / x, "atan2": math.atan2,
    "clamp01": lambda x: min(max(x, 0.0), 1.0), "tanh": math.tanh, "tan": math.tan, "atan": math.atan,
    "sign": lambda x: (x > 0) - (x < 0),
}


def ev(e, sizes, tensors, ixenv):
    tot = 0.0
    for c, b, f in e.terms:
        rngs = []
        for k in b:
            d = rep(IXDIM[k])
            rngs.append(range(d if isinstance(d, int) else sizes[d.name]))
        for combo in itertools.product(*rngs):
            env = dict(ixenv)
            env.update(zip(b, combo))
            v = float(c)
            for a, p in f:
                v *= _ev_atom(a, sizes, tensors, env) ** p
                if v == 0.0:
                    break
            tot += v
    return tot


def _ev_atom(a, sizes, tensors, env):
    if a[0] == "el":
        idx = tuple(_ix_val(i, env, sizes) for i in a[2:])
        return float(tensors[a[1]][idx])
    if a[0] == "dl":
        x = _ix_val(a[1], env, sizes)
        y = _ix_val(a[2], env, sizes)
        return 1.0 if x == y else 0.0
    if a[0] == "dim":
        return float(sizes[a[1]])
    if a[0] == "lt":
        return 1.0 if _ix_val(a[1], env, sizes) < env[a[2]] else 0.0
    return _FN[a[1]](*(ev(x, sizes, tensors, env) for x in a[2:]))


# --------------------------------------------------------------------------------------------------------------------
# values and tensors
# --------------------------------------------------------------------------------------------------------------------
class Val:
    __slots__ = ("shape", "ix", "body")

    def __init__(self, shape, ix, body):
        self.shape = tuple(rep(d) for d in shape)
        self.ix = tuple(ix)
        self.body = body

    def at(self, *ixs):
        if len(ixs) != len(self.ix):
            raise Unmodelled("element access with %d indices into a %d-d value" % (len(ixs), len(self.ix)))
        return self.body.subst(dict(zip(self.ix, ixs)))

    __call__ = at

    @property
    def ndim(self):
        return len(self.shape)


def build(shape, f):
    """spec helper: the tensor of the given shape whose element [i0, i1, ...] is f(i0, i1, ...)."""
    shape = tuple(to_dim(s) if not isinstance(s, (Dim, int)) else s for s in shape)
    ix = tuple(fresh_ix(d) for d in shape)
    return Val(shape, ix, to_E(f(*ix)))


def named(name, shape):
    """An input tensor: element [i...] is the atom name[i...]."""
    return build(shape, lambda *ix: el(name, *ix))


ASSUMED = set()
FRAME_WRITES = []     # (owner, primitive): in-place writes into tensors the contract says are read-only
PRIMS_USED = {}
INPUTS = {}           # name -> (shape, domain) of the named inputs of the current run (for witness search)


class GT(torch.Tensor):
    @staticmethod
    def __new__(cls, val=None, parent=None, op=None, owner=None, frozen=False):
        t = torch.Tensor._make_wrapper_subclass(cls, (0,), dtype=torch.double, device="cpu")
        t._val = val
        t._parent = parent
        t._op = op
        t._owner = owner
        t._frozen = frozen
        t._ver = 0
        return t

    def __init__(self, *a, **k):
        pass

    @classmethod
    def __torch_dispatch__(cls, func, types, args=(), kwargs=None):
        raise Unmodelled("aten-level call reached a symbolic-shape tensor: %s" % func)

    @classmethod
    def __torch_function__(cls, func, types, args=(), kwargs=None):
        kwargs = kwargs or {}
        name = getattr(func, "__name__", None) or str(func)
        if name == "__get__":
            return _getter(func, args)
        if name == "__set__":
            pname = getattr(func.__self__, "__name__", None)
            if pname == "requires_grad":
                return None
            if pname == "data":
                write(args[0], val_of(args[1]), "data.setter")
                return None
            raise Unmodelled("tensor property setter without contract (symbolic shape): %s" % pname)
        h = H.get(name)
        if h is None:
            raise Unmodelled("torch primitive without symbolic-shape contract: %s" % name)
        PRIMS_USED[name] = PRIMS_USED.get(name, 0) + 1
        return h(*args, **kwargs)

    def __repr__(self):
        return "GT(shape=%s)" % (val_of(self).shape,)

    __str__ = __repr__

    def __format__(self, spec):
        return repr(self)

    def __len__(self):
        return self.sym_len()       # an int for a concrete leading dimension; python's len() rejects a symbolic one

    def sym_len(self):              # what the sandbox's len() uses
        v = val_of(self)
        if not v.shape:
            raise TypeError("len() of a 0-d tensor")
        return size_obj(v.shape[0])

    def __bool__(self):
        raise Unmodelled("truth value of a symbolic-shape tensor")

    def __iter__(self):
        v = val_of(self)
        if not v.shape or not isinstance(v.shape[0], int):
            raise Unmodelled("iteration over a dimension of symbolic size")
        return iter([_select(self, 0, i) for i in range(v.shape[0])])


class GShape(tuple):
    """What .shape / .size() return: a tuple of ints and SymInts."""

    def numel(self):
        r = 1
        for s in self:
            r = r * s
        return r


def _getter(func, args):
    pname = getattr(func.__self__, "__name__", None)
    self = args[0]
    if pname == "data":
        return GT(parent=self, op=("id",))
    if pname == "shape":
        return GShape(size_obj(d) for d in val_of(self).shape)
    if pname == "ndim":
        return val_of(self).ndim
    if pname in ("dtype", "device", "requires_grad", "is_cuda", "layout", "is_leaf", "grad_fn", "is_sparse",
                 "is_quantized", "is_meta", "is_cpu", "is_complex"):
        with torch._C.DisableTorchFunctionSubclass():
            return func(*args)
    if pname == "T":
        v = val_of(self)
        return _permute(self, tuple(reversed(range(v.ndim))))
    if pname == "real":
        return self
    if pname == "grad":
        return None
    if pname == "_version":
        r = self
        while r._parent is not None:
            r = r._parent
        return r._ver
    raise Unmodelled("tensor property without contract (symbolic shape): %s" % pname)


def val_of(t):
    """Current value of a tensor (views read through to their base)."""
    if isinstance(t, Val):
        return t
    if isinstance(t, GT):
        if t._parent is None:
            return t._val
        return _read(val_of(t._parent), t._op)
    if isinstance(t, torch.Tensor):
        return from_concrete(t)
    if isinstance(t, GScalar):
        return Val((), (), t.e)
    if isinstance(t, (int, float, Fr, np.integer, np.floating, astvc.SymInt, astvc.SymReal, E)):
        return Val((), (), to_E(t))
    raise Unmodelled("operand of type %s" % type(t).__name__)


def from_concrete(t):
    with torch._C.DisableTorchFunctionSubclass():
        a = t.detach().cpu().numpy()
    if a.size > 64:
        raise Unmodelled("large concrete tensor mixed into a symbolic-shape computation")
    shape = tuple(int(s) for s in a.shape)
    ix = tuple(fresh_ix(d) for d in shape)
    body = ZERO
    for idx in np.ndindex(*shape):
        x = a[idx]
        if x != 0:
            t_ = to_E(x.item())
            for k, c in zip(ix, idx):
                t_ = t_ * delta(k, c)
            body = body + t_
    return Val(shape, ix, body)


def _read(pv, op):
    k = op[0]
    if k == "id":
        return pv
    if k == "select":
        d, c = op[1], op[2]
        return Val(pv.shape[:d] + pv.shape[d + 1:], pv.ix[:d] + pv.ix[d + 1:], pv.body.subst({pv.ix[d]: c}))
    if k == "permute":
        pm = op[1]
        return Val(tuple(pv.shape[i] for i in pm), tuple(pv.ix[i] for i in pm), pv.body)
    if k == "unsqueeze":
        d = op[1]
        return Val(pv.shape[:d] + (1,) + pv.shape[d:], pv.ix[:d] + (fresh_ix(1),) + pv.ix[d:], pv.body)
    if k == "squeeze":
        d = op[1]
        return Val(pv.shape[:d] + pv.shape[d + 1:], pv.ix[:d] + pv.ix[d + 1:], pv.body.subst({pv.ix[d]: 0}))
    if k == "expand":
        # view with broadcast dimensions: element does not depend on the expanded index
        newshape = op[1]
        lead = len(newshape) - pv.ndim
        ix = tuple(fresh_ix(d) for d in newshape)
        m = {}
        for j, d in enumerate(pv.shape):
            m[pv.ix[j]] = 0 if (d == 1 and newshape[lead + j] != 1) else ix[lead + j]
        return Val(newshape, ix, pv.body.subst(m))
    raise Unmodelled("view kind %s" % k)


def _write_back(pv, op, nv):
    """New value of the base after the view described by op received value nv."""
    k = op[0]
    if k == "id":
        return Val(pv.shape, nv.ix, nv.body)
    if k == "select":
        d, c = op[1], op[2]
        ixd = fresh_ix(pv.shape[d])
        ix = nv.ix[:d] + (ixd,) + nv.ix[d:]
        old = pv.at(*ix)
        dl = delta(ixd, c)
        return Val(pv.shape, ix, dl * nv.body + (ONE - dl) * old)
    if k == "permute":
        pm = op[1]
        inv = [0] * len(pm)
        for i, p in enumerate(pm):
            inv[p] = i
        return Val(pv.shape, tuple(nv.ix[i] for i in inv), nv.body)
    if k == "unsqueeze":
        d = op[1]
        return Val(pv.shape, nv.ix[:d] + nv.ix[d + 1:], nv.body.subst({nv.ix[d]: 0}))
    if k == "squeeze":
        d = op[1]
        return Val(pv.shape, nv.ix[:d] + (fresh_ix(1),) + nv.ix[d:], nv.body)
    raise Unmodelled("in-place write through a view of kind %s" % k)


def write(t, nv, prim):
    """In-place overwrite of t's elements with nv (same shape), written through to the base of a view."""
    if not isinstance(t, GT):
        raise Unmodelled("in-place write of symbolic-shape values into a concrete tensor (%s)" % prim)
    if t._parent is None:
        if t._frozen:
            FRAME_WRITES.append((t._owner, prim))
        t._val = nv
        t._ver += 1
        return t
    write(t._parent, _write_back(val_of(t._parent), t._op, nv), prim)
    return t


def new(v):
    return GT(val=v)


def inp(name, shape, owner=None, frozen=True, domain="real"):
    """A named input tensor of the given (symbolic) shape; frozen inputs log every in-place write."""
    shape = tuple(dim(s) if isinstance(s, str) else s for s in shape)
    INPUTS[name] = (shape, domain)
    return GT(val=named(name, shape), owner=owner or name, frozen=frozen)


# ---- broadcasting / elementwise ------------------------------------------------------------------------------------
def _bshape(shapes):
    n = max(len(s) for s in shapes)
    out = []
    for j in range(n):
        cur = 1
        for s in shapes:
            i = j - (n - len(s))
            if i < 0:
                continue
            d = rep(s[i])
            if cur == 1 and not (isinstance(d, int) and d == 1):
                if isinstance(d, Dim) and isinstance(cur, int):
                    cur = d
                else:
                    cur = d
            elif isinstance(d, int) and d == 1:
                pass
            elif same_dim(cur, d):
                cur = rep(cur)
            else:
                # a symbolic size could still be 1
                vc = astvc.VC.cur()
                if isinstance(d, Dim) and vc.decide(d.z == 1):
                    REP[d.name] = 1
                elif isinstance(cur, Dim) and vc.decide(cur.z == 1):
                    REP[cur.name] = 1
                    cur = d
                else:
                    raise TorchRuntimeError("The size of tensor a (%s) must match the size of tensor b (%s)" % (cur, d))
        out.append(cur)
    return tuple(out)


def ewise(f, *ops):
    vals = [val_of(o) for o in ops]
    shape = _bshape([v.shape for v in vals])
    ix = tuple(fresh_ix(d) for d in shape)
    elems = []
    for v in vals:
        off = len(shape) - v.ndim
        its = []
        for j, d in enumerate(v.shape):
            d = rep(d)
            its.append(0 if (isinstance(d, int) and d == 1) else ix[off + j])
        elems.append(v.at(*its))
    return Val(shape, ix, to_E(f(*elems)))


H = {}


def reg(*names):
    def deco(f):
        for n in names:
            H[n] = f
        return f
    return deco


def _out(v, out, prim):
    if out is None:
        return new(v)
    ov = val_of(out)
    if ov.ndim != v.ndim or not all(same_dim(a, b) for a, b in zip(ov.shape, v.shape)):
        raise Unmodelled("out= buffer of another shape (%s)" % prim)
    write(out, v, prim)
    return out


def _binop(name, f):
    @reg(name, "__%s__" % name)
    def h(a, b, *, alpha=1, out=None):
        if alpha != 1:
            return _out(ewise(lambda x, y: f(x, to_E(alpha) * y), a, b), out, name)
        return _out(ewise(f, a, b), out, name)

    @reg(name + "_", "__i%s__" % name)
    def hi(a, b, *, alpha=1):
        r = ewise((lambda x, y: f(x, to_E(alpha) * y)) if alpha != 1 else f, a, b)
        av = val_of(a)
        if r.ndim != av.ndim or not all(same_dim(p, q) for p, q in zip(r.shape, av.shape)):
            raise TorchRuntimeError("output with shape %s doesn't match the broadcast shape %s" % (av.shape, r.shape))
        return write(a, r, name + "_")

    @reg("__r%s__" % name)
    def hr(a, b):
        return new(ewise(lambda x, y: f(y, x), a, b))
    return h


_binop("add", lambda x, y: x + y)
_binop("sub", lambda x, y: x - y)
_binop("mul", lambda x, y: x * y)
_binop("div", lambda x, y: x / y)
H["true_divide"] = H["div"]
H["__truediv__"] = H["div"]
H["__rtruediv__"] = H["__rdiv__"]
H["__itruediv__"] = H["div_"]
H["rsub"] = H["__rsub__"]
H["multiply"] = H["mul"]
H["subtract"] = H["sub"]
H["divide"] = H["div"]


def _unop(name, f, *alias):
    @reg(name, *alias)
    def h(a, out=None, **kw):
        return _out(ewise(f, a), out, name)

    @reg(name + "_")
    def hi(a):
        return write(a, ewise(f, a), name + "_")
    return h


_unop("neg", lambda x: -x, "__neg__", "negative")
_unop("exp", lambda x: fn("exp", x))
_unop("log", lambda x: fn("log", x))
_unop("sqrt", lambda x: fn("sqrt", x))
_unop("cos", lambda x: fn("cos", x))
_unop("sin", lambda x: fn("sin", x))
_unop("abs", lambda x: fn("abs", x), "absolute", "__abs__")
_unop("sigmoid", lambda x: fn("sigmoid", x))
_unop("reciprocal", lambda x: fn("inv", x))
_unop("tanh", lambda x: fn("tanh", x))
_unop("tan", lambda x: fn("tan", x))
_unop("atan", lambda x: fn("atan", x), "arctan")
_unop("sign", lambda x: fn("sign", x), "sgn")
_unop("log1p", lambda x: fn("log", 1 + x))
_unop("expm1", lambda x: fn("exp", x) - 1)


@reg("softplus")
def _softplus(a, beta=1, threshold=20):
    if beta != 1:
        raise Unmodelled("softplus with beta != 1")
    return new(ewise(lambda x: fn("softplus", x), a))


@reg("atan2", "arctan2")
def _atan2(a, b, out=None):
    return _out(ewise(lambda y, x: fn("atan2", y, x), a, b), out, "atan2")


@reg("addcmul")
def _addcmul(a, t1, t2, *, value=1, out=None):
    return _out(ewise(lambda x, y, z: x + to_E(value) * y * z, a, t1, t2), out, "addcmul")


@reg("addcmul_")
def _addcmul_i(a, t1, t2, *, value=1):
    return write(a, ewise(lambda x, y, z: x + to_E(value) * y * z, a, t1, t2), "addcmul_")


@reg("pow", "__pow__")
def _pow(a, n):
    if isinstance(n, float) and n == int(n):
        n = int(n)
    if n == 0.5:
        return new(ewise(lambda x: fn("sqrt", x), a))
    if not isinstance(n, int):
        raise Unmodelled("power with a non-integer exponent")
    return new(ewise(lambda x: x ** n, a))


@reg("pow_", "__ipow__")
def _pow_i(a, n):
    return write(a, val_of(_pow(a, n)), "pow_")


@reg("square")
def _square(a):
    return new(ewise(lambda x: x * x, a))


def _clamp(a, min=None, max=None):
    if min == 0 and max == 1:
        return ewise(lambda x: fn("clamp01", x), a)
    if min is not None and max is not None and 0 < min <= 1e-6 and 1 - 1e-6 <= max < 1:
        # clamp_probs of torch.distributions: floats as reals, the machine-epsilon clamp is invisible (recorded)
        ASSUMED.add("probabilities are clamped to [eps, 1-eps] before log (torch.distributions.utils.clamp_probs): treated as the identity")
        return val_of(a)
    raise Unmodelled("clamp with bounds other than [0, 1]")


@reg("clamp")
def _clamp_h(a, min=None, max=None, out=None):
    return _out(_clamp(a, min, max), out, "clamp")


@reg("clamp_")
def _clamp_i(a, min=None, max=None):
    return write(a, _clamp(a, min, max), "clamp_")


# ---- contractions --------------------------------------------------------------------------------------------------
def _contract(av, bv, ia, ib):
    """sum over av's axis ia and bv's axis ib (which must have equal size); other axes: av's then bv's."""
    if not same_dim(av.shape[ia], bv.shape[ib]):
        raise TorchRuntimeError("size mismatch in a contraction: %s vs %s" % (av.shape[ia], bv.shape[ib]))
    k = fresh_ix(av.shape[ia])
    sa = av.shape[:ia] + av.shape[ia + 1:]
    sb = bv.shape[:ib] + bv.shape[ib + 1:]
    xa = tuple(fresh_ix(d) for d in sa)
    xb = tuple(fresh_ix(d) for d in sb)
    ea = av.at(*(xa[:ia] + (k,) + xa[ia:]))
    eb = bv.at(*(xb[:ib] + (k,) + xb[ib:]))
    return Val(sa + sb, xa + xb, esum(ea * eb, k))


@reg("matmul", "__matmul__", "mm", "mv", "dot", "inner")
def _matmul(a, b, out=None):
    av, bv = val_of(a), val_of(b)
    if av.ndim == 0 or bv.ndim == 0:
        raise TorchRuntimeError("both arguments to matmul need to be at least 1D")
    if bv.ndim <= 2 and av.ndim >= 1:
        # (..., n) @ (n,) ; (..., n) @ (n, m)
        r = _contract(av, bv, av.ndim - 1, 0)
        return _out(r, out, "matmul")
    if av.ndim == 1:
        r = _contract(av, bv, 0, bv.ndim - 2)          # (n,) @ (..., n, m): axes of b keep their order
        return _out(r, out, "matmul")
    if av.ndim == 2 and bv.ndim > 2:
        raise Unmodelled("matmul of a matrix with a batch of matrices")
    # batched: (..., p, n) @ (..., n, m) with broadcast batch dims
    nb = max(av.ndim, bv.ndim) - 2
    ba, bb = av.shape[:-2], bv.shape[:-2]
    bshape = _bshape([ba, bb])
    bix = tuple(fresh_ix(d) for d in bshape)
    if not same_dim(av.shape[-1], bv.shape[-2]):
        raise TorchRuntimeError("size mismatch in matmul")
    k = fresh_ix(av.shape[-1])
    i, j = fresh_ix(av.shape[-2]), fresh_ix(bv.shape[-1])

    def idx(v, bsh):
        off = nb - len(bsh)
        return tuple(0 if (isinstance(rep(d), int) and rep(d) == 1) else bix[off + q] for q, d in enumerate(bsh))
    ea = av.at(*(idx(av, ba) + (i, k)))
    eb = bv.at(*(idx(bv, bb) + (k, j)))
    return _out(Val(bshape + (av.shape[-2], bv.shape[-1]), bix + (i, j), esum(ea * eb, k)), out, "matmul")


@reg("linear")
def _linear(x, w, b=None):
    xv, wv = val_of(x), val_of(w)
    r = _contract(xv, wv, xv.ndim - 1, 1)
    if b is not None:
        r = ewise(lambda p, q: p + q, r, b)
    return new(r)


@reg("ger", "outer")
def _ger(a, b, out=None):
    av, bv = val_of(a), val_of(b)
    if av.ndim != 1 or bv.ndim != 1:
        raise TorchRuntimeError("outer: expected 1-D tensors")
    i, j = fresh_ix(av.shape[0]), fresh_ix(bv.shape[0])
    return _out(Val(av.shape + bv.shape, (i, j), av.at(i) * bv.at(j)), out, "ger")


@reg("einsum")
def _einsum(eq, *ops):
    if len(ops) == 1 and isinstance(ops[0], (list, tuple)):
        ops = tuple(ops[0])
    eq = eq.replace(" ", "")
    lhs, rhs = eq.split("->") if "->" in eq else (eq, None)
    specs = lhs.split(",")
    vals = [val_of(o) for o in ops]
    if len(specs) != len(vals):
        raise TorchRuntimeError("einsum: operand count")
    lab = {}            # label -> (dim, ix)
    ell = None          # ellipsis dims (shape, ix), broadcast
    per_op = []
    nell = 0
    for s, v in zip(specs, vals):
        if "..." in s:
            pre, post = s.split("...")
            ne = v.ndim - len(pre) - len(post)
            if ne < 0:
                raise TorchRuntimeError("einsum: too few dimensions")
            nell = max(nell, ne)
            per_op.append((pre, ne, post))
        else:
            if len(s) != v.ndim:
                raise TorchRuntimeError("einsum: subscripts do not match the operand's dimensions")
            per_op.append((s, 0, ""))
    ellshapes = [v.shape[len(pre):len(pre) + ne] for (pre, ne, post), v in zip(per_op, vals) if ne or True]
    ellshape = _bshape([v.shape[len(pre):len(pre) + ne] for (pre, ne, post), v in zip(per_op, vals)]) if nell else ()
    ellix = tuple(fresh_ix(d) for d in ellshape)
    elems = []
    for (pre, ne, post), v in zip(per_op, vals):
        its = []
        labels = list(pre) + [None] * ne + list(post)
        for pos, (l, d) in enumerate(zip(labels, v.shape)):
            if l is None:
                q = pos - len(pre)
                j = nell - ne + q
                its.append(0 if (isinstance(rep(d), int) and rep(d) == 1 and ellshape[j] != 1) else ellix[j])
            else:
                if l in lab:
                    if not same_dim(lab[l][0], d):
                        raise TorchRuntimeError("einsum: size mismatch for subscript %s" % l)
                else:
                    lab[l] = (d, fresh_ix(d))
                its.append(lab[l][1])
        elems.append(v.at(*its))
    body = ONE
    for e in elems:
        body = body * e
    if rhs is None:
        counts = {}
        for s in specs:
            for ch in s.replace("...", ""):
                counts[ch] = counts.get(ch, 0) + 1
        rhs = ("..." if nell else "") + "".join(sorted(ch for ch, n in counts.items() if n == 1))
    outl = rhs.replace("...", "")
    for l in lab:
        if l not in outl:
            body = esum(body, lab[l][1])
    if "..." in rhs:
        pre, post = rhs.split("...")
        shape = tuple(lab[l][0] for l in pre) + ellshape + tuple(lab[l][0] for l in post)
        ix = tuple(lab[l][1] for l in pre) + ellix + tuple(lab[l][1] for l in post)
    else:
        for k in ellix:
            body = esum(body, k)
        shape = tuple(lab[l][0] for l in rhs)
        ix = tuple(lab[l][1] for l in rhs)
    if len(set(ix)) != len(ix):
        raise Unmodelled("einsum with a repeated output subscript")
    return new(Val(shape, ix, body))


def _axes(v, dim):
    if dim is None:
        return list(range(v.ndim))
    if isinstance(dim, (list, tuple)):
        return sorted(d % v.ndim for d in dim)
    return [dim % v.ndim] if v.ndim else [0]


@reg("sum")
def _sum(a, dim=None, keepdim=False, *, dtype=None, out=None):
    v = val_of(a)
    axes = _axes(v, dim)
    body = v.body
    for ax in axes:
        body = esum(body, v.ix[ax])
    if keepdim:
        shape = tuple(1 if i in axes else d for i, d in enumerate(v.shape))
        ix = tuple(fresh_ix(1) if i in axes else k for i, k in enumerate(v.ix))
    else:
        shape = tuple(d for i, d in enumerate(v.shape) if i not in axes)
        ix = tuple(k for i, k in enumerate(v.ix) if i not in axes)
    return _out(Val(shape, ix, body), out, "sum")


@reg("mean")
def _mean(a, dim=None, keepdim=False, *, dtype=None, out=None):
    v = val_of(a)
    axes = _axes(v, dim)
    s = val_of(_sum(a, dim, keepdim))
    n = ONE
    for ax in axes:
        n = n * to_E(size_obj(v.shape[ax]))
    return _out(Val(s.shape, s.ix, s.body / n), out, "mean")


@reg("logsumexp")
def _logsumexp(a, dim, keepdim=False, *, out=None):
    v = val_of(a)
    axes = _axes(v, dim)
    body = fn("exp", v.body)
    for ax in axes:
        body = esum(body, v.ix[ax])
    shape = tuple(d for i, d in enumerate(v.shape) if i not in axes)
    ix = tuple(k for i, k in enumerate(v.ix) if i not in axes)
    return _out(Val(shape, ix, fn("log", body)), out, "logsumexp")


# ---- views / shape manipulation ------------------------------------------------------------------------------------
def _view(t, op):
    if not isinstance(t, GT):
        t = new(val_of(t))
    return GT(parent=t, op=op)


def _select(t, d, c):
    v = val_of(t)
    d = d % v.ndim
    n = rep(v.shape[d])
    if isinstance(c, astvc.SymInt):
        e = z3.simplify(c.e)
        if z3.is_int_value(e):
            c = e.as_long()
        elif z3.is_const(e) and isinstance(n, Dim):
            # a loop counter ranging over this dimension (the loop contract assumes 0 <= i < n)
            return _view(t, ("select", d, loop_var(e, n)))
        else:
            raise Unmodelled("indexing with a symbolic integer expression")
    c = int(c)
    if isinstance(n, int):
        if not -n <= c < n:
            raise TorchIndexError("index %d is out of bounds for dimension %d with size %d" % (c, d, n))
        c %= n
    elif c < 0:
        raise Unmodelled("negative index into a dimension of symbolic size")
    elif c >= DIM_LB.get(n.name, 1):
        vc = astvc.VC.cur()
        if not vc.decide(n.z > c):
            raise TorchIndexError("index %d is out of bounds for dimension %d with size %s" % (c, d, n))
    return _view(t, ("select", d, c))


def _permute(t, pm):
    return _view(t, ("permute", tuple(pm)))


@reg("select")
def _select_h(t, dim, index):
    return _select(t, dim, index)


@reg("transpose", "swapaxes")
def _transpose(t, d0, d1):
    n = val_of(t).ndim
    pm = list(range(n))
    d0, d1 = d0 % n, d1 % n
    pm[d0], pm[d1] = pm[d1], pm[d0]
    return _permute(t, pm)


@reg("t")
def _t(t):
    n = val_of(t).ndim
    if n > 2:
        raise TorchRuntimeError("t() expects a tensor with <= 2 dimensions")
    return _permute(t, tuple(reversed(range(n))))


@reg("permute")
def _permute_h(t, *dims):
    if len(dims) == 1 and isinstance(dims[0], (list, tuple)):
        dims = tuple(dims[0])
    n = val_of(t).ndim
    return _permute(t, tuple(d % n for d in dims))


@reg("unsqueeze")
def _unsqueeze(t, d):
    n = val_of(t).ndim
    return _view(t, ("unsqueeze", d % (n + 1)))


@reg("squeeze")
def _squeeze(t, d=None):
    v = val_of(t)
    if d is None:
        r = t
        for ax in reversed(range(v.ndim)):
            if _is_one(v.shape[ax]):
                r = _view(r, ("squeeze", ax))
        return r
    d = d % v.ndim if v.ndim else 0
    if v.ndim and _is_one(v.shape[d]):
        return _view(t, ("squeeze", d))
    return _view(t, ("id",))


def _is_one(d):
    d = rep(d)
    if isinstance(d, int):
        return d == 1
    vc = astvc.VC.cur()
    if vc.decide(d.z == 1):
        REP[d.name] = 1
        return True
    return False


def _reshape_self(t, op):
    """In-place shape change (unsqueeze_/squeeze_): t itself becomes the view of its former self."""
    if not isinstance(t, GT):
        raise Unmodelled("in-place shape change of a concrete tensor")
    old = GT(val=t._val, parent=t._parent, op=t._op, owner=t._owner, frozen=t._frozen)
    t._val, t._parent, t._op, t._owner, t._frozen = None, old, op, None, False
    return t


@reg("unsqueeze_")
def _unsqueeze_i(t, d):
    n = val_of(t).ndim
    return _reshape_self(t, ("unsqueeze", d % (n + 1)))


@reg("squeeze_")
def _squeeze_i(t, d=None):
    v = val_of(t)
    if d is None:
        for ax in reversed(range(v.ndim)):
            if _is_one(val_of(t).shape[ax]):
                _reshape_self(t, ("squeeze", ax))
        return t
    if v.ndim and _is_one(v.shape[d % v.ndim]):
        return _reshape_self(t, ("squeeze", d % v.ndim))
    return t


@reg("expand")
def _expand(t, *sizes):
    if len(sizes) == 1 and isinstance(sizes[0], (list, tuple)):
        sizes = tuple(sizes[0])
    v = val_of(t)
    lead = len(sizes) - v.ndim
    if lead < 0:
        raise TorchRuntimeError("expand: fewer sizes than dimensions")
    shape = []
    for j, s in enumerate(sizes):
        if isinstance(s, int) and s == -1:
            if j < lead:
                raise TorchRuntimeError("expand: -1 not allowed in a leading, non-existing dimension")
            shape.append(v.shape[j - lead])
        else:
            d = to_dim(s)
            if j >= lead and not _is_one_static(v.shape[j - lead]) and not same_dim(v.shape[j - lead], d):
                raise TorchRuntimeError("expand: size mismatch")
            shape.append(d)
    return _view(t, ("expand", tuple(shape)))


def _is_one_static(d):
    d = rep(d)
    return isinstance(d, int) and d == 1


@reg("roll")
def _roll(t, shifts, dims=None):
    v = val_of(t)
    if dims is None:
        raise Unmodelled("roll of the flattened tensor")
    if isinstance(shifts, (tuple, list)):
        if len(shifts) != 1:
            raise Unmodelled("roll along several dimensions")
        shifts, dims = shifts[0], (dims[0] if isinstance(dims, (tuple, list)) else dims)
    ax = dims % v.ndim
    dsz = rep(v.shape[ax])
    k = fresh_ix(dsz)
    if isinstance(dsz, int):
        # element [j] of the result is element [(j - shifts) mod n]: written with deltas for a concrete size
        body = ZERO
        for j in range(dsz):
            body = body + delta(k, j) * v.body.subst({v.ix[ax]: (j - shifts) % dsz})
    else:
        body = v.body.subst({v.ix[ax]: ("sh", k, int(shifts), dsz.name)})
    return new(Val(v.shape, v.ix[:ax] + (k,) + v.ix[ax + 1:], body))


def _int_list(k):
    if isinstance(k, (list, tuple)) and k and all(isinstance(x, (int, np.integer)) and not isinstance(x, bool) for x in k):
        return [int(x) for x in k]
    if isinstance(k, np.ndarray) and k.dtype.kind in "iu" and k.ndim == 1:
        return [int(x) for x in k.tolist()]
    if isinstance(k, torch.Tensor) and not isinstance(k, GT) and k.dtype in (torch.long, torch.int) and k.dim() == 1:
        return [int(x) for x in k.tolist()]
    return None


@reg("__getitem__")
def _getitem(t, key):
    if not isinstance(key, tuple):
        key = (key,)
    if any(_int_list(k) is not None for k in key):
        # one list of column numbers (the region of a SWAP): a copy holding those columns, in order
        pos = [i for i, k in enumerate(key) if _int_list(k) is not None]
        if len(pos) != 1 or any(not (isinstance(k, slice) and k == slice(None)) for i, k in enumerate(key) if i != pos[0]):
            raise Unmodelled("advanced indexing other than [:, list]")
        ax, cols = pos[0], _int_list(key[pos[0]])
        return _cat([_unsqueeze(_select(t, ax, c), ax) for c in cols], ax)
    v = val_of(t)
    n_real = sum(1 for k in key if k is not None and k is not Ellipsis)
    if any(isinstance(k, astvc.SymInt) for k in key):
        key = tuple(key)
    out = []
    for k in key:
        if k is Ellipsis:
            out.extend([slice(None)] * (v.ndim - n_real))
        else:
            out.append(k)
    r = t
    ax = 0
    for k in out:
        if k is None:
            r = _unsqueeze(r, ax)
            ax += 1
        elif isinstance(k, slice):
            if k != slice(None):
                raise Unmodelled("slicing a symbolic-shape tensor with a proper sub-range")
            ax += 1
        elif isinstance(k, astvc.SymInt):
            r = _select(r, ax, k)
        elif isinstance(k, (int, np.integer)) and not isinstance(k, bool):
            r = _select(r, ax, int(k))
        else:
            raise Unmodelled("index of type %s into a symbolic-shape tensor" % type(k).__name__)
    return r if r is not t else _view(t, ("id",))


@reg("__setitem__")
def _setitem(t, key, value):
    kt = key if isinstance(key, tuple) else (key,)
    if any(_int_list(k) is not None for k in kt):
        pos = [i for i, k in enumerate(kt) if _int_list(k) is not None]
        if len(pos) != 1 or any(not (isinstance(k, slice) and k == slice(None)) for i, k in enumerate(kt) if i != pos[0]):
            raise Unmodelled("advanced index assignment other than [:, list] = ...")
        ax, cols = pos[0], _int_list(kt[pos[0]])
        src = value if isinstance(value, GT) else new(val_of(value))
        sv = val_of(src)
        if sv.ndim != val_of(t).ndim or rep(sv.shape[ax]) != len(cols):
            raise Unmodelled("advanced index assignment with a broadcast right-hand side")
        pieces = [val_of(_select(src, ax, j)) for j in range(len(cols))]      # read everything first (the source may alias t)
        for c, pv in zip(cols, pieces):
            write(_select(t, ax, c), pv, "__setitem__")
        return None
    dst = _getitem(t, key)
    dv = val_of(dst)
    r = ewise(lambda x: x, value)
    # broadcast value to the destination's shape
    b = ewise(lambda x, y: y, new(dv), new(r))
    if b.ndim != dv.ndim:
        raise TorchRuntimeError("shape mismatch in item assignment")
    write(dst, b, "__setitem__")
    return None


@reg("cat", "concatenate", "concat")
def _cat(ts, dim=0, *, out=None):
    ts = list(ts)
    if len(ts) == 1:
        return _out(val_of(ts[0]), out, "cat")
    vals = [val_of(x) for x in ts]
    n = vals[0].ndim
    dim = dim % n
    sizes = []
    for v in vals:
        if v.ndim != n:
            raise TorchRuntimeError("cat: tensors must have the same number of dimensions")
        d = rep(v.shape[dim])
        if not isinstance(d, int):
            raise Unmodelled("concatenation along a dimension of symbolic size")
        sizes.append(d)
        for ax in range(n):
            if ax != dim and not same_dim(v.shape[ax], vals[0].shape[ax]):
                raise TorchRuntimeError("cat: sizes of tensors must match except in dimension %d" % dim)
    tot = sum(sizes)
    shape = vals[0].shape[:dim] + (tot,) + vals[0].shape[dim + 1:]
    ix = tuple(fresh_ix(d) for d in shape)
    body = ZERO
    off = 0
    for v, s in zip(vals, sizes):
        for c in range(s):
            body = body + delta(ix[dim], off + c) * v.at(*(ix[:dim] + (c,) + ix[dim + 1:]))
        off += s
    return _out(Val(shape, ix, body), out, "cat")


@reg("stack")
def _stack(ts, dim=0, *, out=None):
    n = val_of(ts[0]).ndim + 1
    return _cat([_unsqueeze(x if isinstance(x, GT) else new(val_of(x)), dim % n) for x in ts], dim % n, out=out)


@reg("split", "split_with_sizes")
def _split_h(t, size, dim=0):
    v = val_of(t)
    dim = dim % v.ndim
    d = rep(v.shape[dim])
    if isinstance(size, (list, tuple)):
        raise Unmodelled("split into explicit sections")
    if isinstance(d, int) and isinstance(size, int):
        raise Unmodelled("split of a concrete dimension (use the per-shape front end)")
    zs = size.e if isinstance(size, astvc.SymInt) else size
    zd = d.z if isinstance(d, Dim) else d
    vc = astvc.VC.cur()
    if vc.decide(zs >= zd):
        return (_view(t, ("id",)),)          # one chunk holding everything
    raise Unmodelled("split of a dimension of symbolic size into several chunks")


@reg("chunk")
def _chunk_h(t, chunks, dim=0):
    if chunks == 1:
        return (_view(t, ("id",)),)
    raise Unmodelled("chunk of a dimension of symbolic size")


@reg("clone", "contiguous_copy")
def _clone(t, **kw):
    return new(val_of(t))


@reg("detach", "contiguous", "double", "float", "cpu", "requires_grad_", "type_as", "detach_")
def _alias_h(t, *a, **k):
    return t if isinstance(t, GT) else new(val_of(t))


@reg("to")
def _to(t, *a, **k):
    if isinstance(t, GT):
        return t
    return new(val_of(t))


_UNINIT = [0]


def _uninitialised(shape):
    """torch.empty*: arbitrary contents, modelled as a fresh named input (drawn at random in witness searches)"""
    _UNINIT[0] += 1
    nm = "uninitialised_memory_%d" % _UNINIT[0]
    shape = tuple(rep(d) for d in shape)
    INPUTS[nm] = (shape, "real")
    return GT(val=named(nm, shape))


@reg("empty_like")
def _empty_like(t, **k):
    return _uninitialised(val_of(t).shape)


@reg("new_empty", "new_zeros_uninit")
def _new_empty(t, *sizes, **k):
    if len(sizes) == 1 and isinstance(sizes[0], (list, tuple)):
        sizes = tuple(sizes[0])
    return _uninitialised(tuple(to_dim(s) for s in sizes))


@reg("new_zeros")
def _new_zeros(t, *sizes, **k):
    if len(sizes) == 1 and isinstance(sizes[0], (list, tuple)):
        sizes = tuple(sizes[0])
    shape = tuple(to_dim(s) for s in sizes)
    return new(Val(shape, tuple(fresh_ix(d) for d in shape), ZERO))


@reg("zeros_like")
def _zeros_like(t, **k):
    v = val_of(t)
    return new(Val(v.shape, tuple(fresh_ix(d) for d in v.shape), ZERO))


@reg("ones_like")
def _ones_like(t, **k):
    v = val_of(t)
    return new(Val(v.shape, tuple(fresh_ix(d) for d in v.shape), ONE))


@reg("zero_")
def _zero_i(t):
    v = val_of(t)
    return write(t, Val(v.shape, tuple(fresh_ix(d) for d in v.shape), ZERO), "zero_")


@reg("fill_")
def _fill_i(t, x):
    v = val_of(t)
    return write(t, Val(v.shape, tuple(fresh_ix(d) for d in v.shape), to_E(x)), "fill_")


@reg("copy_")
def _copy_i(t, src, non_blocking=False):
    v = val_of(t)
    b = ewise(lambda x, y: y, new(v), src)
    return write(t, b, "copy_")


@reg("size")
def _size(t, d=None):
    v = val_of(t)
    if d is None:
        return GShape(size_obj(x) for x in v.shape)
    return size_obj(v.shape[d % v.ndim])


@reg("dim", "ndimension")
def _dim(t):
    return val_of(t).ndim


@reg("numel")
def _numel(t):
    r = 1
    for d in val_of(t).shape:
        r = r * size_obj(d)
    return r


class Packed:
    """parameters_to_vector under its contract: the concatenation of the flattened pieces, kept piece by piece.
    Arithmetic acts piecewise (what the same arithmetic on the flat vector does)."""

    def __init__(self, pieces):
        self.pieces = list(pieces)

    def _b(self, o, f):
        if isinstance(o, Packed):
            if len(o.pieces) != len(self.pieces):
                raise TorchRuntimeError("packed vectors of different layouts")
            return Packed([f(a, b) for a, b in zip(self.pieces, o.pieces)])
        return Packed([f(a, o) for a in self.pieces])

    def __add__(self, o): return self._b(o, lambda a, b: a + b)
    __radd__ = __add__
    def __sub__(self, o): return self._b(o, lambda a, b: a - b)
    def __rsub__(self, o): return self._b(o, lambda a, b: b - a)
    def __mul__(self, o): return self._b(o, lambda a, b: a * b)
    __rmul__ = __mul__
    def __truediv__(self, o): return self._b(o, lambda a, b: a / b)
    def __neg__(self): return Packed([-a for a in self.pieces])

    @classmethod
    def __torch_function__(cls, func, types, args=(), kwargs=None):
        """torch.sub(packed, packed), torch.neg(packed), ... act piece by piece (what they do on the flat vector)."""
        kwargs = kwargs or {}
        name = getattr(func, "__name__", "")
        if name not in ("add", "sub", "mul", "div", "true_divide", "neg", "negative", "clone", "detach"):
            raise Unmodelled("torch.%s on a packed parameter vector" % name)
        n = max(len(a.pieces) for a in args if isinstance(a, Packed))
        out = []
        for j in range(n):
            out.append(func(*[(a.pieces[j] if isinstance(a, Packed) else a) for a in args], **kwargs))
        return Packed(out)

    def __iter__(self): return iter(self.pieces)
    def __len__(self): return len(self.pieces)


class GScalar:
    """What .item() returns: a python-level number whose value is a scalar expression."""

    def __init__(self, e):
        self.e = to_E(e)

    def _b(self, o, f):
        return GScalar(f(self.e, o.e if isinstance(o, GScalar) else to_E(o)))

    def __add__(self, o): return self._b(o, lambda a, b: a + b)
    __radd__ = __add__
    def __sub__(self, o): return self._b(o, lambda a, b: a - b)
    def __rsub__(self, o): return self._b(o, lambda a, b: b - a)
    def __mul__(self, o): return self._b(o, lambda a, b: a * b)
    __rmul__ = __mul__
    def __truediv__(self, o): return self._b(o, lambda a, b: a / b)
    def __rtruediv__(self, o): return self._b(o, lambda a, b: b / a)
    def __neg__(self): return GScalar(-self.e)
    def __pow__(self, n): return GScalar(self.e ** n)

    def sqrt(self):          # numpy's object fallback: np.sqrt(x) calls x.sqrt()
        return GScalar(fn("sqrt", self.e))

    def __float__(self):
        raise Unmodelled("float() of a symbolic scalar")

    def __bool__(self):
        raise Unmodelled("truth value of a symbolic scalar")


def _moments(a, dim, unbiased):
    v = val_of(a)
    axes = _axes(v, dim)
    n = ONE
    for ax in axes:
        n = n * to_E(size_obj(v.shape[ax]))
    s1, s2 = v.body, v.body * v.body
    for ax in axes:
        s1, s2 = esum(s1, v.ix[ax]), esum(s2, v.ix[ax])
    shape = tuple(d for i, d in enumerate(v.shape) if i not in axes)
    ix = tuple(k for i, k in enumerate(v.ix) if i not in axes)
    mean = s1 * fn("inv", n)
    var = (s2 - s1 * s1 * fn("inv", n)) * fn("inv", n - 1 if unbiased else n)
    return Val(shape, ix, var), Val(shape, ix, mean)


@reg("var_mean")
def _var_mean(a, dim=None, unbiased=True, keepdim=False, *, correction=None):
    if correction is not None:
        unbiased = bool(correction)
    if keepdim:
        raise Unmodelled("var_mean with keepdim")
    va, me = _moments(a, dim, unbiased)
    return new(va), new(me)


@reg("var")
def _var(a, dim=None, unbiased=True, keepdim=False, *, correction=None):
    return _var_mean(a, dim, unbiased, keepdim, correction=correction)[0]


@reg("std")
def _std(a, dim=None, unbiased=True, keepdim=False, *, correction=None):
    va = val_of(_var(a, dim, unbiased, keepdim, correction=correction))
    return new(Val(va.shape, va.ix, fn("sqrt", va.body)))


@reg("item")
def _item(t):
    v = val_of(t)
    body = v.body.subst({k: 0 for k in v.ix})
    for d in v.shape:
        if not _is_one(d):
            raise TorchRuntimeError("a Tensor with more than one element cannot be converted to Scalar")
    return GScalar(body)


@reg("diagonal")
def _diagonal(t, offset=0, dim1=0, dim2=1):
    v = val_of(t)
    if offset != 0 or v.ndim != 2:
        raise Unmodelled("diagonal other than the main diagonal of a matrix")
    if not same_dim(v.shape[0], v.shape[1]):
        raise Unmodelled("diagonal of a non-square matrix of symbolic shape")
    k = fresh_ix(v.shape[0])
    return new(Val((v.shape[0],), (k,), v.at(k, k)))


@reg("is_floating_point")
def _isfp(t):
    return True


@reg("is_complex")
def _iscx(t):
    return False


@reg("view", "reshape")
def _view_h(t, *sizes):
    if len(sizes) == 1 and isinstance(sizes[0], (list, tuple)):
        sizes = tuple(sizes[0])
    v = val_of(t)
    # only reshapes that add or drop unit dimensions are modelled
    want = [s if (isinstance(s, int) and s == -1) else to_dim(s) for s in sizes]
    src = [(d, k) for d, k in zip(v.shape, v.ix) if not _is_one_static(d)]
    tgt = [d for d in want if not _is_one_static(d)]
    if len(src) == len(tgt) and all((isinstance(a, int) and a == -1) or same_dim(a, b[0]) for a, b in zip(tgt, src)) and \
            sum(1 for a in tgt if isinstance(a, int) and a == -1) <= 1:
        body = v.body.subst({k: 0 for d, k in zip(v.shape, v.ix) if _is_one_static(d)})
        shape, ix = [], []
        it = iter(src)
        for d in want:
            if _is_one_static(d):
                shape.append(1)
                ix.append(fresh_ix(1))
            else:
                sd, sk = next(it)
                shape.append(sd)
                ix.append(sk)
        return new(Val(tuple(shape), tuple(ix), body))       # a copy: writes through reshaped views are not modelled
    raise Unmodelled("reshape that merges or splits dimensions of symbolic size")


# ---- factory functions (no tensor argument: patched into the torch namespace while a run is active) ------------------
def _factory(real, value):
    def f(*sizes, **kw):
        if len(sizes) == 1 and isinstance(sizes[0], (list, tuple)):
            sizes = tuple(sizes[0])
        if not any(isinstance(s, astvc.SymInt) for s in sizes):
            return real(*sizes, **kw)
        shape = tuple(to_dim(s) for s in sizes)
        return new(Val(shape, tuple(fresh_ix(d) for d in shape), value))
    return f


REAL_FACTORIES = (torch.zeros, torch.ones)


class active:
    """Context manager: torch.zeros / torch.ones accept symbolic sizes while a symbolic-shape run is active."""

    def __enter__(self):
        self.saved = (torch.zeros, torch.ones)
        torch.zeros = _factory(self.saved[0], ZERO)
        torch.ones = _factory(self.saved[1], ONE)
        return self

    def __exit__(self, *a):
        torch.zeros, torch.ones = self.saved
        return False


def explore(vc, thunk, tag=""):
    """Run thunk once per feasible sequence of size decisions, with symbolic sizes accepted by the torch factories."""
    def run():
        reset_path()
        with active():
            thunk()
    return vc.explore(run, tag)


def require_at_least(d, n):
    """Precondition of a case: dimension d has at least n entries."""
    d = dim(d) if isinstance(d, str) else d
    DIM_LB[d.name] = max(DIM_LB.get(d.name, 1), n)
    astvc.VC.cur().assume(astvc.SymBool(d.z >= n))


def reset_path():
    DIM_LB.clear()
    LOOPVARS.clear()
    REP.clear()
    del FRAME_WRITES[:]
    INPUTS.clear()
    vc = astvc.VC.cur()
    for d in DIMS.values():
        vc.assume(astvc.SymBool(d.z >= 1))


# --------------------------------------------------------------------------------------------------------------------
# obligations
# --------------------------------------------------------------------------------------------------------------------
def _align(got, want):
    """Rename both to common index names; None if the shapes differ."""
    if got.ndim != want.ndim:
        return None
    for a, b in zip(got.shape, want.shape):
        a, b = rep(a), rep(b)
        if a is b or a == b:
            continue
        vc = astvc.VC.cur()
        za = a if isinstance(a, int) else a.z
        zb = b if isinstance(b, int) else b.z
        st = vc._sat(za != zb)
        if st:
            return None
    ix = tuple(fresh_ix(d) for d in want.shape)
    return ix, got.at(*ix), want.at(*ix)


def _sizes_from_model(vc, tries, pc=None):
    """Concrete sizes for every dimension, consistent with the path condition: small random ones where the path
    allows, otherwise the smallest the path admits (a branch taken only above some size is reached that way)."""
    names = sorted(DIMS)
    out = []
    rnd = random.Random(7)
    pc = list(vc.pc) if pc is None else list(pc)

    def solver(hi):
        s = z3.Solver()
        s.set("timeout", 5000)
        for c in pc:
            s.add(c)
        for n in names:
            s.add(DIMS[n].z >= 1, DIMS[n].z <= hi)
        return s

    def take(m):
        sz = {n: m.eval(DIMS[n].z, model_completion=True).as_long() for n in names}
        if sz not in out:
            out.append(sz)
    for t in range(tries * 2):
        s = solver(3)
        for n in names:
            s.add(DIMS[n].z == rnd.randint(1, 3))
        if s.check() == z3.sat:
            take(s.model())
        if len(out) >= tries:
            return out
    if not out:
        for hi in (3, 5, 9, 17, 33, 65, 129, 1025, 1 << 20):
            o = z3.Optimize()
            o.set("timeout", 10000)
            for c in pc:
                o.add(c)
            for n in names:
                o.add(DIMS[n].z >= 1, DIMS[n].z <= hi)
            o.minimize(z3.Sum([DIMS[n].z for n in names]))
            if o.check() == z3.sat:
                take(o.model())
                # a second one with other free dimensions, if any
                s = solver(hi)
                for n in names:
                    s.add(DIMS[n].z >= out[-1][n])
                s.add(z3.Sum([DIMS[n].z for n in names]) > sum(out[-1].values()))
                s.add(z3.Sum([DIMS[n].z for n in names]) <= sum(out[-1].values()) + 3)
                if s.check() == z3.sat:
                    take(s.model())
                break
    return out


def _conc(d, sizes):
    d = rep(d)
    return d if isinstance(d, int) else sizes[d.name]


INPUT_FIX = [None]     # per case: callable(tensors, sizes, rnd) -> tensors, imposing the contract's precondition on drawn inputs


def draw_inputs(sizes, rnd, scale=1.0):
    t = _draw_inputs(sizes, rnd, scale)
    if INPUT_FIX[0] is not None:
        t = INPUT_FIX[0](t, sizes, rnd)
    return t


def _draw_inputs(sizes, rnd, scale=1.0):
    tensors = {}
    for name, (shape, domain) in INPUTS.items():
        shp = tuple(_conc(d, sizes) for d in shape)
        n = int(np.prod(shp)) if shp else 1
        if domain == "bits":
            vals = [float(rnd.randint(0, 1)) for _ in range(n)]
        elif domain == "pos":
            vals = [rnd.uniform(0.2, 2.0) for _ in range(n)]
        else:
            vals = [rnd.uniform(-1.5, 1.5) * scale for _ in range(n)]
        tensors[name] = np.array(vals, dtype=float).reshape(shp)
    return tensors


def eval_val(v, sizes, tensors):
    shp = tuple(_conc(x, sizes) for x in v.shape)
    out = np.empty(shp, dtype=float)
    for idx in np.ndindex(*shp):
        out[idx] = ev(v.body, sizes, tensors, dict(zip(v.ix, idx)))
    return out


def check_eq(vc, name, got, want, seed=0):
    """Obligation: the tensor computed by the code equals the contract's tensor, for every shape on this path."""
    import time
    t0 = time.time()
    got, want = val_of(got), val_of(want)
    al = _align(got, want)
    if al is None:
        vc._record(name, "violated", "shapes differ: code %s, contract %s" % (got.shape, want.shape),
                   {"shape_code": str(got.shape), "shape_contract": str(want.shape)}, time.time() - t0, "tensor-normal-form")
        return False
    ix, g, w = al
    diff = g - w
    if not diff.is_zero():
        # indices of dimensions of concrete size are enumerated (so that 1 - d(c,0) - d(c,1) = 0 for c in {0, 1})
        conc = [(k, rep(d)) for k, d in zip(ix, want.shape) if isinstance(rep(d), int)]
        if conc and all(n <= 8 for _k, n in conc) and np.prod([n for _k, n in conc]) <= 64:
            if all(diff.subst(dict(zip([k for k, _n in conc], combo))).is_zero()
                   for combo in itertools.product(*(range(n) for _k, n in conc))):
                diff = ZERO
    if diff.is_zero():
        vc._record(name, "discharged", None, None, time.time() - t0, "tensor-normal-form(all shapes)")
        return True
    # not syntactically equal: look for a numeric witness at small sizes
    rnd = random.Random(seed)
    try:
        for sizes in _sizes_from_model(vc, 6):
            for trial in range(6):
                tensors = draw_inputs(sizes, rnd, (1.0, 1.0, 3.0, 6.0, 0.3, 12.0)[trial])
                shp = tuple(_conc(x, sizes) for x in want.shape)
                for idx in np.ndindex(*shp):
                    env = dict(zip(ix, idx))
                    try:
                        a, b = ev(g, sizes, tensors, env), ev(w, sizes, tensors, env)
                    except (ValueError, ZeroDivisionError, OverflowError):
                        continue
                    if abs(a - b) > 1e-7 * (1 + abs(a) + abs(b)):
                        vc._record(name, "violated", "code %r, contract %r at element %s for sizes %s" % (a, b, idx, sizes),
                                   {"sizes": sizes, "inputs": {k: v.tolist() for k, v in tensors.items()}, "element": list(idx),
                                    "code_value": a, "contract_value": b}, time.time() - t0, "tensor-normal-form+numeric-witness")
                        return False
    except Unmodelled:
        pass
    vc._record(name, "undecided", "normal forms differ but no numeric witness found: %s" % (diff,), None, time.time() - t0,
               "tensor-normal-form")
    return None


def equal_nf(got, want):
    """True when two tensors have the same shape and the same normal form (for every size and value)."""
    got, want = val_of(got), val_of(want)
    al = _align(got, want)
    if al is None:
        return False
    ix, g, w = al
    diff = g - w
    if diff.is_zero():
        return True
    conc = [(k, rep(d)) for k, d in zip(ix, want.shape) if isinstance(rep(d), int)]
    if conc and all(n <= 8 for _k, n in conc):
        return all(diff.subst(dict(zip([k for k, _n in conc], combo))).is_zero()
                   for combo in itertools.product(*(range(n) for _k, n in conc)))
    return False


def check_frame(vc, name):
    ok = not FRAME_WRITES
    vc._record(name, "discharged" if ok else "violated", None if ok else "in-place writes into read-only inputs: %s" % (FRAME_WRITES[:4],),
               None if ok else {"writes": [list(map(str, w)) for w in FRAME_WRITES[:8]]}, 0.0, "write-log")
    return ok


# --------------------------------------------------------------------------------------------------------------------
# Lean export of contract expressions (so that the size-generic lemmas in lean/ speak about exactly these contracts)
# --------------------------------------------------------------------------------------------------------------------
_LEAN_FN = {"softplus": "softplus", "sigmoid": "sigmoid", "exp": "Real.exp", "log": "Real.log", "cos": "Real.cos",
            "sin": "Real.sin", "sqrt": "Real.sqrt"}


def to_lean(e, env=None, depth=0):
    """Lean 4 term (type ℝ) of a scalar expression; env maps free index variables to Lean identifiers."""
    env = dict(env or {})
    if not e.terms:
        return "(0 : ℝ)"
    parts = []
    for c, b, f in sorted(e.terms, key=lambda t: _term_cs(t, {})):
        e2 = dict(env)
        binders = []
        for k in b:
            nm = "s%d" % (depth + len(binders))
            e2[k] = nm
            binders.append("∑ %s : Fin %s, " % (nm, rep(IXDIM[k]).name))
        fs = []
        for a, p in f:
            if a[0] == "el":
                t = "(%s%s)" % (a[1], "".join(" " + (e2[i] if isinstance(i, str) else "⟨%d, by omega⟩" % i) for i in a[2:]))
            elif a[0] == "fn":
                if a[1] == "inv":
                    t = "(%s)⁻¹" % to_lean(a[2], e2, depth + len(binders))
                elif a[1] in _LEAN_FN:
                    t = "(%s %s)" % (_LEAN_FN[a[1]], " ".join("(%s)" % to_lean(x, e2, depth + len(binders)) for x in a[2:]))
                else:
                    raise Unmodelled("no Lean export for %s" % a[1])
            elif a[0] == "dim":
                t = "(%s : ℝ)" % a[1]
            else:
                raise Unmodelled("no Lean export for a Kronecker delta")
            fs.append(t if p == 1 else "%s ^ %d" % (t, p) if p > 0 else "(%s ^ %d)⁻¹" % (t, -p))
        coef = "(%d : ℝ)" % c.numerator if c.denominator == 1 else "((%d : ℝ) / %d)" % (c.numerator, c.denominator)
        body = " * ".join(fs) if fs else "(1 : ℝ)"
        parts.append("%s * %s(%s)" % (coef, "".join(binders), body) if binders else "%s * (%s)" % (coef, body))
    return " + ".join(parts)


def _sym_tensor_op(f, sym, tensor, reflected):
    """SymInt/SymReal (op) GT, reached when torch's own operator returns NotImplemented for the scalar type."""
    if reflected:      # tensor (op) sym
        return new(ewise(lambda x, y: f(x, y), tensor, sym))
    return new(ewise(lambda x, y: f(y, x), tensor, sym))


astvc.TENSOR_OPS = _sym_tensor_op


# torch's argument parser rejects a symbolic size as the scalar operand of a tensor *method* before __torch_function__
# is consulted; python-level methods on GT take precedence over the C ones and go straight to the models
def _bind_method(name):
    def m(self, *a, **k):
        PRIMS_USED[name] = PRIMS_USED.get(name, 0) + 1
        return H[name](self, *a, **k)
    m.__name__ = name
    return m


for _n in ("add", "sub", "mul", "div", "true_divide", "add_", "sub_", "mul_", "div_", "pow", "pow_"):
    setattr(GT, _n, _bind_method(_n))
