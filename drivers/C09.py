"""C09 concrete driver: exact pair-average of the swap estimator vs tr(rho_A^2) by numpy partial trace (float64)."""
import itertools

import numpy as np
import torch

from . import common as C
from .C08 import rho_of


def purity_np(rho, n, A):
    A = sorted(A)
    Bc = [s for s in range(n) if s not in A]
    T = rho.reshape([2] * (2 * n))
    # trace out complement
    perm = A + Bc + [n + s for s in A] + [n + s for s in Bc]
    T = T.transpose(perm).reshape(2 ** len(A), 2 ** len(Bc), 2 ** len(A), 2 ** len(Bc))
    red = np.einsum("abcb->ac", T)
    return float(np.real(np.trace(red @ red))), float(np.real(np.trace(red)))


def native_check(kind, n, env=None, seed=0):
    from qucumber.observables import SWAP
    rng = np.random.default_rng(seed)
    st = C.make_state(kind, n, n + 1, 2)
    C.randomize(st, rng)
    C.set_env(st, env)
    space = st.generate_hilbert_space(n)
    rho = rho_of(st, kind, space)
    p = np.real(np.diag(rho))
    D = 2 ** n
    fails = []
    for A in itertools.chain.from_iterable(itertools.combinations(range(n), k) for k in range(n + 1)):
        A = list(A)
        tot = 0.0
        for s1 in range(D):
            batch = torch.stack([space[s1].repeat(D, 1), space], dim=1).reshape(-1, n)   # rows: s1, s2, s1, s2', ...
            # evaluate pair by pair to use apply([s1;s2])[0]
            for s2 in range(D):
                b = torch.stack([space[s1], space[s2]])
                keep = b.clone()
                val = SWAP(A).apply(st, b)
                if not torch.equal(b, keep):
                    fails.append(("batch modified", A))
                tot += p[s1] * p[s2] * float(val[0])
        pur, tr = purity_np(rho, n, A)
        if abs(tot - pur) > 1e-8 * (1 + abs(pur)):
            fails.append(("swap average != tr(rho_A^2)", (A, tot, pur)))
        if pur > tr * tr * (1 + 1e-9):
            fails.append(("S2 negative", (A, pur, tr)))
        if kind != "mixed":
            pc, _ = purity_np(rho, n, [s for s in range(n) if s not in A])
            if abs(pc - pur) > 1e-8 * (1 + abs(pur)):
                fails.append(("pure: purity(A) != purity(complement)", A))
            if len(A) in (0, n) and abs(pur - np.trace(rho).real ** 2) > 1e-8 * (1 + pur):
                fails.append(("pure: trivial region purity != (tr rho)^2", A))
        if len(fails) > 4:
            break
    # batches of 3 and 4 distinct rows: row i must be Re[w(s'_i, s_i) w(s'_(i-1), s_(i-1))] with the cyclic partner i-1
    from qucumber.observables.entanglement import swap
    for Bn in (3, 4):
        if Bn > D:
            continue
        rows = torch.randperm(D)[:Bn]
        bt = space[rows].clone()
        for A in ([0], list(range(n))[-1:], list(range(n))):
            got = SWAP(A).apply(st, bt.clone())
            prev = torch.roll(bt, 1, 0)
            a1, a2 = swap(bt.clone(), prev.clone(), A)
            w1 = st.importance_sampling_weight(a1, bt)
            w2 = st.importance_sampling_weight(a2, prev)
            want = w1[0] * w2[0] - w1[1] * w2[1]
            if not torch.allclose(got, want, rtol=1e-9, atol=1e-12):
                fails.append(("batch of %d: row i is not Re[w(s'_i,s_i) w(s'_(i-1),s_(i-1))]" % Bn, A))
    # history: one SWAP object that has served states with other numbers of sites gives the same values as a fresh one
    for A in ([0], list(range(n))[-1:], list(range(n))):
        for ms in ((n + 1, n + 2), tuple(m for m in (1, n - 1) if 1 <= m < n and max(A) < m)):
            if not ms:
                continue
            ob = SWAP(A)
            for m in ms:
                so = C.make_state(kind, m, 2, 1)
                ob.apply(so, so.generate_hilbert_space(m)[:3].clone())
            bt = space[torch.randperm(D)[: min(D, 4)]].clone()
            got, want = ob.apply(st, bt.clone()), SWAP(A).apply(st, bt.clone())
            if tuple(got.shape) != tuple(want.shape) or not torch.allclose(got, want, rtol=1e-12, atol=1e-14):
                fails.append(("a SWAP object used on states with %s sites before gives other values than a fresh one" % (ms,), A))
    # cyclic pairing: every sample once in each replica role -> permutation-covariance of the batch result
    b = space[torch.randperm(D)][: min(D, 4)].clone()
    v = SWAP([0]).apply(st, b)
    v2 = SWAP([0]).apply(st, torch.roll(b, 1, 0))
    if not torch.allclose(torch.roll(v, 1, 0), v2):
        fails.append(("batch result not covariant under cyclic shifts", None))
    return fails


def swap_native():
    """swap() on concrete tensors for every region encoding vs column exchange."""
    from qucumber.observables.entanglement import swap
    n = 3
    rows = torch.tensor(list(itertools.product((0., 1.), repeat=n)), dtype=torch.double)
    s1, s2 = rows.clone(), torch.flip(rows, [0]).clone()
    fails = []
    for A in itertools.chain.from_iterable(itertools.combinations(range(n), k) for k in range(n + 1)):
        A = list(A)
        encs = [("list", A), ("array", np.array(A, dtype=int)), ("tensor", torch.tensor(A, dtype=torch.long))] + ([("int", A[0])] if len(A) == 1 else [])
        for enc, Ae in encs:
            a, b = swap(s1.clone(), s2.clone(), Ae)
            for c in range(n):
                exp_a, exp_b = (s2[:, c], s1[:, c]) if c in A else (s1[:, c], s2[:, c])
                if not (torch.equal(a[:, c], exp_a) and torch.equal(b[:, c], exp_b)):
                    fails.append(("swap(%s region %s) does not exchange exactly the region's columns" % (enc, A), c))
                    break
    return fails


def replay(cfg, env):
    if cfg["part"] == "weight":
        return {"reproduced": False, "note": "structural obligation, see detail"}
    if cfg["part"] in ("swap", "apply"):
        f = swap_native()
        if f or cfg["part"] == "swap":
            return {"reproduced": bool(f), "failed_clauses": [(a, str(b)) for a, b in f[:4]], "cfg": cfg}
    kinds = ["mixed"] if cfg.get("flavour") == "mixed" else ["positive", "complex", "mixed"] if cfg["part"] == "apply" else ["complex", "positive"]
    fails = []
    for kind in kinds:
        fails = native_check(kind, cfg["n"], env, 0)
        if fails:
            break
    return {"reproduced": bool(fails), "failed_clauses": [(a, str(b)[:200]) for a, b in fails[:4]], "cfg": cfg}


def bounded(tier, seed):
    n, bad = 0, []
    for kind in ("positive", "complex", "mixed"):
        for nv in ((1, 2) if tier == "quick" else (1, 2, 3, 4)):
            if kind == "mixed" and nv > 3:
                continue
            f = native_check(kind, nv, None, seed)
            n += 1
            if f:
                bad.append((kind, nv, f[:2]))
    return {"driver": "drivers/C09.native_check", "label": "bounded", "evaluations": n, "failures": len(bad),
            "bound": "float64; one random parameter draw per (state type, n); all regions; all ordered pairs; S2 >= 0 checked numerically", "first_failures": bad[:3]}
