"""C15 concrete driver: cplx kernel vs numpy complex arithmetic (float64)."""
import re

import numpy as np
import torch


def _native_ops(case, env, rng):
    ops = []
    for i, s in enumerate(case["shapes"]):
        nm = "xyz"[i]
        shape = tuple(s) if i in case["real_ops"] else (2,) + tuple(s)
        a = rng.normal(0, 1.5, size=shape)
        for k, v in env.items():
            m = re.match(r"^%s(?:\[([\d,]*)\])?$" % nm, k)
            if m:
                idx = tuple(int(x) for x in m.group(1).split(",")) if m.group(1) else ()
                if len(idx) == len(shape):
                    a[idx] = float(v)
        if i in case.get("zero_imag", ()):
            a[1, ...] = 0.0
        ops.append(torch.tensor(a, dtype=torch.double))
    return ops


def check_case(case, env, seed):
    import lemmas.C15 as L
    rng = np.random.default_rng(seed)
    ops = _native_ops(case, env, rng)
    dec = [o.numpy() if i in case["real_ops"] else o[0].numpy() + 1j * o[1].numpy() for i, o in enumerate(ops)]
    old = L.I
    L.I = 1j
    try:
        if case["exc"] is not None:
            try:
                case["fn"](*ops)
                return "no exception for unsupported shape / aliasing buffer"
            except case["exc"]:
                return None
        keep = [o.clone() for o in ops]
        res = case["fn"](*ops)
        if "out is" not in case["name"] and any(not torch.equal(o, k) for o, k in zip(ops, keep)):
            return "an operand was modified by the call"
        if isinstance(res, torch.Tensor) and case["name"] not in ("real", "imag") and any(res.data_ptr() == o.data_ptr() for o in ops if o.numel()) and "out" not in case["name"]:
            return "the result aliases an operand"
        spec = case["spec"]
        if isinstance(spec, tuple):
            kind, f = spec
            if kind == "is-none":
                return None if isinstance(res, L._NoneFlag) else "did not return None"
            r = res[0].numpy() + 1j * res[1].numpy()
            if kind == "mul-back":
                lhs, rhs = f(r, *dec)
                return None if np.allclose(lhs, rhs, rtol=1e-9, atol=1e-9) else "result*y != x: %r" % (np.abs(lhs - rhs).max(),)
            if kind == "abs":
                return None if np.allclose(r, np.abs(dec[0])) else "absolute_value wrong"
            if kind == "norm":
                return None if np.allclose(r, np.linalg.norm(dec[0])) else "norm wrong"
            if kind == "sigmoid":
                z = dec[0] + 1j * dec[1]
                return None if np.allclose(r, np.exp(z) / (1 + np.exp(z))) else "sigmoid wrong"
        want = np.asarray(spec(*dec), dtype=complex)
        r = res[0].numpy() + 1j * res[1].numpy()
        if r.shape != want.shape:
            return "shape %s != %s" % (r.shape, want.shape)
        return None if np.allclose(r, want, rtol=1e-9, atol=1e-9) else "value mismatch, max abs err %r" % (np.abs(r - want).max(),)
    finally:
        L.I = old


def replay_case(fn, short, env):
    import lemmas.C15 as L
    fails = []
    for tier in ("quick",):
        for case in L.cases(tier):
            if case["name"] != fn:
                continue
            if short and not short.startswith(case["id"]):
                continue
            for s in range(3):
                try:
                    f = check_case(case, env if s == 0 else {}, s)
                except Exception as e:   # an exception where a value was expected is a failure too
                    f = "raised %r" % (e,)
                if f:
                    fails.append((case["id"], f))
                    break
    if not fails and short:
        return replay_case(fn, "", env)
    return {"reproduced": bool(fails), "failed_clauses": fails[:4], "env": env}


def extreme_values():
    """Finite operands whose intermediate quantities would overflow in a naive formulation (|1 + e^z|^2 for Re z > 355, moduli
    near 1e200, quotients of huge numbers): results are compared with Python's complex arithmetic."""
    import cmath
    import torch
    from qucumber.utils import cplx
    fails = []
    zs = [complex(x, y) for x in (-700.0, -360.0, -30.0, 0.5, 30.0, 360.0, 400.0, 555.5, 700.0) for y in (0.0, 1.0, -2.5)]
    re, im = torch.tensor([z.real for z in zs], dtype=torch.double), torch.tensor([z.imag for z in zs], dtype=torch.double)
    s = cplx.sigmoid(re, im)
    for i, z in enumerate(zs):
        want = 1 / (1 + cmath.exp(-z)) if z.real > 0 else cmath.exp(z) / (1 + cmath.exp(z))
        got = complex(float(s[0, i]), float(s[1, i]))
        if not (abs(got - want) <= 1e-12 * (1 + abs(want))):
            fails.append(("sigmoid(%r) = %r, complex arithmetic gives %r" % (z, got, want), None))
            break
    big = [complex(3e150, -4e150), complex(-1e-150, 2e-150), complex(1e153, 1e153)]
    x = torch.tensor([[z.real for z in big], [z.imag for z in big]], dtype=torch.double)
    a = cplx.absolute_value(x)
    for i, z in enumerate(big):
        if not (abs(float(a[i]) - abs(z)) <= 1e-12 * abs(z)):
            fails.append(("absolute_value(%r) = %r, |z| = %r" % (z, float(a[i]), abs(z)), None))
            break
    return fails


def bounded(tier, seed):
    import lemmas.C15 as L
    n, bad = 0, []
    f = extreme_values()
    n += 1
    if f:
        bad.append(("extreme finite values", f[:2]))
    for case in L.cases(tier):
        try:
            f = check_case(case, {}, seed)
        except Exception as e:
            f = "raised %r" % (e,)
        n += 1
        if f:
            bad.append((case["id"], f))
    return {"driver": "drivers/C15.check_case", "label": "bounded", "evaluations": n, "failures": len(bad),
            "bound": "float64, one random operand draw per enumerated (function, shape) case", "first_failures": bad[:3]}
