"""vf selftest: run the checks against deliberately changed scratch copies of the repository.

Property-breaking mutants must yield exit 1 with a VIOLATION line; benign refactorings must yield exit 0.
Scratch copies live under $TMPDIR and are removed immediately."""
import json
import os
import shutil
import subprocess
import sys
import tempfile
import time

VERIF = os.path.dirname(os.path.dirname(os.path.abspath(__file__)))


def stored_patches():
    """Every stored blind seeded change (seeded/<name>/patch.diff: must be reported) and every stored blind benign rewrite
    (benign/<set>/benign_k.diff with the properties listed in benign/sets.json: must pass) as further self-test entries."""
    import glob
    out = []
    for mf in sorted(glob.glob(os.path.join(VERIF, "seeded", "*", "meta.json"))):
        meta = json.load(open(mf))
        out.append({"id": meta["name"], "prop": meta["breaks_property"], "expect": "violation", "patch": os.path.join(os.path.dirname(mf), "patch.diff"),
                    "why": "stored blind seeded change"})
    sets = os.path.join(VERIF, "benign", "sets.json")
    if os.path.exists(sets):
        for name, props in json.load(open(sets)).items():
            for pf in sorted(glob.glob(os.path.join(VERIF, "benign", name, "benign_*.diff"))):
                if os.path.getsize(pf) == 0:
                    continue
                for pr in props:
                    out.append({"id": "%s/%s" % (name, os.path.basename(pf)[7:-5]), "prop": pr, "expect": "pass", "patch": pf, "why": "stored blind benign rewrite"})
    return out


def _one(m, repo, tier):
    sc = tempfile.mkdtemp(prefix="vfself_")
    t0 = time.time()
    try:
        shutil.copytree(os.path.join(repo, "qucumber"), os.path.join(sc, "qucumber"))
        r = subprocess.run(["patch", "-p1", "-s", "-i", m["patch"]], cwd=sc, capture_output=True, text=True)
        if r.returncode != 0:
            return (m["id"], m["prop"], m["expect"], "PATCH-DOES-NOT-APPLY", 0.0, False)
        env = dict(os.environ, QUCUMBER_REPO=sc, VF_EVIDENCE_DIR=os.path.join(sc, "ev"), VF_REPLAY_DIR=os.path.join(sc, "replay"))
        r = subprocess.run([os.path.join(VERIF, "vf"), "check", m["prop"], "--tier", tier], env=env, capture_output=True, text=True, timeout=3600)
        viol = [l for l in r.stdout.splitlines() if l.startswith("VIOLATION")]
        proved = [l for l in viol if "bounded-driver" not in l]
        if m["expect"] == "violation":
            ok = r.returncode == 1 and bool(viol)
            got = "VIOLATION x%d (%d by obligations)" % (len(viol), len(proved)) if viol else "exit %d, no violation" % r.returncode
        else:
            ok = r.returncode == 0 and not viol
            got = "exit %d%s" % (r.returncode, (" " + viol[0][:120]) if viol else "")
        if not ok:
            got = "UNEXPECTED: " + got
        return (m["id"], m["prop"], m["expect"], got, time.time() - t0, ok)
    finally:
        shutil.rmtree(sc, ignore_errors=True)


def stored(only=None, tier="quick", jobs=6):
    """`vf selftest --stored`: the stored seeded changes and benign rewrites, in parallel."""
    from concurrent.futures import ThreadPoolExecutor
    repo = os.environ.get("QUCUMBER_REPO", "/repo")
    ms = stored_patches()
    if only:
        ms = [m for m in ms if any(m["id"].startswith(o) or m["prop"] == o for o in only.split(","))]
    bad = 0
    with ThreadPoolExecutor(jobs) as ex:
        for row in ex.map(lambda m: _one(m, repo, tier), ms):
            print("%-12s %-4s expect=%-9s %s  (%.0fs)" % row[:5], flush=True)
            bad += 0 if row[5] else 1
    print("selftest (stored patches): %d entries, %d unexpected" % (len(ms), bad))
    return 1 if bad else 0


def main(only=None, tier="quick"):
    repo = os.environ.get("QUCUMBER_REPO", "/repo")
    muts = json.load(open(os.path.join(VERIF, "mutants", "mutants.json")))["mutants"]
    if only:
        muts = [m for m in muts if m["id"] in only.split(",") or m["prop"] in only.split(",")]
    bad = 0
    rows = []
    for m in muts:
        sc = tempfile.mkdtemp(prefix="vfself_")
        t0 = time.time()
        try:
            shutil.copytree(os.path.join(repo, "qucumber"), os.path.join(sc, "qucumber"))
            p = os.path.join(sc, "qucumber", m["file"])
            s = open(p).read()
            if m["old"] not in s:
                rows.append((m["id"], m["prop"], m["expect"], "PATTERN-NOT-FOUND", 0.0))
                bad += 1
                continue
            open(p, "w").write(s.replace(m["old"], m["new"], 1))
            env = dict(os.environ, QUCUMBER_REPO=sc, VF_EVIDENCE_DIR=os.path.join(sc, "ev"), VF_REPLAY_DIR=os.path.join(sc, "replay"))
            r = subprocess.run([os.path.join(VERIF, "vf"), "check", m["prop"], "--tier", tier], env=env, capture_output=True, text=True, timeout=3600)
            viol = [l for l in r.stdout.splitlines() if l.startswith("VIOLATION")]
            proved = [l for l in viol if "bounded-driver" not in l]
            if m["expect"] == "violation":
                ok = r.returncode == 1 and bool(viol)
                got = "VIOLATION x%d (%d by obligations%s)" % (len(viol), len(proved), ", driver too" if len(proved) < len(viol) else "") if viol else "exit %d, no violation" % r.returncode
            else:
                ok = r.returncode == 0 and not viol
                got = "exit %d%s" % (r.returncode, (" " + viol[0][:120]) if viol else "")
            if not ok:
                bad += 1
                got = "UNEXPECTED: " + got + " | " + r.stdout.strip().splitlines()[-1][:200] if r.stdout.strip() else got
            rows.append((m["id"], m["prop"], m["expect"], got, time.time() - t0))
        finally:
            shutil.rmtree(sc, ignore_errors=True)
        print("%-4s %-4s expect=%-9s %s  (%.0fs)" % rows[-1], flush=True)
    print("selftest: %d mutants, %d unexpected" % (len(rows), bad))
    return 1 if bad else 0
