#!/bin/bash
# tools/seedcheck.sh <name> <prop> <dir-with-patch.diff-and-demo.py> [more props to run]
# Confirms a seeded change in a scratch worktree of /repo (applies, existing tests, demo with/without), runs the
# property's check against it, and stores it under /verif/seeded/<name>/ with a meta.json.  Nothing is applied to /repo.
set -u
NAME=$1; PROP=$2; SRC=$3; shift 3; EXTRA="$@"
WT=$(mktemp -d /tmp/vfseed.XXXXXX); rmdir $WT
git -C /repo worktree add -q --detach $WT HEAD || exit 3
trap 'git -C /repo worktree remove --force $WT >/dev/null 2>&1; rm -f $WT.demo0.log $WT.tests.log $WT.demo1.log' EXIT
PY=/verif/.venv/bin/python
cd $WT
# demo on the unchanged tree
PYTHONPATH=$WT timeout 600 $PY $SRC/demo.py >$WT.demo0.log 2>&1; D0=$?
git apply $SRC/patch.diff || { echo "patch does not apply"; exit 3; }
FILES=$(git diff --name-only | tr '\n' ' ')
/venv/bin/python -m pytest -q -p no:cacheprovider --timeout=900 --continue-on-collection-errors > $WT.tests.log 2>&1
TESTS=$(tail -1 $WT.tests.log)
PYTHONPATH=$WT timeout 600 $PY $SRC/demo.py >$WT.demo1.log 2>&1; D1=$?
cd /verif
declare -A RES
OUT=""
for P in $PROP $EXTRA; do
  mkdir -p $WT/.vf
  QUCUMBER_REPO=$WT VF_EVIDENCE_DIR=$WT/.vf/ev VF_REPLAY_DIR=$WT/.vf/replay timeout 3000 ./vf check $P --tier quick > $WT/.vf/$P.log 2>&1; RC=$?
  V=$(grep -c '^VIOLATION' $WT/.vf/$P.log)
  FIRST=$(grep '^VIOLATION' $WT/.vf/$P.log | grep -v bounded-driver | head -3 | sed 's/replay=[^ ]* //' | tr '\n' '|')
  BD=$(grep -c 'bounded-driver' $WT/.vf/$P.log)
  OUT="$OUT{\"property\":\"$P\",\"exit\":$RC,\"violation_lines\":$V,\"bounded_driver_also\":$BD,\"first\":\"$(echo $FIRST | sed 's/"/\\"/g')\"},"
  echo "$P exit=$RC violations=$V  $(tail -1 $WT/.vf/$P.log | cut -c1-150)"
done
mkdir -p /verif/seeded/$NAME
cp $SRC/patch.diff /verif/seeded/$NAME/patch.diff
cp $SRC/demo.py /verif/seeded/$NAME/demo.py
[ -f $SRC/notes.txt ] && cp $SRC/notes.txt /verif/seeded/$NAME/notes.txt
python3 - "$NAME" "$PROP" "$FILES" "$TESTS" "$D0" "$D1" "${OUT%,}" <<'PY'
import json,sys
name,prop,files,tests,d0,d1,out=sys.argv[1:8]
meta={"name":name,"breaks_property":prop,"files_changed":files.split(),
 "existing_tests_with_change":tests.strip(),"demo_exit_unchanged_tree":int(d0),"demo_exit_with_change":int(d1),
 "confirmed": (int(d0)==0 and int(d1)!=0 and "245 passed" in tests),
 "checks_run_against_change":json.loads("["+out+"]"),
 "what_was_run":"scratch worktree of /repo HEAD; demo.py before/after `git apply patch.diff`; baseline pytest command; ./vf check <prop> --tier quick with QUCUMBER_REPO=<worktree>"}
try:
    meta["needs_to_manifest"]=open("/verif/seeded/%s/notes.txt"%name).read()[:1500]
except OSError:
    pass
json.dump(meta,open("/verif/seeded/%s/meta.json"%name,"w"),indent=1)
print("confirmed=%s tests=%r demo %s->%s"%(meta["confirmed"],tests.strip()[-60:],d0,d1))
PY
