"""C19 concrete driver: random data files written to disk and read back through the real loaders."""
import os
import shutil
import tempfile

import numpy as np
import torch


def native_check(seed=0, n_files=4):
    from qucumber.utils import data as D
    rng = np.random.default_rng(seed)
    tmp = tempfile.mkdtemp(prefix="vf_c19_")
    fails = []
    try:
        for t in range(n_files):
            N, n = int(rng.integers(1, 9)), (1 if t % 3 == 0 else int(rng.integers(1, 5)))      # one site and one row included
            samples = rng.integers(0, 2, size=(N, n))
            psi = rng.normal(size=(2 ** n, 2))
            re_, im_ = rng.normal(size=(2 ** n, 2 ** n)), rng.normal(size=(2 ** n, 2 ** n))
            alphabet = [["X", "Y", "Z", "H"], ["X", "Z", "a"], ["Z", "z", "_"]][t % 3]
            trb = rng.choice(alphabet, size=(N, n))
            bs = ["".join(rng.choice(alphabet, size=n)) for _ in range(int(rng.integers(1, 4)))]
            p = lambda nm: os.path.join(tmp, "data_%s.txt" % nm)        # the same file names in every round: the files are rewritten
            np.savetxt(p("s"), samples, fmt="%d")
            np.savetxt(p("psi"), psi)
            np.savetxt(p("re"), re_)
            np.savetxt(p("im"), im_)
            np.savetxt(p("trb"), trb, fmt="%s")
            with open(p("b"), "w") as f:
                f.write("\n".join(bs) + "\n")
            out = D.load_data(p("s"), p("psi"), p("trb"), p("b"))
            if len(out) != 4 or not torch.equal(out[0], torch.tensor(samples, dtype=torch.double)):
                fails.append("load_data samples differ from the file")
            want = torch.tensor(psi.astype("float32"), dtype=torch.double)
            if tuple(out[1].shape) != (2, 2 ** n) or not torch.equal(out[1][0], want[:, 0]) or not torch.equal(out[1][1], want[:, 1]):
                fails.append("load_data target differs from the file (single precision)")
            if out[2].tolist() != trb.tolist() or list(np.atleast_1d(out[3])) != bs:
                fails.append("load_data bases differ from the file")
            out = D.load_data_DM(p("s"), p("re"), p("im"), p("trb"), p("b"))
            if len(out) != 4 or not torch.equal(out[1][0], torch.tensor(re_.astype("float32"), dtype=torch.double)) \
                    or not torch.equal(out[1][1], torch.tensor(im_.astype("float32"), dtype=torch.double)):
                fails.append("load_data_DM target differs from the files")
            for kw in ({"tr_mtx_real_path": p("re")}, {"tr_mtx_imag_path": p("im")}):
                try:
                    D.load_data_DM(p("s"), **kw)
                    fails.append("load_data_DM accepted a single matrix path")
                except ValueError:
                    pass
            z = D.extract_refbasis_samples(out[0], out[2])
            want_rows = [i for i in range(N) if all(c == "Z" for c in trb[i])]
            if tuple(z.shape) != (len(want_rows), n) or not torch.equal(z, out[0][want_rows]):
                fails.append("extract_refbasis_samples on the loaded data is not the all-Z rows in order (alphabet %s)" % "".join(alphabet))
            one = D.load_data(p("s"), bases_path=p("b"))
            if len(one) != 2 or np.ndim(one[1]) != 1:
                fails.append("load_data with a bases file only")
    finally:
        shutil.rmtree(tmp, ignore_errors=True)
    return fails


def replay(cfg):
    f = native_check(0)
    return {"reproduced": bool(f), "failed_clauses": f[:3]}


def tensor_order(seed):
    """rotate_psi / rotate_rho on non-palindromic basis strings against the dense Kronecker product (site 0 leftmost)."""
    from drivers import C04 as D4
    bad = []
    for b in ("XZ", "ZY", "ZXZ", "XZZY", "YZX"):
        for sym in (False, True):
            f = D4.check(b, sym, None, seed)
            if f:
                bad.append(({"basis": b, "user_dictionary": sym}, str(f[0])[:200], "tensor order"))
    return bad


def size_limit():
    from qucumber.nn_states import PositiveWaveFunction

    class Small(PositiveWaveFunction):
        max_size = property(lambda self: 3)
    bad = []
    s4 = Small(4, 1, gpu=False)
    for call, refusal, tag in ((lambda: s4.generate_hilbert_space(), True, "own size 4 > limit 3 (no size given)"), (lambda: s4.generate_hilbert_space(4), True, "size 4 > limit 3"),
                               (lambda: s4.generate_hilbert_space(3), False, "size 3 == limit")):
        try:
            call()
            got = False
        except ValueError:
            got = True
        if got != refusal:
            bad.append(({"case": tag}, "refused=%s, expected %s" % (got, refusal), "size limit"))
    return bad


def bounded(tier, seed):
    n = 4 if tier == "quick" else 40
    f = native_check(seed, n) + tensor_order(seed) + size_limit()
    return {"driver": "drivers/C19.native_check", "label": "bounded", "evaluations": n, "failures": len(f),
            "bound": "%d sets of random data files (any N, n, alphabet incl. a custom letter, complex targets) written with numpy and read back through load_data / load_data_DM" % n,
            "first_failures": f[:3]}
