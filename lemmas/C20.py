"""C20 — model construction and reset honour their documented contracts."""
import itertools
from unittest import mock

import numpy as np
import torch

from qv import alg, native as N, symtensor as st
from qv.alg import ZERO
from contracts import rbm as R

LEVEL = "proof"
MANIFEST = {
    "engine": "qv-native",
    "category": "proof",
    "technique": "contracts on the three constructors (size and module branches), initialize_parameters / reinitialize_parameters and the fit guards, executed as real code over enumerated configurations with torch.randn replaced by a recording stub; the zero phase-auxiliary-bias invariant is proved on symbolic parameters (real gradient routines, exact normal form)",
    "text": "Size branch: amplitude and phase networks are distinct objects with disjoint parameter storages, shapes (nh,nv), (na,nv), (nv,), (nh,), (na,) with nh, na defaulting to nv, weights exactly randn/sqrt(nv) of the recorded draws, biases zero. Module branch: the state's amplitude network is the supplied module (same parameter objects and sizes) and the phase network is a different object with equal values and disjoint storages, so a write to one never shows in the other; construction terminates normally. reinitialize_parameters calls every network's initialize_parameters exactly once and keeps shapes; training a complex / mixed state without bases is refused before any event or parameter change. The last num_aux entries of every phase-network gradient the library produces (gamma_grad, pi_grad, rotated_gradient, hence gradient and compute_batch_gradients) are the zero polynomial for all parameter values, so a zero phase auxiliary bias stays zero under any optimizer whose update vanishes on an all-zero gradient history.",
    "note": "sizes enumerated (nv 1..4, nh / na defaulted or explicit), values unbounded where symbolic; optimizers with weight decay keep 0 at 0; torch.randn's law is trusted",
}
EXPLANATION = "real constructors with a recording randn stub; storage identity via data_ptr; symbolic gradients for the invariant"
TRUSTED = ["an optimizer leaves a zero parameter at zero when all of its gradients are exactly zero"]


def configs(tier):
    out = []
    sizes = [(1, None, None), (2, 3, 1), (3, None, 2), (2, 1, None), (2, 2, 0), (2, 0, 1)] if tier == "quick" else \
        [(nv, nh, na) for nv in (1, 2, 3, 4) for nh in (None, 0, 1, 3) for na in (None, 0, 1, 2)]
    for kind in ("positive", "complex", "mixed"):
        for (nv, nh, na) in sizes:
            if kind != "mixed" and (na is not None or nh == 0):
                continue            # explicit zero sizes are only meaningful for the purification RBM (pure-state limit)
            out.append({"part": "sizes", "kind": kind, "nv": nv, "nh": nh, "na": na})
        out.append({"part": "sizes", "kind": kind, "nv": 2, "nh": 3, "na": 1 if kind == "mixed" else None, "gpu": True})
        out.append({"part": "module", "kind": kind})
        out.append({"part": "reinit", "kind": kind})
    for arch in ([(1, 1, 1), (2, 1, 2)] if tier == "quick" else [(1, 1, 1), (2, 1, 2), (2, 2, 1), (1, 2, 3)]):
        out.append({"part": "aux-bias-gradient", "arch": list(arch)})
    out.append({"part": "fit-guards"})
    return out


def canaries(tier):
    return [({"part": "aux-bias-gradient", "arch": [1, 1, 1]}, "spec-aux-weight-gradient-also-zero")]


def run_config(ctx, cfg):
    return {"sizes": _sizes, "module": _module, "reinit": _reinit, "aux-bias-gradient": _aux, "fit-guards": _guards}[cfg["part"]](ctx, cfg)


def _cls(kind):
    from qucumber.nn_states import PositiveWaveFunction, ComplexWaveFunction, DensityMatrix
    return {"positive": PositiveWaveFunction, "complex": ComplexWaveFunction, "mixed": DensityMatrix}[kind]


def _ptrs(m):
    # empty tensors own no storage (data_ptr() == 0 for all of them) and cannot alias anything
    return {n: p.data_ptr() for n, p in m.named_parameters() if p.numel() > 0}


def _sizes(ctx, cfg):
    kind, nv, nh, na = cfg["kind"], cfg["nv"], cfg["nh"], cfg["na"]
    ctx.under_contract("%s.__init__" % _cls(kind).__name__, "BinaryRBM.__init__" if kind != "mixed" else "PurificationRBM.__init__",
                       "BinaryRBM.initialize_parameters" if kind != "mixed" else "PurificationRBM.initialize_parameters")
    draws = []
    real = torch.randn

    def rec(*size, **k):
        t = real(*size, **k)
        draws.append(t.clone())
        return t
    gpu = bool(cfg.get("gpu", False))          # gpu=True is legal without a GPU (a warning, then the CPU is used): same construction
    import warnings
    with mock.patch.object(torch, "randn", rec), warnings.catch_warnings():
        warnings.simplefilter("ignore")
        s = _cls(kind)(nv, nh, na, gpu=gpu) if kind == "mixed" else _cls(kind)(nv, nh, gpu=gpu)
    enh = (nh if nh is not None else nv) if kind == "mixed" else (nh if nh else nv)
    ena = na if na is not None else nv
    nets = s.networks
    ctx.holds("sizes/networks[%s]" % kind, nets == (["rbm_am"] if kind == "positive" else ["rbm_am", "rbm_ph"]))
    ctx.holds("sizes/state sizes", s.num_visible == nv and s.num_hidden == enh and (kind != "mixed" or s.num_aux == ena))
    di = 0
    for net in nets:
        m = getattr(s, net)
        shapes = {n: tuple(p.shape) for n, p in m.named_parameters()}
        if kind == "mixed":
            want = {"weights_W": (enh, nv), "weights_U": (ena, nv), "visible_bias": (nv,), "hidden_bias": (enh,), "aux_bias": (ena,)}
            wnames = ["weights_W", "weights_U"]
        else:
            want = {"weights": (enh, nv), "visible_bias": (nv,), "hidden_bias": (enh,)}
            wnames = ["weights"]
        ctx.holds("sizes/%s parameter shapes (defaults nh = nv, na = nv)" % net, shapes == want, str(shapes))
        ctx.holds("sizes/%s num_pars == total number of entries" % net, m.num_pars == sum(int(np.prod(v)) for v in want.values()))
        ctx.holds("sizes/%s all parameters double, not requiring grad" % net, all(p.dtype == torch.double and not p.requires_grad for p in m.parameters()))
        for wn in wnames:
            ok = di < len(draws) and torch.equal(getattr(m, wn).detach(), draws[di] / np.sqrt(nv))
            ctx.holds("sizes/%s.%s == randn draw / sqrt(num_visible)" % (net, wn), ok)
            di += 1
        for bn in [n for n in want if n.endswith("bias")]:
            ctx.holds("sizes/%s.%s is zero" % (net, bn), bool((getattr(m, bn) == 0).all()))
    ctx.holds("sizes/exactly one randn draw per weight matrix", di == len(draws))
    # the device the state reports is the device its parameters live on (the CPU whenever CUDA is unavailable, whatever
    # gpu= says), and the freshly built state can be evaluated
    pdev = {p.device.type for net in nets for p in getattr(s, net).parameters()}
    ctx.holds("sizes/state.device and every network's device are where the parameters are", pdev == {torch.device(s.device).type}
              and all(torch.device(getattr(s, net).device).type in pdev for net in nets), "%s vs state %s" % (pdev, s.device))
    try:
        sp = s.generate_hilbert_space(nv)
        val = s.rho(sp, sp) if kind == "mixed" else s.psi(sp)
        Z = s.normalization(sp)
        smp = s.sample(k=1, num_samples=3)
        ok_eval = tuple(val.shape)[0] == 2 and float(Z) > 0 and tuple(smp.shape) == (3, nv)
        why = ""
    except Exception as e:                 # noqa: BLE001
        ok_eval, why = False, "%s: %s" % (type(e).__name__, str(e)[:160])
    ctx.holds("sizes/a freshly built state evaluates (psi / rho, normalization, sample)", ok_eval, why)
    if kind != "positive":
        ctx.holds("sizes/amplitude and phase networks are distinct objects with disjoint storages",
                  s.rbm_am is not s.rbm_ph and not (set(_ptrs(s.rbm_am).values()) & set(_ptrs(s.rbm_ph).values())))
        ctx.holds("sizes/independent random weights", not torch.equal(s.rbm_am.weights_W if kind == "mixed" else s.rbm_am.weights,
                                                                  s.rbm_ph.weights_W if kind == "mixed" else s.rbm_ph.weights) or nv * enh == 0)
        ctx.holds("sizes/default unitary dictionary", sorted(s.unitary_dict.keys()) == ["X", "Y", "Z"])


def _module(ctx, cfg):
    from qucumber.rbm import BinaryRBM, PurificationRBM
    kind = cfg["kind"]
    ctx.under_contract("%s.__init__" % _cls(kind).__name__)
    import warnings
    for arch, gpu in (((2, 3, 2), False), ((3, 1, 1), False), ((2, 2, 1), True)):      # gpu=True without CUDA: a warning, then the CPU
        mod = PurificationRBM(*arch, gpu=False) if kind == "mixed" else BinaryRBM(arch[0], arch[1], gpu=False)
        for p in mod.parameters():
            p.data = torch.randn_like(p)
        ptr0 = _ptrs(mod)
        vals0 = {n: p.detach().clone() for n, p in mod.named_parameters()}
        t = "[%s arch=%s%s]" % (kind, arch, " gpu=True" if gpu else "")
        try:
            with warnings.catch_warnings():
                warnings.simplefilter("ignore")
                s = _cls(kind)(99, module=mod, gpu=gpu)
                sp = s.generate_hilbert_space(arch[0])
                (s.rho(sp, sp) if kind == "mixed" else s.psi(sp))
        except Exception as e:
            ctx.holds("module/construction terminates normally" + t, False, "%s: %s" % (type(e).__name__, e))
            continue
        ctx.holds("module/construction terminates normally" + t, True)
        ctx.holds("module/the amplitude network is the supplied module (same parameter objects)" + t,
                  s.rbm_am is mod and _ptrs(s.rbm_am) == ptr0)
        ctx.holds("module/sizes are the module's, not the num_visible argument" + t, s.num_visible == arch[0] and s.num_hidden == arch[1]
                  and (kind != "mixed" or s.num_aux == arch[2]))
        if kind != "positive":
            # the phase network is a copy of the module AS HANDED OVER: what happens to the module (or to the amplitude
            # network) afterwards - before anything has looked at the phase network - does not reach it
            mod2 = PurificationRBM(*arch, gpu=False) if kind == "mixed" else BinaryRBM(arch[0], arch[1], gpu=False)
            for p in mod2.parameters():
                p.data = torch.randn_like(p)
            handed = {n: p.detach().clone() for n, p in mod2.named_parameters()}
            with warnings.catch_warnings():
                warnings.simplefilter("ignore")
                s2 = _cls(kind)(99, module=mod2, gpu=gpu)
            with torch.no_grad():
                for p in mod2.parameters():
                    p.mul_(3.0).add_(1.0)
            s2.rbm_am.initialize_parameters()
            ctx.holds("module/phase network holds the values the module had when it was handed over (module changed right after construction)" + t,
                      all(torch.equal(p.detach(), handed[n]) for n, p in s2.rbm_ph.named_parameters()))
            ph = s.rbm_ph
            ctx.holds("module/phase network is a different object of the same class and sizes" + t, ph is not mod and type(ph) is type(mod)
                      and {n: tuple(p.shape) for n, p in ph.named_parameters()} == {n: tuple(p.shape) for n, p in mod.named_parameters()})
            ctx.holds("module/phase network starts as a copy of the module's values" + t, all(torch.equal(p.detach(), vals0[n]) for n, p in ph.named_parameters()))
            ctx.holds("module/phase network shares no storage with the amplitude network" + t, not (set(_ptrs(ph).values()) & set(ptr0.values())))
            with torch.no_grad():
                for p in ph.parameters():
                    p.add_(1.0)
            ctx.holds("module/changing the phase network never changes the amplitude network" + t, all(torch.equal(p.detach(), vals0[n]) for n, p in mod.named_parameters()))
            keep = {n: p.detach().clone() for n, p in ph.named_parameters()}
            with torch.no_grad():
                for p in mod.parameters():
                    p.mul_(-2.0)
            ctx.holds("module/changing the amplitude network never changes the phase network" + t, all(torch.equal(p.detach(), keep[n]) for n, p in ph.named_parameters()))
            # history: a second state built around the same module object (now holding other values): its phase network is
            # its own copy of the module's current values, and the first state's phase network stays what it was
            now = {n: p.detach().clone() for n, p in mod.named_parameters()}
            with warnings.catch_warnings():
                warnings.simplefilter("ignore")
                s3 = _cls(kind)(99, module=mod, gpu=gpu)
            ctx.holds("module/a second state built around the same module gets its own phase network, a copy of the module's current values" + t,
                      s3.rbm_ph is not s.rbm_ph and s3.rbm_ph is not mod and all(torch.equal(p.detach(), now[n]) for n, p in s3.rbm_ph.named_parameters())
                      and not (set(_ptrs(s3.rbm_ph).values()) & (set(_ptrs(s.rbm_ph).values()) | set(ptr0.values()))))
            with torch.no_grad():
                for p in s3.rbm_ph.parameters():
                    p.sub_(0.5)
            ctx.holds("module/changing the second state's phase network never changes the first state's" + t,
                      all(torch.equal(p.detach(), keep[n]) for n, p in s.rbm_ph.named_parameters()))


def _reinit(ctx, cfg):
    from drivers import common as DC
    kind = cfg["kind"]
    ctx.under_contract("NeuralStateBase.reinitialize_parameters", "WaveFunctionBase.reinitialize_parameters")
    s = DC.make_state(kind, 2, 3, 1)
    shapes = {(net, n): tuple(p.shape) for net in s.networks for n, p in getattr(s, net).named_parameters()}
    for net in s.networks:
        with torch.no_grad():
            for p in getattr(s, net).parameters():
                p.fill_(7.0)
    calls = []
    for net in s.networks:
        m = getattr(s, net)
        real = m.initialize_parameters
        m.__dict__["initialize_parameters"] = (lambda real, net: (lambda *a, **k: (calls.append((net, a, k)), real(*a, **k))[1]))(real, net)
    r = s.reinitialize_parameters()
    ctx.holds("reinitialize/every network's initialize_parameters called exactly once, with defaults", r is None and calls == [(net, (), {}) for net in s.networks], str(calls))
    ctx.holds("reinitialize/shapes unchanged", {(net, n): tuple(p.shape) for net in s.networks for n, p in getattr(s, net).named_parameters()} == shapes)
    ok = True
    for net in s.networks:
        for n, p in getattr(s, net).named_parameters():
            if n.endswith("bias"):
                ok &= bool((p == 0).all())
            else:
                ok &= not bool((p == 7.0).any())
    ctx.holds("reinitialize/all parameters redrawn (weights random, biases zero)", ok)
    # history: a state built around a user's module - one constructed with zero weights (as pre-training from scratch
    # does), or with weights set by hand afterwards - is redrawn like any other
    from qucumber.rbm import BinaryRBM, PurificationRBM
    for how in ("module constructed with zero_weights=True", "module with hand-set parameters"):
        mod = PurificationRBM(2, 3, 1, gpu=False, zero_weights=how.endswith("True")) if kind == "mixed" else BinaryRBM(2, 3, gpu=False, zero_weights=how.endswith("True"))
        if not how.endswith("True"):
            with torch.no_grad():
                for p in mod.parameters():
                    p.fill_(7.0)
        s2 = _cls(kind)(99, module=mod, gpu=False)
        s2.reinitialize_parameters()
        ok2 = True
        for net in s2.networks:
            for n, p in getattr(s2, net).named_parameters():
                if n.endswith("bias"):
                    ok2 &= bool((p == 0).all())
                else:
                    ok2 &= bool((p != 0).all()) and not bool((p == 7.0).any())
        ctx.holds("reinitialize/history: %s: all parameters of all networks redrawn (weights random and non-zero, biases zero)" % how, ok2)


def _guards(ctx, cfg):
    from lemmas import C12
    C12._overrides(ctx, cfg)


def _aux(ctx, cfg):
    """Invariant rbm_ph.aux_bias == 0: every phase gradient the library produces has zero auxiliary-bias entries."""
    from drivers import common as DC
    from lemmas.C03 import layout
    canary = getattr(ctx, "canary", None)
    nv, nh, na = cfg["arch"]
    state = DC.make_state("mixed", nv, nh, na)
    N.symbolize(state.rbm_am, "am")
    N.symbolize(state.rbm_ph, "ph", zero=("aux_bias",))
    lay = layout(state.rbm_ph)
    idx = [k for k, (name, _i, _a) in enumerate(lay) if name == "aux_bias"]
    if canary == "spec-aux-weight-gradient-also-zero":
        idx = [k for k, (name, _i, _a) in enumerate(lay) if name in ("aux_bias", "weights_U")]
    ctx.under_contract("PurificationRBM.gamma_grad", "DensityMatrix.pi_grad", "DensityMatrix.ph_grads", "DensityMatrix.rotated_gradient", "NeuralStateBase.gradient")
    ctx.holds("aux-bias/the auxiliary bias occupies the last num_aux entries of the phase gradient", [k for k, (n_, _i, _a) in enumerate(lay) if n_ == "aux_bias"] == list(range(len(lay) - na, len(lay))))
    space = torch.tensor(R.bits(nv), dtype=torch.double)
    D = 2 ** nv
    g = state.ph_grads(space)
    for i in range(D):
        for j in range(D):
            for k in idx:
                ctx.eq("aux-bias/ph_grads entry is identically zero[%d,%d,k=%d]" % (i, j, k), g._arr[0, i, j, k] + alg.I * g._arr[1, i, j, k], ZERO, z3_confirm=False)
    strings = ["".join(b) for b in itertools.product("XYZ", repeat=nv)]
    for b in strings:
        if set(b) == {"Z"}:
            continue
        rg = state.rotated_gradient(np.array(list(b)), space)
        for k in idx:
            ctx.eq("aux-bias/rotated_gradient phase entry is identically zero[basis=%s k=%d]" % (b, k), rg[1]._arr[k], ZERO, z3_confirm=False)
    samples = space[[0, D - 1]]
    bases = np.array([list(strings[0]), list(strings[-1])])
    gr = state.gradient(samples, bases)
    for k in idx:
        ctx.eq("aux-bias/gradient phase entry is identically zero[k=%d]" % k, st._obj(gr[1])[k], ZERO, z3_confirm=False)


def replay(o):
    from drivers import C20 as D
    return D.replay(o["cfg"])
