"""C11 concrete driver: real files; random interleavings of randomise / train / save / save-again / load / autoload."""
import os
import random
import shutil
import tempfile

import numpy as np
import torch

from . import common as C


def snapshot(st):
    d = {(net, n): p.detach().clone() for net in st.networks for n, p in getattr(st, net).named_parameters()}
    ud = {k: v.clone() for k, v in st.unitary_dict.items()} if hasattr(st, "unitary_dict") else None
    arch = (st.num_visible, st.num_hidden, getattr(st, "num_aux", None))
    return d, ud, arch


def same(a, b):
    (pa, ua, aa), (pb, ub, ab) = a, b
    if aa != ab or set(pa) != set(pb) or any(not torch.equal(pa[k], pb[k]) for k in pa):
        return False
    if (ua is None) != (ub is None):
        return False
    return ua is None or (set(ua) == set(ub) and all(ua[k].dtype == ub[k].dtype and torch.equal(ua[k], ub[k]) for k in ua))


def interleaving(kind, seed, steps=25):
    from qucumber.utils import unitaries
    rnd = random.Random(seed)
    rng = np.random.default_rng(seed)
    torch.manual_seed(seed)
    tmp = tempfile.mkdtemp(prefix="vf_c11_")
    fails = []
    try:
        def fresh():
            nv, nh, na = rnd.choice([(2, 3, 1), (2, 1, 2), (3, 2, 2)])
            ud = None
            r = rnd.random()
            if kind != "positive" and r < 0.35:
                ud = unitaries.create_dict(H=torch.tensor([[[1., 1.], [1., -1.]], [[0., 0.], [0., 0.]]]) / np.sqrt(2))
            elif kind != "positive" and r < 0.7:
                # not a superset of the defaults, one single-precision entry
                ud = {"Z": unitaries.create_dict()["Z"], "H": (torch.tensor([[[1., 1.], [1., -1.]], [[0., 0.], [0., 0.]]]) / np.sqrt(2)).float()}
            st = C.make_state(kind, nv, nh, na, unitary_dict=ud)
            C.randomize(st, rng, 1.0)
            return st
        models = [fresh(), fresh()]
        files = {}          # path -> (snapshot, metadata)
        shared_md = {"run": 7, "nested": {"a": [1, 2]}, "t": torch.arange(3)}
        md_keys = list(shared_md.keys())
        for step in range(steps):
            op = rnd.choice(["randomise", "train", "save", "save-again", "load", "autoload", "new"])
            m = rnd.choice(models)
            if op == "randomise":
                m.reinitialize_parameters()
            elif op == "train":
                N = 4
                data = torch.tensor(rng.integers(0, 2, size=(N, m.num_visible)), dtype=torch.double)
                kw = {}
                if kind != "positive":
                    b = np.array([["Z"] * m.num_visible for _ in range(N)])
                    b[1, 0] = "X" if "X" in m.unitary_dict else "H"      # only letters the state's dictionary knows
                    kw["input_bases"] = b
                m.fit(data, epochs=1, pos_batch_size=2, lr=0.1, **kw)
            elif op in ("save", "save-again"):
                path = os.path.join(tmp, "f%d.pt" % rnd.randrange(3)) if op == "save" or not files else rnd.choice(list(files))
                md = rnd.choice([None, {}, shared_md])
                before = snapshot(m)
                try:
                    m.save(path, md)
                except Exception as e:
                    fails.append("step %d: save raised %r (metadata keys now %s)" % (step, e, None if md is None else list(md.keys())))
                    break
                if not same(before, snapshot(m)):
                    fails.append("step %d: save changed the model" % step)
                if list(shared_md.keys()) != md_keys:
                    fails.append("step %d: save changed the caller's metadata object: %s" % (step, list(shared_md.keys())))
                    break
                files[path] = (before, md)
            elif op == "load" and files:
                path = rnd.choice(list(files))
                snap, md = files[path]
                tgt = [x for x in models if (x.num_visible, x.num_hidden, getattr(x, "num_aux", None)) == snap[2]]
                if tgt:
                    t = rnd.choice(tgt)
                    t.load(path)
                    got = snapshot(t)
                    if not same(snap, got):
                        fails.append("step %d: load did not reproduce the saved state" % step)
            elif op == "autoload" and files:
                path = rnd.choice(list(files))
                snap, md = files[path]
                new = type(models[0]).autoload(path)
                if not same(snap, snapshot(new)):
                    fails.append("step %d: autoload did not reproduce the saved state / architecture / dictionary" % step)
                d = torch.load(path)
                if md:
                    for k in md_keys:
                        if k not in d:
                            fails.append("step %d: metadata key %s missing from the file" % (step, k))
                models[rnd.randrange(2)] = new
            elif op == "new":
                models[rnd.randrange(2)] = fresh()
            # history invariant: every file still holds the snapshot of its last save
            for path, (snap, md) in files.items():
                new = type(models[0]).autoload(path)
                if not same(snap, snapshot(new)):
                    fails.append("step %d (%s): file %s no longer holds the snapshot of its last save" % (step, op, os.path.basename(path)))
            if fails:
                break
        for k, name in (("positive", "rbm_am"),):
            pass
        # reserved names are refused
        m = models[0]
        for key in m.networks + (["unitary_dict"] if hasattr(m, "unitary_dict") else []):
            try:
                m.save(os.path.join(tmp, "bad.pt"), {key: 1})
                fails.append("reserved metadata key %r accepted" % key)
            except ValueError:
                pass
    finally:
        shutil.rmtree(tmp, ignore_errors=True)
    return fails


def foreign_reserved_key():
    """A positive state has no unitary dictionary, so "unitary_dict" is an ordinary metadata key for it: saving, loading
    and saving again behave as for any other key."""
    import tempfile, shutil, os
    from qucumber.nn_states import PositiveWaveFunction
    tmp = tempfile.mkdtemp(prefix="vf_c11k_")
    f = []
    try:
        st = PositiveWaveFunction(2, 2, gpu=False)
        p1, p2, p3 = (os.path.join(tmp, "f%d.pt" % i) for i in (1, 2, 3))
        try:
            st.save(p1, metadata={"unitary_dict": "a note", "run": 3})
        except ValueError:
            return []                      # refused outright: nothing to follow up
        had = hasattr(st, "unitary_dict")
        st.load(p1)
        if hasattr(st, "unitary_dict") != had:
            f.append(("load of a file whose metadata has the key 'unitary_dict' gave a positive state that attribute", None))
        st.save(p2)
        keys = sorted(torch.load(p2, weights_only=False).keys())
        if keys != ["rbm_am"]:
            f.append(("a save without metadata after that load wrote the keys %s" % keys, None))
        try:
            st.save(p3, metadata={"unitary_dict": "a note", "run": 3})
            got = torch.load(p3, weights_only=False)
            if got.get("unitary_dict") != "a note" or got.get("run") != 3:
                f.append(("the same metadata saved again after the load is not what the file holds", None))
        except ValueError as e:
            f.append(("the same metadata is refused after the load: %s" % e, None))
        st2 = PositiveWaveFunction.autoload(p1, gpu=False)
        st2.save(p2)
        if sorted(torch.load(p2, weights_only=False).keys()) != ["rbm_am"]:
            f.append(("a state made by autoload from that file saves extra keys", None))
    finally:
        shutil.rmtree(tmp, ignore_errors=True)
    return f


def native_check(quick=True):
    fails, n = [], 0
    f = foreign_reserved_key()
    n += 1
    if f:
        fails.append((("metadata key 'unitary_dict' on a positive state: save, load, save",), f[:2]))
    from drivers import C17 as D17
    f = D17.failed_save() + D17.late_metadata() + D17.relative_folder()
    n += 3
    if f:
        fails.append((("checkpoints through a ModelSaver that had a failed save before",), f[:2]))
    for kind in ("positive", "complex", "mixed"):
        for seed in range(3 if quick else 20):
            f = interleaving(kind, seed, 20 if quick else 40)
            n += 1
            if f:
                fails.append(((kind, seed), f[:2]))
    return fails, n


def replay(cfg):
    f, n = native_check(True)
    return {"reproduced": bool(f), "failed_clauses": [str(x)[:400] for x in f[:3]]}


def bounded(tier, seed):
    f, n = native_check(tier == "quick")
    return {"driver": "drivers/C11.interleaving", "label": "bounded", "evaluations": n, "failures": len(f),
            "bound": "random interleavings (20-40 operations) of randomise / train / save / save-again / load / autoload over two models and three files per state type, real torch.save / torch.load; after every step every file is reloaded and compared with the snapshot of its last save",
            "first_failures": [str(x)[:400] for x in f[:3]]}
