"""Shape-generic contracts (front end G) for the RBMs and the neural states built on them: for every number of
visible / hidden / auxiliary units and every batch size.  The contract tensors are the closed forms in which the
hidden (and auxiliary) units are summed out unit by unit; that these closed forms equal the sums over all hidden
configurations is the size-generic lemma lean/Marginals.lean (checked by Lean + Mathlib), and per enumerated shape
the obligation `lemma/...` of C01 / C02.
"""
import torch
from torch import nn

from qv import gen as G
from .generic import GCase, cbuild


def _is_g(t):
    return isinstance(t, G.GT)


def _mk(cls, sizes, params):
    m = cls.__new__(cls)
    nn.Module.__init__(m)
    for k, v in sizes.items():
        object.__setattr__(m, k, v)
    m.gpu = False
    m.device = torch.device("cpu")
    for k, v in params.items():
        if _is_g(v):
            m.__dict__[k] = v
        else:
            setattr(m, k, nn.Parameter(v.clone(), requires_grad=False))
    return m


def binary(W, b, c):
    from qucumber.rbm import BinaryRBM
    nh, nv = W.shape
    m = _mk(BinaryRBM, {"num_visible": nv, "num_hidden": nh}, {"weights": W, "visible_bias": b, "hidden_bias": c})
    object.__setattr__(m, "num_pars", nv * nh + nv + nh)
    return m


def purification(W, U, b, c, d):
    from qucumber.rbm import PurificationRBM
    nh, nv = W.shape
    na = U.shape[0]
    return _mk(PurificationRBM, {"num_visible": nv, "num_hidden": nh, "num_aux": na, "num_pars": nv * nh + nv * na + nv + nh + na},
               {"weights_W": W, "weights_U": U, "visible_bias": b, "hidden_bias": c, "aux_bias": d})


def _state(cls, **nets):
    s = cls.__new__(cls)
    s._device = torch.device("cpu")
    for k, v in nets.items():
        object.__setattr__(s, "_" + k, v)
    object.__setattr__(s, "num_visible", nets["rbm_am"].num_visible)
    return s


class _packed_vectors:
    """parameters_to_vector with its contract: the concatenation of the flattened tensors, in order.  On symbolic
    shapes the pieces are kept apart (the obligation compares them one by one); on real tensors nothing is patched."""

    def __init__(self, module):
        self.module = module

    def __enter__(self):
        self.saved = self.module.parameters_to_vector
        real = self.saved

        def p2v(ts):
            ts = list(ts)
            if any(_is_g(t) for t in ts):
                return G.Packed(ts)
            return real(ts)
        self.module.parameters_to_vector = p2v
        return self

    def __exit__(self, *a):
        self.module.parameters_to_vector = self.saved
        return False


def _split(vec, shapes):
    out, off = [], 0
    for s in shapes:
        n = 1
        for x in s:
            n *= int(x)
        out.append(vec[off:off + n].reshape(*[int(x) for x in s]))
        off += n
    return tuple(out)


def cases(which):
    B, Bp, nv, nh, na, S = (G.dim(x) for x in ("B", "Bp", "nv", "nh", "na", "S"))
    out = []

    def add(*a, **kw):
        out.append(GCase(*a, **kw))

    P_BIN = [("W", (nh, nv), "real"), ("b", (nv,), "real"), ("c", (nh,), "real")]
    P_PUR = [("W", (nh, nv), "real"), ("U", (na, nv), "real"), ("b", (nv,), "real"), ("c", (nh,), "real"), ("d", (na,), "real")]
    P_PH = [("Wp", (nh, nv), "real"), ("bp", (nv,), "real"), ("cp", (nh,), "real")]
    P_PURPH = [("Wp", (nh, nv), "real"), ("Up", (na, nv), "real"), ("bp", (nv,), "real"), ("cp", (nh,), "real"), ("dp", (na,), "real")]

    def lin(Wm, cm, v, bi, j):            # c_j + sum_i W[j,i] v[b,i]
        return cm(j) + G.sum_over(nv, lambda i: Wm(j, i) * v(*(bi + (i,))))

    def energy(Wm, bm, cm, v, bi, nh_=nh):       # -( b.v + sum_j softplus(c_j + W_j.v) )
        return -(G.sum_over(nv, lambda i: v(*(bi + (i,))) * bm(i)) +
                 G.sum_over(nh_, lambda j: G.fn("softplus", lin(Wm, cm, v, bi, j))))

    def gam(W, b, c, v, vp, bi, bj, sign):
        g1 = G.sum_over(nv, lambda i: v(*(bi + (i,))) * b(i)) + G.sum_over(nh, lambda j: G.fn("softplus", lin(W, c, v, bi, j)))
        g2 = G.sum_over(nv, lambda i: vp(*(bj + (i,))) * b(i)) + G.sum_over(nh, lambda j: G.fn("softplus", lin(W, c, vp, bj, j)))
        return (g1 + sign * g2) / 2

    def pi_parts(U, d, Up, v, vp, bi, bj, q):
        x = (d(q) + G.sum_over(nv, lambda i: U(q, i) * v(*(bi + (i,)))) + d(q) + G.sum_over(nv, lambda i: U(q, i) * vp(*(bj + (i,))))) / 2
        ph = (G.sum_over(nv, lambda i: Up(q, i) * v(*(bi + (i,)))) - G.sum_over(nv, lambda i: Up(q, i) * vp(*(bj + (i,))))) / 2
        return x, ph

    def pi_re(U, d, Up, v, vp, bi, bj):      # sum_a log |1 + exp(x_a + i phi_a)|
        def f(q):
            x, ph = pi_parts(U, d, Up, v, vp, bi, bj, q)
            return G.fn("log", 1 + 2 * G.fn("exp", x) * G.fn("cos", ph) + G.fn("exp", 2 * x)) / 2
        return G.sum_over(na, f)

    def pi_im(U, d, Up, v, vp, bi, bj):      # sum_a arg (1 + exp(x_a + i phi_a))
        def f(q):
            x, ph = pi_parts(U, d, Up, v, vp, bi, bj, q)
            return G.fn("atan2", G.fn("exp", x) * G.fn("sin", ph), 1 + G.fn("exp", x) * G.fn("cos", ph))
        return G.sum_over(na, f)
    def rho_el(p, v, vp, bi, bj):
        am = G.fn("exp", gam(p["W"], p["b"], p["c"], v, vp, bi, bj, 1) + pi_re(p["U"], p["d"], p["Up"], v, vp, bi, bj))
        ph = gam(p["Wp"], p["bp"], p["cp"], v, vp, bi, bj, -1) + pi_im(p["U"], p["d"], p["Up"], v, vp, bi, bj)
        return (am * G.fn("cos", ph), am * G.fn("sin", ph))
    def penergy_(p, v, bi):
        return -(G.sum_over(nv, lambda i: v(*(bi + (i,))) * p["b"](i)) +
                 G.sum_over(nh, lambda j: G.fn("softplus", lin(p["W"], p["c"], v, bi, j))) +
                 G.sum_over(na, lambda a: G.fn("softplus", lin(p["U"], p["d"], v, bi, a))))

    if which in ("binary", "all"):
        # ---- BinaryRBM --------------------------------------------------------------------------------------------
        add("BinaryRBM.effective_energy[batch]", P_BIN + [("v", (B, nv), "bits")],
            lambda W, b, c, v: binary(W, b, c).effective_energy(v),
            lambda W, b, c, v: G.build((B,), lambda s: energy(W, b, c, v, (s,))))
        out[-1].canary_spec = lambda W, b, c, v: G.build((B,), lambda s: -(G.sum_over(nv, lambda i: v(s, i) * b(i)) + G.sum_over(
            nh, lambda j: G.fn("softplus", G.sum_over(nv, lambda i: W(j, i) * v(s, i))))))      # hidden bias dropped
        add("BinaryRBM.effective_energy[one state]", P_BIN + [("v", (nv,), "bits")],
            lambda W, b, c, v: binary(W, b, c).effective_energy(v),
            lambda W, b, c, v: G.build((), lambda: energy(W, b, c, v, ())))
        add("BinaryRBM.partition[given space]", P_BIN + [("v", (S, nv), "bits")],
            lambda W, b, c, v: binary(W, b, c).partition(v),
            lambda W, b, c, v: G.build((), lambda: G.sum_over(S, lambda s: G.fn("exp", -energy(W, b, c, v, (s,))))))
        add("BinaryRBM.prob_h_given_v[batch]", P_BIN + [("v", (B, nv), "bits")],
            lambda W, b, c, v: binary(W, b, c).prob_h_given_v(v),
            lambda W, b, c, v: G.build((B, nh), lambda s, j: G.fn("sigmoid", lin(W, c, v, (s,), j))))
        out[-1].canary_spec = lambda W, b, c, v: G.build((B, nh), lambda s, j: G.fn("sigmoid", b(j) * 0 + G.sum_over(nv, lambda i: W(j, i) * v(s, i))))
        add("BinaryRBM.prob_h_given_v[one state]", P_BIN + [("v", (nv,), "bits")],
            lambda W, b, c, v: binary(W, b, c).prob_h_given_v(v),
            lambda W, b, c, v: G.build((nh,), lambda j: G.fn("sigmoid", lin(W, c, v, (), j))))
        add("BinaryRBM.prob_v_given_h[batch]", P_BIN + [("h", (B, nh), "bits")],
            lambda W, b, c, h: binary(W, b, c).prob_v_given_h(h),
            lambda W, b, c, h: G.build((B, nv), lambda s, i: G.fn("sigmoid", b(i) + G.sum_over(nh, lambda j: h(s, j) * W(j, i)))))
        add("BinaryRBM.prob_h_given_v[batch, out=buffer]", P_BIN + [("v", (B, nv), "bits"), ("o", (B, nh), "real")],
            lambda W, b, c, v, o: (lambda r: (r, o))(binary(W, b, c).prob_h_given_v(v, out=o)),
            lambda W, b, c, v, o: (lambda t: (t, t))(G.build((B, nh), lambda s, j: G.fn("sigmoid", lin(W, c, v, (s,), j)))),
            mutates=("o",))
        add("BinaryRBM.prob_v_given_h[batch, out=buffer]", P_BIN + [("h", (B, nh), "bits"), ("o", (B, nv), "real")],
            lambda W, b, c, h, o: (lambda r: (r, o))(binary(W, b, c).prob_v_given_h(h, out=o)),
            lambda W, b, c, h, o: (lambda t: (t, t))(G.build((B, nv), lambda s, i: G.fn("sigmoid", b(i) + G.sum_over(nh, lambda j: h(s, j) * W(j, i))))),
            mutates=("o",))

        def grad_call(W, b, c, v):
            import qucumber.rbm.binary_rbm as mod
            with _packed_vectors(mod):
                r = binary(W, b, c).effective_energy_gradient(v)
            if isinstance(r, G.Packed):
                return tuple(r.pieces)
            return _split(r, [W.shape, b.shape, c.shape])

        def grad_spec(W, b, c, v, batch=True):
            if batch:
                sg = lambda s, j: G.fn("sigmoid", lin(W, c, v, (s,), j))      # noqa: E731
                return (G.build((nh, nv), lambda j, i: -G.sum_over(B, lambda s: sg(s, j) * v(s, i))),
                        G.build((nv,), lambda i: -G.sum_over(B, lambda s: v(s, i))),
                        G.build((nh,), lambda j: -G.sum_over(B, lambda s: sg(s, j))))
            sg1 = lambda j: G.fn("sigmoid", lin(W, c, v, (), j))              # noqa: E731
            return (G.build((nh, nv), lambda j, i: -sg1(j) * v(i)), G.build((nv,), lambda i: -v(i)), G.build((nh,), lambda j: -sg1(j)))
        add("BinaryRBM.effective_energy_gradient[batch, reduced]", P_BIN + [("v", (B, nv), "bits")], grad_call, grad_spec)
        out[-1].canary_spec = lambda W, b, c, v: tuple(G.build(t.shape, lambda *ix, t=t: -t(*ix)) for t in grad_spec(W, b, c, v))   # sign
        add("BinaryRBM.effective_energy_gradient[one state]", P_BIN + [("v", (nv,), "bits")], grad_call,
            lambda W, b, c, v: grad_spec(W, b, c, v, batch=False))

    if which in ("wavefunction", "all"):
        # ---- wavefunctions ----------------------------------------------------------------------------------------
        def pwf(W, b, c):
            from qucumber.nn_states import PositiveWaveFunction
            return _state(PositiveWaveFunction, rbm_am=binary(W, b, c))

        def cwf(W, b, c, Wp, bp, cp):
            from qucumber.nn_states import ComplexWaveFunction
            return _state(ComplexWaveFunction, rbm_am=binary(W, b, c), rbm_ph=binary(Wp, bp, cp))
        amp = lambda W, b, c, v, s: G.fn("exp", -energy(W, b, c, v, (s,)) / 2)        # noqa: E731
        add("PositiveWaveFunction.psi[batch]", P_BIN + [("v", (B, nv), "bits")],
            lambda W, b, c, v: pwf(W, b, c).psi(v),
            lambda W, b, c, v: cbuild((B,), lambda s: (amp(W, b, c, v, s), 0)))
        add("PositiveWaveFunction.probability[batch, Z]", P_BIN + [("v", (B, nv), "bits"), ("Z", (), "pos")],
            lambda W, b, c, v, Z: pwf(W, b, c).probability(v, Z),
            lambda W, b, c, v, Z: G.build((B,), lambda s: G.fn("exp", -energy(W, b, c, v, (s,))) * G.fn("inv", Z())))
        add("ComplexWaveFunction.amplitude[batch]", P_BIN + P_PH + [("v", (B, nv), "bits")],
            lambda W, b, c, Wp, bp, cp, v: cwf(W, b, c, Wp, bp, cp).amplitude(v),
            lambda W, b, c, Wp, bp, cp, v: G.build((B,), lambda s: amp(W, b, c, v, s)))
        add("ComplexWaveFunction.phase[batch]", P_BIN + P_PH + [("v", (B, nv), "bits")],
            lambda W, b, c, Wp, bp, cp, v: cwf(W, b, c, Wp, bp, cp).phase(v),
            lambda W, b, c, Wp, bp, cp, v: G.build((B,), lambda s: -energy(Wp, bp, cp, v, (s,)) / 2))
        add("ComplexWaveFunction.psi[batch]", P_BIN + P_PH + [("v", (B, nv), "bits")],
            lambda W, b, c, Wp, bp, cp, v: cwf(W, b, c, Wp, bp, cp).psi(v),
            lambda W, b, c, Wp, bp, cp, v: cbuild((B,), lambda s: (amp(W, b, c, v, s) * G.fn("cos", -energy(Wp, bp, cp, v, (s,)) / 2),
                                                                 amp(W, b, c, v, s) * G.fn("sin", -energy(Wp, bp, cp, v, (s,)) / 2))))
        add("ComplexWaveFunction.psi[one state]", P_BIN + P_PH + [("v", (nv,), "bits")],
            lambda W, b, c, Wp, bp, cp, v: cwf(W, b, c, Wp, bp, cp).psi(v),
            lambda W, b, c, Wp, bp, cp, v: cbuild((), lambda: (G.fn("exp", -energy(W, b, c, v, ()) / 2) * G.fn("cos", -energy(Wp, bp, cp, v, ()) / 2),
                                                              G.fn("exp", -energy(W, b, c, v, ()) / 2) * G.fn("sin", -energy(Wp, bp, cp, v, ()) / 2))))
        add("ComplexWaveFunction.normalization[given space]", P_BIN + P_PH + [("v", (S, nv), "bits")],
            lambda W, b, c, Wp, bp, cp, v: cwf(W, b, c, Wp, bp, cp).normalization(v),
            lambda W, b, c, Wp, bp, cp, v: G.build((), lambda: G.sum_over(S, lambda s: G.fn("exp", -energy(W, b, c, v, (s,))))))

    if which in ("purification", "all"):
        # ---- PurificationRBM --------------------------------------------------------------------------------------
        def penergy(W, U, b, c, d, v, bi):
            return -(G.sum_over(nv, lambda i: v(*(bi + (i,))) * b(i)) +
                     G.sum_over(nh, lambda j: G.fn("softplus", lin(W, c, v, bi, j))) +
                     G.sum_over(na, lambda a: G.fn("softplus", lin(U, d, v, bi, a))))
        add("PurificationRBM.effective_energy[batch, aux traced out]", P_PUR + [("v", (B, nv), "bits")],
            lambda W, U, b, c, d, v: purification(W, U, b, c, d).effective_energy(v),
            lambda W, U, b, c, d, v: G.build((B,), lambda s: penergy(W, U, b, c, d, v, (s,))))
        out[-1].canary_spec = lambda W, U, b, c, d, v: G.build((B,), lambda s: penergy(W, U, b, c, c, v, (s,)) if False else -(
            G.sum_over(nv, lambda i: v(s, i) * b(i)) + G.sum_over(nh, lambda j: G.fn("softplus", lin(W, c, v, (s,), j)))))     # aux term dropped
        add("PurificationRBM.effective_energy[one state, aux traced out]", P_PUR + [("v", (nv,), "bits")],
            lambda W, U, b, c, d, v: purification(W, U, b, c, d).effective_energy(v),
            lambda W, U, b, c, d, v: G.build((), lambda: penergy(W, U, b, c, d, v, ())))
        add("PurificationRBM.effective_energy[batch, aux given]", P_PUR + [("v", (B, nv), "bits"), ("a", (B, na), "bits")],
            lambda W, U, b, c, d, v, a: purification(W, U, b, c, d).effective_energy(v, a),
            lambda W, U, b, c, d, v, a: G.build((B,), lambda s: -(
                G.sum_over(nv, lambda i: v(s, i) * b(i)) + G.sum_over(nh, lambda j: G.fn("softplus", lin(W, c, v, (s,), j))) +
                G.sum_over(na, lambda q: a(s, q) * d(q)) + G.sum_over(na, lambda q: G.sum_over(nv, lambda i: v(s, i) * U(q, i) * a(s, q))))))
        add("PurificationRBM.partition[given space]", P_PUR + [("v", (S, nv), "bits")],
            lambda W, U, b, c, d, v: purification(W, U, b, c, d).partition(v),
            lambda W, U, b, c, d, v: G.build((), lambda: G.sum_over(S, lambda s: G.fn("exp", -penergy(W, U, b, c, d, v, (s,))))))
        add("PurificationRBM.prob_h_given_v[batch]", P_PUR + [("v", (B, nv), "bits")],
            lambda W, U, b, c, d, v: purification(W, U, b, c, d).prob_h_given_v(v),
            lambda W, U, b, c, d, v: G.build((B, nh), lambda s, j: G.fn("sigmoid", lin(W, c, v, (s,), j))))
        add("PurificationRBM.prob_a_given_v[batch]", P_PUR + [("v", (B, nv), "bits")],
            lambda W, U, b, c, d, v: purification(W, U, b, c, d).prob_a_given_v(v),
            lambda W, U, b, c, d, v: G.build((B, na), lambda s, q: G.fn("sigmoid", lin(U, d, v, (s,), q))))
        add("PurificationRBM.prob_v_given_ha[batch]", P_PUR + [("h", (B, nh), "bits"), ("a", (B, na), "bits")],
            lambda W, U, b, c, d, h, a: purification(W, U, b, c, d).prob_v_given_ha(h, a),
            lambda W, U, b, c, d, h, a: G.build((B, nv), lambda s, i: G.fn("sigmoid", b(i) + G.sum_over(nh, lambda j: h(s, j) * W(j, i)) +
                                                                          G.sum_over(na, lambda q: a(s, q) * U(q, i)))))
        add("PurificationRBM.mixing_term[batch]", P_PUR + [("v", (B, nv), "real")],
            lambda W, U, b, c, d, v: purification(W, U, b, c, d).mixing_term(v),
            lambda W, U, b, c, d, v: G.build((B, na), lambda s, q: d(q) + G.sum_over(nv, lambda i: U(q, i) * v(s, i)) / 2))

        for eta in (1, -1):
            add("PurificationRBM.gamma[matrix, eta=%+d]" % eta, P_PUR + [("v", (B, nv), "bits"), ("vp", (Bp, nv), "bits")],
                lambda W, U, b, c, d, v, vp, eta=eta: purification(W, U, b, c, d).gamma(v, vp, eta=eta, expand=True),
                lambda W, U, b, c, d, v, vp, eta=eta: G.build((B, Bp), lambda s, t: gam(W, b, c, v, vp, (s,), (t,), eta)))
            add("PurificationRBM.gamma[paired rows, eta=%+d]" % eta, P_PUR + [("v", (B, nv), "bits"), ("vp", (B, nv), "bits")],
                lambda W, U, b, c, d, v, vp, eta=eta: purification(W, U, b, c, d).gamma(v, vp, eta=eta, expand=False),
                lambda W, U, b, c, d, v, vp, eta=eta: G.build((B,), lambda s: gam(W, b, c, v, vp, (s,), (s,), eta)))
            add("PurificationRBM.gamma[two states, eta=%+d]" % eta, P_PUR + [("v", (nv,), "bits"), ("vp", (nv,), "bits")],
                lambda W, U, b, c, d, v, vp, eta=eta: purification(W, U, b, c, d).gamma(v, vp, eta=eta),
                lambda W, U, b, c, d, v, vp, eta=eta: G.build((), lambda: gam(W, b, c, v, vp, (), (), eta)))

        def pgrad_call(W, U, b, c, d, v):
            import qucumber.rbm.purification_rbm as mod
            with _packed_vectors(mod):
                r = purification(W, U, b, c, d).effective_energy_gradient(v)
            if isinstance(r, G.Packed):
                return tuple(r.pieces)
            return _split(r, [W.shape, U.shape, b.shape, c.shape, d.shape])

        def pgrad_spec(W, U, b, c, d, v):
            sh = lambda s, j: G.fn("sigmoid", lin(W, c, v, (s,), j))      # noqa: E731
            sa = lambda s, q: G.fn("sigmoid", lin(U, d, v, (s,), q))      # noqa: E731
            return (G.build((nh, nv), lambda j, i: -G.sum_over(B, lambda s: sh(s, j) * v(s, i))),
                    G.build((na, nv), lambda q, i: -G.sum_over(B, lambda s: sa(s, q) * v(s, i))),
                    G.build((nv,), lambda i: -G.sum_over(B, lambda s: v(s, i))),
                    G.build((nh,), lambda j: -G.sum_over(B, lambda s: sh(s, j))),
                    G.build((na,), lambda q: -G.sum_over(B, lambda s: sa(s, q))))
        add("PurificationRBM.effective_energy_gradient[batch, reduced]", P_PUR + [("v", (B, nv), "bits")], pgrad_call, pgrad_spec)

    if which in ("density", "all"):
        # ---- DensityMatrix ----------------------------------------------------------------------------------------
        def dm(W, U, b, c, d, Wp, Up, bp, cp, dp):
            from qucumber.nn_states import DensityMatrix
            return _state(DensityMatrix, rbm_am=purification(W, U, b, c, d), rbm_ph=purification(Wp, Up, bp, cp, dp))
        ALL = P_PUR + P_PURPH

        add("DensityMatrix.pi[matrix]", ALL + [("v", (B, nv), "bits"), ("vp", (Bp, nv), "bits")],
            lambda v, vp, **p: dm(**p).pi(v, vp, expand=True),
            lambda v, vp, **p: cbuild((B, Bp), lambda s, t: (pi_re(p["U"], p["d"], p["Up"], v, vp, (s,), (t,)), pi_im(p["U"], p["d"], p["Up"], v, vp, (s,), (t,)))))
        add("DensityMatrix.pi[paired rows]", ALL + [("v", (B, nv), "bits"), ("vp", (B, nv), "bits")],
            lambda v, vp, **p: dm(**p).pi(v, vp, expand=False),
            lambda v, vp, **p: cbuild((B,), lambda s: (pi_re(p["U"], p["d"], p["Up"], v, vp, (s,), (s,)), pi_im(p["U"], p["d"], p["Up"], v, vp, (s,), (s,)))))

        add("DensityMatrix.rho[matrix]", ALL + [("v", (B, nv), "bits"), ("vp", (Bp, nv), "bits")],
            lambda v, vp, **p: dm(**p).rho(v, vp, expand=True),
            lambda v, vp, **p: cbuild((B, Bp), lambda s, t: rho_el(p, v, vp, (s,), (t,))))
        add("DensityMatrix.rho[paired rows]", ALL + [("v", (B, nv), "bits"), ("vp", (B, nv), "bits")],
            lambda v, vp, **p: dm(**p).rho(v, vp, expand=False),
            lambda v, vp, **p: cbuild((B,), lambda s: rho_el(p, v, vp, (s,), (s,))))
        add("DensityMatrix.rho[matrix, vp omitted]", ALL + [("v", (B, nv), "bits")],
            lambda v, **p: dm(**p).rho(v),
            lambda v, **p: cbuild((B, B), lambda s, t: rho_el(p, v, v, (s,), (t,))))
        add("DensityMatrix.importance_sampling_numerator", ALL + [("v", (B, nv), "bits"), ("vp", (B, nv), "bits")],
            lambda v, vp, **p: dm(**p).importance_sampling_numerator(vp, v),
            lambda v, vp, **p: cbuild((B,), lambda s: rho_el(p, vp, v, (s,), (s,))))
        add("DensityMatrix.probability[batch, Z] == exp(-effective energy)/Z", ALL + [("v", (B, nv), "bits"), ("Z", (), "pos")],
            lambda v, Z, **p: dm(**p).probability(v, Z),
            lambda v, Z, **p: G.build((B,), lambda s: G.fn("exp", -penergy_(p, v, (s,))) * G.fn("inv", Z())))

    if which in ("batchgrad", "all"):
        # ---- compute_batch_gradients without measurement bases (C06): positive phase minus negative phase, the Gibbs
        # chain replaced by its contract (it returns some batch vk of the negative batch's shape) -------------------------
        M = G.dim("M")

        def sb_state(cls, **nets):
            st = _state(cls, **nets)
            if any(_is_g(getattr(n, k)) for n in nets.values() for k in ("visible_bias",)):
                from qucumber.nn_states.neural_state import NeuralStateBase
                from qv import astvc
                vc = astvc.VC.cur()
                ns = {}
                for n in ("gradient", "positive_phase_gradients", "compute_batch_gradients"):
                    ns[n] = astvc.load(vars(NeuralStateBase)[n], None, vc, None, cls=NeuralStateBase, name="NeuralStateBase." + n)[0]
                st.__class__ = type("SB_" + cls.__name__, (cls,), ns)
            return st

        def bg_call(kind):
            def call(v, neg, vk, **p):
                import qucumber.rbm.binary_rbm as mb
                import qucumber.rbm.purification_rbm as mp
                from qucumber.nn_states import PositiveWaveFunction, ComplexWaveFunction, DensityMatrix
                if kind == "positive":
                    st = sb_state(PositiveWaveFunction, rbm_am=binary(p["W"], p["b"], p["c"]))
                elif kind == "complex":
                    st = sb_state(ComplexWaveFunction, rbm_am=binary(p["W"], p["b"], p["c"]), rbm_ph=binary(p["Wp"], p["bp"], p["cp"]))
                else:
                    st = sb_state(DensityMatrix, rbm_am=purification(p["W"], p["U"], p["b"], p["c"], p["d"]),
                                  rbm_ph=purification(p["Wp"], p["Up"], p["bp"], p["cp"], p["dp"]))
                object.__setattr__(st.rbm_am, "gibbs_steps", lambda k, x, overwrite=False: vk)      # contract of the chain: some batch
                with _packed_vectors(mb), _packed_vectors(mp):
                    g = st.compute_batch_gradients(3, v, neg)
                out = []
                shapes_am = [p[k].shape for k in (("W", "b", "c") if kind != "mixed" else ("W", "U", "b", "c", "d"))]
                out += list(g[0].pieces) if isinstance(g[0], G.Packed) else list(_split(g[0], shapes_am))
                if len(g) > 1:
                    out.append(g[1])
                return tuple(out)
            return call

        def bg_spec(kind):
            def spec(v, neg, vk, **p):
                sg = lambda Wm, cm, x, s, j: G.fn("sigmoid", lin(Wm, cm, x, (s,), j))      # noqa: E731
                invB = G.fn("inv", G.to_E(G.size_obj(B)))
                invM = G.fn("inv", G.to_E(G.size_obj(M)))
                W, b, c = p["W"], p["b"], p["c"]
                pieces = [G.build((nh, nv), lambda j, i: -G.sum_over(B, lambda s: sg(W, c, v, s, j) * v(s, i)) * invB + G.sum_over(M, lambda s: sg(W, c, vk, s, j) * vk(s, i)) * invM)]
                if kind == "mixed":
                    U, d_ = p["U"], p["d"]
                    pieces.append(G.build((na, nv), lambda q, i: -G.sum_over(B, lambda s: sg(U, d_, v, s, q) * v(s, i)) * invB + G.sum_over(M, lambda s: sg(U, d_, vk, s, q) * vk(s, i)) * invM))
                pieces.append(G.build((nv,), lambda i: -G.sum_over(B, lambda s: v(s, i)) * invB + G.sum_over(M, lambda s: vk(s, i)) * invM))
                pieces.append(G.build((nh,), lambda j: -G.sum_over(B, lambda s: sg(W, c, v, s, j)) * invB + G.sum_over(M, lambda s: sg(W, c, vk, s, j)) * invM))
                if kind == "mixed":
                    pieces.append(G.build((na,), lambda q: -G.sum_over(B, lambda s: sg(U, d_, v, s, q)) * invB + G.sum_over(M, lambda s: sg(U, d_, vk, s, q)) * invM))
                if kind != "positive":
                    npar = G.to_dim(nv * 0 + (G.size_obj(nv) * G.size_obj(nh) + G.size_obj(nv) + G.size_obj(nh) if kind == "complex" else
                                                 G.size_obj(nv) * G.size_obj(nh) + G.size_obj(nv) * G.size_obj(na) + G.size_obj(nv) + G.size_obj(nh) + G.size_obj(na))) if False else None
                    pieces.append("zeros")
                return tuple(pieces)
            return spec
        DATA = [("v", (B, nv), "bits"), ("neg", (M, nv), "bits"), ("vk", (M, nv), "bits")]
        add("compute_batch_gradients[positive wavefunction, no bases]", P_BIN + DATA, bg_call("positive"), bg_spec("positive"))
        add("compute_batch_gradients[complex wavefunction, no bases]", P_BIN + P_PH + DATA, bg_call("complex"), bg_spec("complex"))
        add("compute_batch_gradients[density matrix, no bases]", P_PUR + P_PURPH + DATA, bg_call("mixed"), bg_spec("mixed"))

    if which in ("swap", "all"):
        # ---- SWAP estimator (C09): every batch size and chain length, region = columns {0, 2} --------------------------------
        from qucumber.observables import SWAP
        REGION = [0, 2]

        def pre_swap():
            G.require_at_least(nv, 3)
            G.require_at_least(B, 1)

        def pwf3(W, b, c):
            from qucumber.nn_states import PositiveWaveFunction
            return _state(PositiveWaveFunction, rbm_am=binary(W, b, c))

        def swap_spec(W, b, c, samples):
            inA = lambda i: sum((G.delta(i, a) for a in REGION), G.ZERO)      # noqa: E731
            prev = lambda t: ("sh", t, 1, B.name)                               # noqa: E731
            s1 = lambda t, i: samples(t, i)                                     # noqa: E731
            s2 = lambda t, i: samples(prev(t), i)                               # noqa: E731   the cyclic neighbour in the batch
            s1s = lambda t, i: inA(i) * s2(t, i) + (1 - inA(i)) * s1(t, i)      # noqa: E731   replica 1 with region A taken from replica 2
            s2s = lambda t, i: inA(i) * s1(t, i) + (1 - inA(i)) * s2(t, i)      # noqa: E731

            def en_(row, t):
                return -(G.sum_over(nv, lambda i: row(t, i) * b(i)) +
                         G.sum_over(nh, lambda j: G.fn("softplus", c(j) + G.sum_over(nv, lambda i: W(j, i) * row(t, i)))))
            return G.build((B,), lambda t: G.fn("exp", (-en_(s1s, t) - en_(s2s, t) + en_(s1, t) + en_(s2, t)) / 2))
        add("SWAP.apply[positive wavefunction, region {0,2}] == psi(s1')psi(s2') / (psi(s1)psi(s2)) with the cyclic neighbour as second replica",
            P_BIN + [("samples", (B, nv), "bits")],
            lambda W, b, c, samples: SWAP(list(REGION)).apply(pwf3(W, b, c), samples), swap_spec)
        out[-1].pre = pre_swap

        def cwf3(W, b, c, Wp, bp, cp):
            from qucumber.nn_states import ComplexWaveFunction
            return _state(ComplexWaveFunction, rbm_am=binary(W, b, c), rbm_ph=binary(Wp, bp, cp))

        def swap_spec_c(W, b, c, Wp, bp, cp, samples):
            inA = lambda i: sum((G.delta(i, a) for a in REGION), G.ZERO)      # noqa: E731
            prev = lambda t: ("sh", t, 1, B.name)                               # noqa: E731
            s1 = lambda t, i: samples(t, i)                                     # noqa: E731
            s2 = lambda t, i: samples(prev(t), i)                               # noqa: E731
            s1s = lambda t, i: inA(i) * s2(t, i) + (1 - inA(i)) * s1(t, i)      # noqa: E731
            s2s = lambda t, i: inA(i) * s1(t, i) + (1 - inA(i)) * s2(t, i)      # noqa: E731

            def en_(Wm, bm, cm, row, t):
                return -(G.sum_over(nv, lambda i: row(t, i) * bm(i)) +
                         G.sum_over(nh, lambda j: G.fn("softplus", cm(j) + G.sum_over(nv, lambda i: Wm(j, i) * row(t, i)))))

            def psi_(row, t):
                a = G.fn("exp", -en_(W, b, c, row, t) / 2)
                ph = -en_(Wp, bp, cp, row, t) / 2
                return (a * G.fn("cos", ph), a * G.fn("sin", ph))

            def cdiv(x, y):      # x * conj(y) / |y|^2, the way complex division is defined
                den = G.fn("inv", y[0] * y[0] + y[1] * y[1])
                return ((x[0] * y[0] + x[1] * y[1]) * den, (x[1] * y[0] - x[0] * y[1]) * den)

            def val(t):
                w1 = cdiv(psi_(s1s, t), psi_(s1, t))
                w2 = cdiv(psi_(s2s, t), psi_(s2, t))
                return w1[0] * w2[0] - w1[1] * w2[1]
            return G.build((B,), val)
        add("SWAP.apply[complex wavefunction, region {0,2}] == Re of psi(s1')/psi(s1) * psi(s2')/psi(s2) with the cyclic neighbour as second replica",
            P_BIN + P_PH + [("samples", (B, nv), "bits")],
            lambda W, b, c, Wp, bp, cp, samples: SWAP(list(REGION)).apply(cwf3(W, b, c, Wp, bp, cp), samples), swap_spec_c)
        out[-1].pre = pre_swap

        def dm3(**p):
            from qucumber.nn_states import DensityMatrix
            return _state(DensityMatrix, rbm_am=purification(p["W"], p["U"], p["b"], p["c"], p["d"]),
                          rbm_ph=purification(p["Wp"], p["Up"], p["bp"], p["cp"], p["dp"]))

        def swap_spec_dm(samples, **p):
            inA = lambda i: sum((G.delta(i, a) for a in REGION), G.ZERO)      # noqa: E731
            prev = lambda t: ("sh", t, 1, B.name)                               # noqa: E731

            class Rows:      # a batch given element-wise, usable where the helpers expect a Val
                def __init__(self, f):
                    self.f = f

                def __call__(self, t, i):
                    return self.f(t, i)
            s1 = Rows(lambda t, i: samples(t, i))
            s2 = Rows(lambda t, i: samples(prev(t), i))
            s1s = Rows(lambda t, i: inA(i) * s2(t, i) + (1 - inA(i)) * s1(t, i))
            s2s = Rows(lambda t, i: inA(i) * s1(t, i) + (1 - inA(i)) * s2(t, i))

            def weight(new, old, t):      # rho(new, old) / p(old), complex divided by the real probability written as (p, 0)
                r = rho_el(p, new, old, (t,), (t,))
                pr = G.fn("exp", -penergy_(p, old, (t,)))
                den = G.fn("inv", pr * pr)
                return (r[0] * pr * den, r[1] * pr * den)

            def val(t):
                w1, w2 = weight(s1s, s1, t), weight(s2s, s2, t)
                return w1[0] * w2[0] - w1[1] * w2[1]
            return G.build((B,), val)
        add("SWAP.apply[density matrix, region {0,2}] == Re of rho(s1',s1)/p(s1) * rho(s2',s2)/p(s2) with the cyclic neighbour as second replica",
            P_PUR + P_PURPH + [("samples", (B, nv), "bits")],
            lambda samples, **p: SWAP(list(REGION)).apply(dm3(**p), samples), swap_spec_dm)
        out[-1].pre = pre_swap

    if which in ("statistics", "all"):
        # ---- one-pass statistics of a batch of observable values (C13), every batch length --------------------------------
        N2 = G.dim("N")

        def stats_call(samples):
            from qucumber.observables.observable import ObservableBase

            class RowValue(ObservableBase):
                def apply(self, nn_state, s):      # the observable's value for a row is that row's single entry
                    return s[:, 0]
            o = RowValue()
            if _is_g(samples):
                from qv import astvc
                f = astvc.load(ObservableBase.statistics_from_samples, None, astvc.VC.cur(), None, cls=ObservableBase,
                               name="ObservableBase.statistics_from_samples")[0]
                r = f(o, None, samples)
            else:
                r = o.statistics_from_samples(None, samples)
            return (r["mean"], r["variance"], r["std_error"], r["num_samples"])

        def stats_spec(samples):
            n = G.to_E(G.size_obj(N2))
            s1 = G.sum_over(N2, lambda t: samples(t, 0))
            s2 = G.sum_over(N2, lambda t: samples(t, 0) * samples(t, 0))
            var = (s2 - s1 * s1 * G.fn("inv", n)) * G.fn("inv", n - 1)
            return (G.build((), lambda: s1 * G.fn("inv", n)), G.build((), lambda: var),
                    G.build((), lambda: G.fn("sqrt", var * G.fn("inv", n))), G.build((), lambda: n))
        add("statistics_from_samples == one-pass mean, sample variance, standard error and count of the batch", [("samples", (N2, 1), "real")],
            stats_call, stats_spec)

    if which in ("observables", "all"):
        # ---- diagonal observables (C08): SigmaZ for every chain length and batch size -------------------------------------
        from qucumber.observables import SigmaZ
        mz = lambda s, t: 2 * G.sum_over(nv, lambda i: s(t, i)) * G.fn("inv", G.to_E(G.size_obj(nv))) - 1      # noqa: E731
        add("SigmaZ.apply[batch] == mean over sites of the Z eigenvalue (+1 for bit 1, -1 for bit 0)", [("samples", (B, nv), "bits")],
            lambda samples: SigmaZ().apply(None, samples), lambda samples: G.build((B,), lambda t: mz(samples, t)))
        add("SigmaZ(absolute=True).apply[batch]", [("samples", (B, nv), "bits")],
            lambda samples: SigmaZ(absolute=True).apply(None, samples), lambda samples: G.build((B,), lambda t: G.fn("abs", mz(samples, t))))

    if which in ("observables", "all"):
        # ---- SigmaX / SigmaY (C08): the loop over the sites under a loop contract, every chain length and batch size ---------
        from qv import astvc

        def psi_terms(p, kind):
            """psi(row) as (re, im) for a batch given element-wise"""
            def en_(Wm, bm, cm, row, t):
                return -(G.sum_over(nv, lambda i: row(t, i) * bm(i)) +
                         G.sum_over(nh, lambda j: G.fn("softplus", cm(j) + G.sum_over(nv, lambda i: Wm(j, i) * row(t, i)))))

            def psi_(row, t):
                a = G.fn("exp", -en_(p["W"], p["b"], p["c"], row, t) / 2)
                if kind == "positive":
                    return (a, G.ZERO)
                ph = -en_(p["Wp"], p["bp"], p["cp"], row, t) / 2
                return (a * G.fn("cos", ph), a * G.fn("sin", ph))
            return psi_

        def site_term(letter, p, kind, s):
            """the summand of site k for sample t: psi(s with spin k flipped) [times i * (+-1) for Y]"""
            psi_ = psi_terms(p, kind)

            def f(k, t):
                flipped = lambda t_, i: G.delta(i, k) * G.fn("abs", s(t_, k) - 1) + (1 - G.delta(i, k)) * s(t_, i)      # noqa: E731
                re_, im_ = psi_(flipped, t) if kind != "mixed" else rho_el(p, flipped, s, (t,), (t,))
                if letter == "X":
                    return (re_, im_)
                cf = 2 * s(t, k) - 1
                return (-im_ * cf, re_ * cf)
            return f

        def sigma_call(letter, kind):
            def call(samples, **p):
                from qucumber.observables import SigmaX, SigmaY
                from qucumber.nn_states import PositiveWaveFunction, ComplexWaveFunction
                obs = {"X": SigmaX, "Y": SigmaY}[letter]()
                if kind == "mixed":
                    from qucumber.nn_states import DensityMatrix
                    st = _state(DensityMatrix, rbm_am=purification(p["W"], p["U"], p["b"], p["c"], p["d"]),
                                rbm_ph=purification(p["Wp"], p["Up"], p["bp"], p["cp"], p["dp"]))
                else:
                    st = _state(PositiveWaveFunction, rbm_am=binary(p["W"], p["b"], p["c"])) if kind == "positive" else \
                        _state(ComplexWaveFunction, rbm_am=binary(p["W"], p["b"], p["c"]), rbm_ph=binary(p["Wp"], p["bp"], p["cp"]))
                if not _is_g(samples):
                    return obs.apply(st, samples)
                vc = astvc.VC.cur()

                def S(env, bound):
                    f = site_term(letter, p_vals, kind, G.val_of(env["samples"]))
                    return cbuild((B,), lambda t: (G.partial_sum(nv, bound, lambda k: f(k, t)[0]), G.partial_sum(nv, bound, lambda k: f(k, t)[1])))
                p_vals = {k_: G.val_of(v_) for k_, v_ in p.items()}

                def invariant(env, i, n):
                    ok = G.equal_nf(env["numer_sum"], S(env, G.loop_bound(i, nv)))
                    if not ok:
                        raise G.LoopBroken("the body does not add exactly the term of site i to numer_sum")
                    return [("numer_sum holds the terms of the sites before i", True)]

                def havoc_locals(env, i, n):
                    G.write(env["numer_sum"], S(env, G.loop_bound(i, nv)), "loop cut point")
                    return {"numer_sum": env["numer_sum"]}       # also when the body rebinds the name (numer_sum += ...)
                spec = astvc.LoopSpec(invariant, havoc_locals=havoc_locals, name="sites")
                f_ = astvc.load(type(obs).apply, {0: spec}, vc, None, cls=type(obs), name="Sigma%s.apply" % letter)[0]
                return f_(obs, st, samples)
            return call

        def sigma_spec(letter, kind):
            def spec(samples, **p):
                f = site_term(letter, p, kind, samples)
                psi_ = psi_terms(p, kind)

                def val(t):
                    num = (G.sum_over(nv, lambda k: f(k, t)[0]), G.sum_over(nv, lambda k: f(k, t)[1]))
                    den = psi_(samples, t) if kind != "mixed" else (G.fn("exp", -penergy_(p, samples, (t,))), G.ZERO)
                    inv_ = G.fn("inv", den[0] * den[0] + den[1] * den[1])
                    return (num[0] * den[0] + num[1] * den[1]) * inv_ * G.fn("inv", G.to_E(G.size_obj(nv)))
                return G.build((B,), val)
            return spec
        for letter in ("X", "Y"):
            for kind, ps in (("positive", P_BIN), ("complex", P_BIN + P_PH), ("mixed", P_PUR + P_PURPH)):
                if letter == "Y" and kind == "positive":
                    continue
                add(("Sigma%s.apply[%s wavefunction] == (1/n) sum over sites of Re( <flipped|psi> coefficient / psi(s) )" % (letter, kind)) if kind != "mixed" else
                    ("Sigma%s.apply[density matrix] == (1/n) sum over sites of Re( rho(flipped, s) coefficient / p(s) )" % letter),
                    ps + [("samples", (B, nv), "bits")], sigma_call(letter, kind), sigma_spec(letter, kind))
                out[-1].pre = lambda: G.require_at_least(nv, 1)

    if which in ("metrics", "all"):
        # ---- training statistics without measurement bases (C10): every size of the space and of the data set ---------
        from qucumber.utils import training_statistics as ts

        def pwf2(W, b, c):
            from qucumber.nn_states import PositiveWaveFunction
            return _state(PositiveWaveFunction, rbm_am=binary(W, b, c))

        def cwf2(W, b, c, Wp, bp, cp):
            from qucumber.nn_states import ComplexWaveFunction
            return _state(ComplexWaveFunction, rbm_am=binary(W, b, c), rbm_ph=binary(Wp, bp, cp))

        def dm2(W, U, b, c, d, Wp, Up, bp, cp, dp):
            from qucumber.nn_states import DensityMatrix
            return _state(DensityMatrix, rbm_am=purification(W, U, b, c, d), rbm_ph=purification(Wp, Up, bp, cp, dp))

        def en(W, b, c, x, s):
            return -(G.sum_over(nv, lambda i: x(s, i) * b(i)) + G.sum_over(nh, lambda j: G.fn("softplus", lin(W, c, x, (s,), j))))

        def pen(p, x, s):
            return en(p["W"], p["b"], p["c"], x, s) - G.sum_over(na, lambda q: G.fn("softplus", lin(p["U"], p["d"], x, (s,), q)))
        N_ = G.dim("N")
        SP = [("space", (S, nv), "bits")]

        def nll_spec(energy_of):
            def spec(samples, space, **p):
                Z = G.sum_over(S, lambda s: G.fn("exp", -energy_of(p, space, s)))
                return G.build((), lambda: -G.sum_over(N_, lambda t: G.fn("log", G.fn("exp", -energy_of(p, samples, t)) * G.fn("inv", Z))) * G.fn("inv", G.to_E(G.size_obj(N_))))
            return spec
        e_bin = lambda p, x, s: en(p["W"], p["b"], p["c"], x, s)      # noqa: E731
        add("NLL[positive wavefunction, computational basis]", P_BIN + [("samples", (N_, nv), "bits")] + SP,
            lambda samples, space, **p: ts.NLL(pwf2(**p), samples, space), nll_spec(e_bin))
        add("NLL[complex wavefunction, computational basis]", P_BIN + P_PH + [("samples", (N_, nv), "bits")] + SP,
            lambda samples, space, **p: ts.NLL(cwf2(**p), samples, space), nll_spec(e_bin))
        add("NLL[density matrix, computational basis]", P_PUR + P_PURPH + [("samples", (N_, nv), "bits")] + SP,
            lambda samples, space, **p: ts.NLL(dm2(**p), samples, space), nll_spec(pen))

        def kl_spec(energy_of, tprob):
            def spec(target, space, **p):
                Z = G.sum_over(S, lambda s: G.fn("exp", -energy_of(p, space, s)))
                return G.build((), lambda: G.sum_over(S, lambda s: tprob(target, s) * G.fn("log", tprob(target, s))) -
                               G.sum_over(S, lambda s: tprob(target, s) * G.fn("log", G.fn("exp", -energy_of(p, space, s)) * G.fn("inv", Z))))
            return spec
        t_wf = lambda t, s: t(0, s) * t(0, s) + t(1, s) * t(1, s)      # noqa: E731
        t_dm = lambda t, s: t(0, s, s)                                   # noqa: E731
        add("KL[positive wavefunction, computational basis]", P_BIN + [("target", (2, S), "real")] + SP,
            lambda target, space, **p: ts.KL(pwf2(**p), target, space), kl_spec(e_bin, t_wf))
        add("KL[complex wavefunction, computational basis]", P_BIN + P_PH + [("target", (2, S), "real")] + SP,
            lambda target, space, **p: ts.KL(cwf2(**p), target, space), kl_spec(e_bin, t_wf))
        add("KL[density matrix, computational basis]", P_PUR + P_PURPH + [("target", (2, S, S), "real")] + SP,
            lambda target, space, **p: ts.KL(dm2(**p), target, space), kl_spec(pen, t_dm))

        def fid_spec(target, space, **p):
            Z = G.sum_over(S, lambda s: G.fn("exp", -e_bin(p, space, s)))
            amp = lambda s: G.fn("exp", -e_bin(p, space, s) / 2)        # noqa: E731
            if "Wp" in p:
                ph = lambda s: -en(p["Wp"], p["bp"], p["cp"], space, s) / 2       # noqa: E731
                re_ = lambda s: amp(s) * G.fn("cos", ph(s))       # noqa: E731
                im_ = lambda s: amp(s) * G.fn("sin", ph(s))       # noqa: E731
            else:
                re_, im_ = amp, (lambda s: G.ZERO)
            # <target|psi> / sqrt(Z), then squared modulus
            fr = G.sum_over(S, lambda s: target(0, s) * re_(s) + target(1, s) * im_(s))
            fi = G.sum_over(S, lambda s: target(0, s) * im_(s) - target(1, s) * re_(s))
            return G.build((), lambda: (fr * fr + fi * fi) * G.fn("inv", Z))
        def fix_metrics(t, sizes, rnd):
            # preconditions of the metrics: the space holds distinct rows and every sample is one of them (so that
            # p(v)/Z <= 1); the target is a normalised state with non-zero probabilities
            import numpy as np
            S_, nv_ = t["space"].shape
            rows = []
            for s in range(S_):
                r = tuple(int(x) for x in t["space"][s])
                k = 0
                while r in rows and k < 2 ** nv_:
                    r = tuple((k >> q) & 1 for q in range(nv_))
                    k += 1
                rows.append(r)
            t["space"] = np.array(rows, dtype=float).reshape(S_, nv_)
            if "samples" in t:
                t["samples"] = np.array([rows[rnd.randrange(S_)] for _ in range(t["samples"].shape[0])], dtype=float).reshape(-1, nv_)
            if "target" in t:
                tg = t["target"]
                if tg.ndim == 2:
                    tg = tg + np.where(np.abs(tg) < 0.1, 0.3, 0.0)
                    t["target"] = tg / np.sqrt((tg ** 2).sum())
                else:
                    a = tg[0] + 1j * tg[1]
                    rho = a @ a.conj().T + 0.1 * np.eye(S_)
                    rho = rho / np.trace(rho).real
                    t["target"] = np.stack([rho.real, rho.imag])
            return t
        for c_ in out:
            if c_.name.startswith(("NLL[", "KL[")):
                c_.fix = fix_metrics
        add("fidelity[positive wavefunction]", P_BIN + [("target", (2, S), "real")] + SP,
            lambda target, space, **p: ts.fidelity(pwf2(**p), target, space), fid_spec)
        add("fidelity[complex wavefunction]", P_BIN + P_PH + [("target", (2, S), "real")] + SP,
            lambda target, space, **p: ts.fidelity(cwf2(**p), target, space), fid_spec)
    return out
