"""Front end A: verification conditions for the integer / protocol code.

* The source of the function under contract is re-read from the repo on every
  run (inspect.getsource), parsed, and compiled again in a *sandbox* copy of its
  module globals.  Two rewrites only: (1) every `for` loop that has a sidecar
  LoopSpec is replaced by its Hoare-rule encoding (assert invariant on entry;
  either havoc / assume invariant / run the ORIGINAL body nodes once / assert
  the invariant for the next position and end the path, or havoc / assume
  invariant and exhaustion / continue after the loop); (2) zero-argument
  `super()` becomes `super(<Class>, self)` (the recompiled function has no
  __class__ cell).  Nothing else is changed or dropped.
* Symbolic scalars (SymInt / SymReal / SymBool) wrap z3 terms; a truth test
  forks: the function is re-executed once per feasible decision sequence.
* Ghost objects (plain python stand-ins whose attributes hold symbolic values)
  play the parts of self, optimizers, callbacks, data.
"""
import ast
import builtins
import inspect
import math
import textwrap
import time

import z3

from . import solve
from .alg import Unmodelled


class PathEnd(Exception):
    """The current path is finished (invariant re-established, or infeasible)."""


class PathBound(Exception):
    """The current path leaves the explored fragment (a stated bound); the other paths go on."""


class Infeasible(PathEnd):
    pass


# ----------------------------------------------------------------------------- symbolic scalars
def _z(x):
    if isinstance(x, Sym):
        return x.e
    if isinstance(x, bool):
        return z3.BoolVal(x)
    if isinstance(x, int):
        return z3.IntVal(x)
    if isinstance(x, float):
        if x != x or x in (math.inf, -math.inf):
            raise Unmodelled("non-finite float in symbolic arithmetic")
        from fractions import Fraction
        f = Fraction(x)
        return z3.RealVal("%d/%d" % (f.numerator, f.denominator))
    if z3.is_expr(x):
        return x
    if hasattr(x, "item") and getattr(x, "shape", None) == ():
        return _z(x.item())
    raise Unmodelled("cannot lift %r to a symbolic scalar" % (type(x),))


def _isinf(o):
    return isinstance(o, float) and o in (math.inf, -math.inf)


def _wrap(e):
    if z3.is_bool(e):
        return SymBool(e)
    if z3.is_int(e):
        return SymInt(e)
    return SymReal(e)


def _num2(a, b):
    a, b = _z(a), _z(b)
    if z3.is_bool(a):
        a = z3.If(a, z3.IntVal(1), z3.IntVal(0))
    if z3.is_bool(b):
        b = z3.If(b, z3.IntVal(1), z3.IntVal(0))
    if z3.is_int(a) and z3.is_real(b):
        a = z3.ToReal(a)
    if z3.is_real(a) and z3.is_int(b):
        b = z3.ToReal(b)
    return a, b


class Sym:
    __slots__ = ("e",)

    def __init__(self, e):
        self.e = e

    def __repr__(self):
        return "%s(%s)" % (type(self).__name__, self.e)

    __hash__ = object.__hash__

    # comparisons
    def __eq__(self, o):
        try:
            a, b = _num2(self, o) if not isinstance(self, SymBool) else (_z(self), _z(o))
        except Unmodelled:
            return False
        return SymBool(a == b)

    def __ne__(self, o):
        r = self.__eq__(o)
        return (not r) if isinstance(r, bool) else SymBool(z3.Not(r.e))

    def __lt__(self, o):
        if _isinf(o):
            return o > 0
        a, b = _num2(self, o)
        return SymBool(a < b)

    def __le__(self, o):
        if _isinf(o):
            return o > 0
        a, b = _num2(self, o)
        return SymBool(a <= b)

    def __gt__(self, o):
        if _isinf(o):
            return o < 0
        a, b = _num2(self, o)
        return SymBool(a > b)

    def __ge__(self, o):
        if _isinf(o):
            return o < 0
        a, b = _num2(self, o)
        return SymBool(a >= b)


TENSOR_OPS = None     # set by qv.gen: arithmetic of a symbolic scalar with a symbolic-shape tensor (torch defers to us)


class SymNum(Sym):
    __slots__ = ()

    def _bin(self, o, f, r=False):
        if TENSOR_OPS is not None and type(o).__name__ == "GT":
            return TENSOR_OPS(f, self, o, r)
        try:
            a, b = _num2(self, o)
        except Unmodelled:
            return NotImplemented
        res = _wrap(z3.simplify(f(b, a) if r else f(a, b)))
        u1, u2 = getattr(self, "undef", None), getattr(o, "undef", None)
        if u1 is not None or u2 is not None:
            # IEEE NaN propagates through every arithmetic operation (also nan * 0)
            return SymNpReal(res.e if not z3.is_int(res.e) else z3.ToReal(res.e),
                             z3.Or(u1 if u1 is not None else z3.BoolVal(False), u2 if u2 is not None else z3.BoolVal(False)),
                             np_=bool(getattr(self, "_np", False) or getattr(o, "_np", False)))
        return res

    def __add__(self, o): return self._bin(o, lambda a, b: a + b)
    def __radd__(self, o): return self._bin(o, lambda a, b: a + b, True)
    def __sub__(self, o): return self._bin(o, lambda a, b: a - b)
    def __rsub__(self, o): return self._bin(o, lambda a, b: a - b, True)
    def __mul__(self, o): return self._bin(o, lambda a, b: a * b)
    def __rmul__(self, o): return self._bin(o, lambda a, b: a * b, True)
    def __neg__(self): return _wrap(-self.e)
    def __pos__(self): return self

    def __abs__(self):
        return _wrap(z3.If(self.e >= 0, self.e, -self.e))

    def __pow__(self, n):
        if isinstance(n, int) and 0 <= n <= 4:
            r = _wrap(z3.IntVal(1) if z3.is_int(self.e) else z3.RealVal(1))
            for _ in range(n):
                r = r * self
            return r
        raise Unmodelled("power %r of a symbolic scalar" % (n,))

    def _div(self, o, r=False):
        if TENSOR_OPS is not None and type(o).__name__ == "GT":
            return TENSOR_OPS(lambda a, b: a / b, self, o, r)
        num, den = (o, self) if r else (self, o)
        a, b = _num2(num, den)
        if z3.is_int(a):
            a = z3.ToReal(a)
        if z3.is_int(b):
            b = z3.ToReal(b)
        un, ud = getattr(num, "undef", None), getattr(den, "undef", None)
        if not getattr(den, "_np", False) and (un is not None or ud is not None):
            # python floats, one of them possibly NaN: x / 0.0 still raises
            VC.cur().no_exception("ZeroDivisionError", b != 0, "float division by zero")
            return SymNpReal(a / b, z3.Or(un if un is not None else z3.BoolVal(False), ud if ud is not None else z3.BoolVal(False)), np_=False)
        if getattr(den, "_np", False):
            # numpy float64 denominator: x/0 is inf or nan (a warning, no exception); every ordered
            # comparison of the result with a finite number that could make it "small" is False
            return SymNpReal(a / z3.If(b == 0, z3.RealVal(1), b), z3.Or(b == 0, _z(getattr(num, "undef", False))))
        VC.cur().no_exception("ZeroDivisionError", b != 0, "division by zero")
        return SymReal(a / b)

    def __truediv__(self, o): return self._div(o)
    def __rtruediv__(self, o): return self._div(o, True)

    def __floordiv__(self, o):
        a, b = _num2(self, o)
        if not (z3.is_int(a) and z3.is_int(b)):
            raise Unmodelled("floor division of symbolic reals")
        VC.cur().require_model(b > 0, "floor division by a symbolic integer not known to be positive")
        return SymInt(a / b)

    def __mod__(self, o):
        a, b = _num2(self, o)
        if not (z3.is_int(a) and z3.is_int(b)):
            raise Unmodelled("modulo of symbolic reals")
        VC.cur().no_exception("ZeroDivisionError", b != 0, "integer modulo by zero")
        VC.cur().require_model(b > 0, "modulo by a symbolic integer not known to be positive")
        return SymInt(a % b)

    def __rmod__(self, o):
        return SymInt(_z(o)).__mod__(self)

    def __rfloordiv__(self, o):
        return SymInt(_z(o)).__floordiv__(self)

    def __bool__(self):
        return bool(self != 0)

    def __float__(self):
        raise Unmodelled("float() of a symbolic scalar outside the sandbox")

    def __round__(self, n=None):
        raise Unmodelled("round() of a symbolic scalar")


class SymInt(SymNum):
    __slots__ = ()

    def __index__(self):
        v = z3.simplify(self.e)
        if z3.is_int_value(v):
            return v.as_long()
        raise Unmodelled("symbolic integer used as an index / range bound outside the sandbox")

    __int__ = __index__


class SymReal(SymNum):
    __slots__ = ()


class SymNpReal(SymReal):
    """A numpy float64 that may be inf / nan (`undef`): `x < finite` is False when undefined."""
    __slots__ = ("undef", "_np")

    def __init__(self, e, undef=None, np_=True):
        SymReal.__init__(self, e)
        self.undef = undef if undef is not None else z3.BoolVal(False)
        self._np = np_

    def __lt__(self, o):
        a, b = _num2(self, o)
        return SymBool(z3.And(z3.Not(self.undef), a < b))

    def __le__(self, o):
        a, b = _num2(self, o)
        return SymBool(z3.And(z3.Not(self.undef), a <= b))

    def __abs__(self):
        return SymNpReal(z3.If(self.e >= 0, self.e, -self.e), self.undef)


class SymBool(Sym):
    __slots__ = ()

    def __bool__(self):
        return VC.cur().decide(self.e)

    def __and__(self, o): return SymBool(z3.And(self.e, _z(o)))
    __rand__ = __and__
    def __or__(self, o): return SymBool(z3.Or(self.e, _z(o)))
    __ror__ = __or__
    def __invert__(self): return SymBool(z3.Not(self.e))


def AND(*xs):
    return SymBool(z3.And(*[_z(x) for x in xs])) if xs else SymBool(z3.BoolVal(True))


def OR(*xs):
    return SymBool(z3.Or(*[_z(x) for x in xs])) if xs else SymBool(z3.BoolVal(False))


def NOT(x):
    return SymBool(z3.Not(_z(x)))


def IMPLIES(a, b):
    return SymBool(z3.Implies(_z(a), _z(b)))


def ITE(c, a, b):
    a_, b_ = _num2(a, b) if not (z3.is_bool(_z(a))) else (_z(a), _z(b))
    return _wrap(z3.If(_z(c), a_, b_))


class Opaque:
    """A havocked value nobody may look at."""

    def __init__(self, why):
        object.__setattr__(self, "_why", why)

    def _no(self, *a, **k):
        raise Unmodelled("use of a havocked value (%s)" % self._why)

    __getattr__ = __call__ = __bool__ = __iter__ = __len__ = __add__ = __radd__ = __eq__ = _no
    __hash__ = object.__hash__


# ----------------------------------------------------------------------------- path controller / obligations
class VC:
    _cur = None

    @staticmethod
    def cur():
        if VC._cur is None:
            raise Unmodelled("symbolic scalar used outside an exploration")
        return VC._cur

    def __init__(self, ctx, timeout_ms=60000):
        self.ctx = ctx
        self.timeout_ms = timeout_ms
        self.n_fresh = 0
        self.paths = 0
        self.prefix = []
        self.pos = 0
        self.pc = []
        self.todo = []
        self.results = {}      # obligation name -> list of (status, detail, witness, seconds, backend)
        self.tag = ""
        self.max_paths = 4000
        self.witness_terms = {}      # name -> z3 term evaluated in every counter-model (for replay on the real code)
        self.probe = False           # template-discovery run of role-based loop contracts (nothing is recorded)

    # ---- symbols
    def fresh_int(self, name, lo=None, hi=None):
        self.n_fresh += 1
        v = z3.Int("%s!%d" % (name, self.n_fresh))
        if lo is not None:
            self.pc.append(v >= _z(lo))
        if hi is not None:
            self.pc.append(v <= _z(hi))
        return SymInt(v)

    def fresh_real(self, name):
        self.n_fresh += 1
        return SymReal(z3.Real("%s!%d" % (name, self.n_fresh)))

    def fresh_bool(self, name):
        self.n_fresh += 1
        return SymBool(z3.Bool("%s!%d" % (name, self.n_fresh)))

    # ---- forking
    def _sat(self, extra):
        st, _m = solve.satisfiable(self.pc + [extra], timeout_ms=10000)
        return st != "unsat"       # unknown counts as feasible (sound: more paths)

    def decide(self, cond):
        cond = z3.simplify(cond)
        if z3.is_true(cond):
            return True
        if z3.is_false(cond):
            return False
        if self.pos < len(self.prefix):
            d = self.prefix[self.pos]
            self.pos += 1
            self.pc.append(cond if d else z3.Not(cond))
            return d
        t_ok = self._sat(cond)
        f_ok = self._sat(z3.Not(cond))
        if t_ok and f_ok:
            self.todo.append(self.prefix[:self.pos] + [False])
            d = True
        elif t_ok:
            d = True
        elif f_ok:
            d = False
        else:
            raise Infeasible()
        self.prefix = self.prefix[:self.pos] + [d]
        self.pos += 1
        self.pc.append(cond if d else z3.Not(cond))
        return d

    def valid(self, cond):
        """cond holds on every state of the current path (no fork)"""
        c = z3.simplify(_z(cond))
        if z3.is_true(c):
            return True
        if z3.is_false(c):
            return False
        st, _m = solve.satisfiable(self.pc + [z3.Not(c)], timeout_ms=10000)
        return st == "unsat"

    def fork(self, tag):
        """A free nondeterministic choice (both alternatives explored)."""
        b = self.fresh_bool("choice_" + str(tag))
        return self.decide(b.e)

    def assume(self, cond):
        c = z3.simplify(_z(cond))
        if z3.is_true(c):
            return
        self.pc.append(c)
        if z3.is_false(c) or not self._sat(z3.BoolVal(True)):
            raise Infeasible()

    # ---- obligations
    def _record(self, name, status, detail=None, witness=None, secs=0.0, backend="z3"):
        if self.probe:
            return
        self.results.setdefault(name, []).append((status, detail, witness, secs, backend, self.tag))

    def check(self, name, cond, detail=None):
        """Obligation: path condition |= cond."""
        if self.probe:
            return True
        if hasattr(cond, "item") and getattr(cond, "shape", None) == ():
            cond = cond.item()
        if isinstance(cond, bool):
            self._record(name, "discharged" if cond else "violated", None if cond else (detail or "false on this path"),
                         None if cond else self._model_of(z3.BoolVal(True)), 0.0, "structural")
            return cond
        c = z3.simplify(_z(cond))
        if z3.is_true(c):
            self._record(name, "discharged", None, None, 0.0, "simplifier")
            return True
        st, m, dt, be = solve.prove(self.pc, c, self.timeout_ms)
        if st == "proved":
            self._record(name, "discharged", None, None, dt, be)
            return True
        if st == "refuted":
            self._record(name, "violated", detail or "solver model falsifies the obligation", self._model(m), dt, be)
            return False
        self._record(name, "undecided", "solver returned unknown", None, dt, be)
        return False

    def no_exception(self, exc, cond, what):
        """Implicit obligation of every operation that may raise: `cond` holds (else `exc` would be raised)."""
        ok = self.check("no-exception/%s: %s" % (exc, what), cond, "%s possible: %s" % (exc, what))
        if not ok:
            self.assume(cond)          # continue on the non-raising executions

    def require_model(self, cond, why):
        c = z3.simplify(_z(cond))
        if z3.is_true(c):
            return
        st, _m, _dt, _be = solve.prove(self.pc, c, 10000)
        if st != "proved":
            raise Unmodelled(why)

    def _model(self, m):
        if m is None:
            return None
        out = {}
        for d in m.decls():
            nm = d.name()
            if "!" in nm:
                nm = nm            # keep instance suffix
            out[nm] = str(m[d])
        for nm, t in self.witness_terms.items():
            try:
                out["@" + nm] = str(m.eval(t, model_completion=True))
            except z3.Z3Exception:
                pass
        return {"model": out}

    def _model_of(self, extra):
        st, m = solve.satisfiable(self.pc + [extra], 5000)
        return self._model(m) if st == "sat" else None

    # ---- exploration
    def discover(self, thunk):
        """Template discovery for role-based loop contracts: one execution in which every cut loop runs its first
        iteration from the entry state; nothing is recorded."""
        self.probe = True
        try:
            self.explore(thunk, "probe")
        finally:
            self.probe = False
            self.paths = 0

    def explore(self, thunk, tag=""):
        """Run thunk() once per feasible decision sequence."""
        self.todo = [[]]
        n = 0
        while self.todo:
            self.prefix = self.todo.pop()
            self.pos = 0
            self.pc = []
            self.tag = tag
            n += 1
            self.paths += 1
            if n > self.max_paths:
                raise Unmodelled("path explosion (> %d paths) in %s" % (self.max_paths, tag))
            VC._cur = self
            try:
                thunk()
            except PathEnd:
                pass
            except PathBound as e:
                # this path only: the others are still explored (what is refuted on them is a refutation)
                self._record("exploration/%s: every path explored" % (tag or "run"), "undecided", str(e))
            finally:
                VC._cur = None
        return n

    def flush(self, prefix=""):
        """Move the collected obligations into the Ctx (one record per obligation name and outcome)."""
        for name, lst in self.results.items():
            bad = [x for x in lst if x[0] == "violated"]
            und = [x for x in lst if x[0] == "undecided"]
            secs = sum(x[3] for x in lst)
            bes = sorted({x[4] for x in lst})
            nm = prefix + name
            if bad:
                self.ctx._rec(nm, "violated", "+".join(bes), secs, {"why": bad[0][1], "paths_failing": len(bad), "paths": len(lst), "where": bad[0][5]},
                              witness=bad[0][2])
            elif und:
                self.ctx._rec(nm, "undecided", "+".join(bes), secs, und[0][1])
            else:
                self.ctx._rec(nm, "discharged", "+".join(bes), secs, None)
                self.ctx.obls[-1]["instances"] = len(lst)
        self.results = {}


# ----------------------------------------------------------------------------- sandbox builtins
class SymRange:
    def __init__(self, lo, hi, step=1):
        self.lo, self.hi, self.step = lo, hi, step

    def length(self):
        if isinstance(self.step, int) and self.step == 1:
            return ITE(self.hi > self.lo, self.hi - self.lo, 0) if isinstance(self.hi - self.lo, Sym) else max(self.hi - self.lo, 0)
        # ceil((hi-lo)/step) for positive step
        d = self.hi - self.lo
        q = (d + self.step - 1) // self.step
        return ITE(d > 0, q, 0) if isinstance(q, Sym) else max(q, 0)

    def elem(self, i):
        return self.lo + i * self.step

    def __iter__(self):
        raise Unmodelled("iteration over a symbolic range without a loop contract")


class SymEnumerate:
    def __init__(self, inner, start=0):
        self.inner, self.start = inner, start

    def length(self):
        return seq_length(self.inner)

    def elem(self, i):
        return (self.start + i, seq_elem(self.inner, i))

    def __iter__(self):
        raise Unmodelled("iteration over a symbolic enumerate without a loop contract")


class GhostSeq:
    """A sequence of symbolic length whose i-th element is produced by a function."""

    def __init__(self, length, elem, name="seq"):
        self._length, self._elem, self.name = length, elem, name

    def length(self):
        return self._length

    def elem(self, i):
        return self._elem(i)

    def __iter__(self):
        raise Unmodelled("iteration over ghost sequence %s without a loop contract" % self.name)

    def __len__(self):
        raise Unmodelled("len() of ghost sequence outside the sandbox")


def seq_length(it):
    if hasattr(it, "length"):
        return it.length()
    return len(it)


def seq_elem(it, i):
    if hasattr(it, "elem"):
        return it.elem(i)
    return it[i]


def _is_sym(x):
    return isinstance(x, Sym)


def sb_range(*a):
    if any(_is_sym(x) for x in a):
        if len(a) == 1:
            return SymRange(0, a[0])
        if len(a) == 2:
            return SymRange(a[0], a[1])
        return SymRange(a[0], a[1], a[2])
    return range(*a)


def sb_len(x):
    if hasattr(x, "length") and not isinstance(x, (list, tuple, dict, str)):
        return x.length()
    if hasattr(x, "sym_len"):
        return x.sym_len()
    return len(x)


def sb_enumerate(x, start=0):
    if hasattr(x, "length") and not isinstance(x, (list, tuple)):
        return SymEnumerate(x, start)
    return enumerate(x, start)


def sb_min(*a):
    if len(a) == 1:
        a = tuple(a[0])
    r = a[0]
    for x in a[1:]:
        if _is_sym(r) or _is_sym(x):
            r = ITE(x < r, x, r)
        else:
            r = min(r, x)
    return r


def sb_max(*a):
    if len(a) == 1:
        a = tuple(a[0])
    r = a[0]
    for x in a[1:]:
        if _is_sym(r) or _is_sym(x):
            r = ITE(x > r, x, r)
        else:
            r = max(r, x)
    return r


def sb_int(x=0, *a):
    if isinstance(x, SymInt):
        return x
    if isinstance(x, SymBool):
        return ITE(x, 1, 0)
    if isinstance(x, SymReal):
        tag = getattr(x, "_int_valued", None)
        e = z3.simplify(x.e)
        if z3.is_app(e) and e.decl().kind() == z3.Z3_OP_TO_REAL:
            return SymInt(e.arg(0))
        raise Unmodelled("int() of a symbolic real")
    return int(x, *a)


def sb_float(x=0.0):
    if isinstance(x, SymInt):
        return SymReal(z3.ToReal(x.e))
    if isinstance(x, SymReal):
        return x
    r = float(x)
    if r != r:
        return SymNpReal(z3.RealVal(0), z3.BoolVal(True), np_=False)      # float("nan")
    return r


def sb_abs(x):
    return abs(x)


INT_KIND = ["python"]      # "numpy": symbolic integers stand for numpy integer scalars (np.int64 ...), which are not instances of int


def sb_isinstance(obj, cls):
    cl = cls if isinstance(cls, tuple) else (cls,)
    cl = tuple({sb_float: float, sb_int: int}.get(c, c) if callable(c) and not isinstance(c, type) else c for c in cl)
    cls = cl
    if _is_sym(obj):
        if isinstance(obj, SymBool):
            return bool in cl or int in cl
        if isinstance(obj, SymInt):
            if INT_KIND[0] == "numpy":
                import numbers
                import numpy as _np
                return any(c in (_np.integer, _np.int64, _np.signedinteger, _np.number, _np.generic, numbers.Integral, numbers.Real, numbers.Number, object) for c in cl)
            return int in cl
        if isinstance(obj, SymReal):
            return float in cl
    gk = getattr(obj, "_ghost_isinstance", None)
    if gk is not None:
        return gk(cls)
    return isinstance(obj, cls)


def sb_ceil(x):
    """math.ceil / np.ceil on a symbolic real that is a quotient a/b of integers (b > 0)."""
    if isinstance(x, SymReal):
        e = z3.simplify(x.e)
        n = getattr(x, "_ratio", None)
        if n is None:
            raise Unmodelled("ceil of a symbolic real that is not a recorded integer quotient")
        a, b = n
        return (a + b - 1) // b
    if isinstance(x, SymInt):
        return x
    return math.ceil(x)


def ratio(a, b):
    """a / b for symbolic integers, remembering the operands so that ceil() stays exact."""
    r = SymInt(_z(a))._div(b)
    q = SymReal(r.e)
    object.__setattr__(q, "e", r.e)
    return _Ratio(r.e, a, b)


class _Ratio(SymReal):
    __slots__ = ("_ratio",)

    def __init__(self, e, a, b):
        SymReal.__init__(self, e)
        self._ratio = (a if _is_sym(a) else SymInt(_z(a)), b if _is_sym(b) else SymInt(_z(b)))


# make int / int produce a _Ratio so that ceil(N / B) is exact
def _int_truediv(self, o):
    if isinstance(o, (SymInt, int)) and not isinstance(o, bool):
        VC.cur().no_exception("ZeroDivisionError", _z(o) != 0, "division by zero")
        a, b = _num2(self, o)
        return _Ratio(z3.ToReal(a) / z3.ToReal(b), self, o)
    return SymNum._div(self, o)


def _int_rtruediv(self, o):
    if isinstance(o, int) and not isinstance(o, bool):
        VC.cur().no_exception("ZeroDivisionError", self.e != 0, "division by zero")
        return _Ratio(z3.ToReal(z3.IntVal(o)) / z3.ToReal(self.e), o, self)
    return SymNum._div(self, o, True)


SymInt.__truediv__ = _int_truediv
SymInt.__rtruediv__ = _int_rtruediv


class NpProxy:
    """numpy names the protocol code uses, accepting symbolic scalars."""

    def __init__(self, real):
        self._real = real

    def __getattr__(self, n):
        return getattr(self._real, n)

    def ceil(self, x):
        if _is_sym(x):
            return sb_ceil(x)
        return self._real.ceil(x)

    def sqrt(self, x):
        if _is_sym(x):
            vc = VC.cur()
            x = sb_float(x)
            r = vc.fresh_real("sqrt")
            vc.pc.append(r.e >= 0)
            vc.pc.append(z3.Implies(x.e >= 0, r.e * r.e == x.e))
            u = getattr(x, "undef", None)
            # numpy: sqrt of a negative number (or of NaN) is NaN with a warning, not an exception
            return SymNpReal(r.e, z3.Or(x.e < 0, u if u is not None else z3.BoolVal(False)))
        return self._real.sqrt(x)

    def array(self, x, *a, **k):
        if isinstance(x, GhostArrayLike):
            return x
        return self._real.array(x, *a, **k)


class GhostArrayLike:
    pass


def identity_iter(it, *a, **k):
    return it


def vc_map(f, it):
    if hasattr(it, "length") and not isinstance(it, (list, tuple)):
        return GhostSeq(it.length(), lambda i: f(it.elem(i)), "comprehension")
    return [f(x) for x in it]


def sb_zip(*its):
    if any(hasattr(x, "length") and not isinstance(x, (list, tuple)) for x in its):
        n = sb_min(*[seq_length(x) for x in its]) if len(its) > 1 else seq_length(its[0])
        z = GhostSeq(n, lambda i: tuple(seq_elem(x, i) for x in its), "zip")
        z.parts = its
        return z
    return zip(*its)


SANDBOX_BUILTINS = {
    "range": sb_range, "len": sb_len, "enumerate": sb_enumerate, "min": sb_min, "max": sb_max, "int": sb_int,
    "float": sb_float, "isinstance": sb_isinstance, "ceil": sb_ceil, "tqdm": identity_iter, "tqdm_notebook": identity_iter, "zip": sb_zip, "__vc_map": vc_map,
}


# ----------------------------------------------------------------------------- loop contracts
class LoopSpec:
    """Sidecar contract of one `for` loop.

    invariant(env, i, n) -> list of (clause, condition): must hold before iteration i (0 <= i <= n);
    modifies(env) -> None: havoc the ghost cells the body may write (locals assigned in the body are
    havocked automatically and rebound from `locals_after_havoc(env, i)` if given)."""

    def __init__(self, invariant, modifies=None, havoc_locals=None, name=""):
        self.invariant, self.modifies, self.havoc_locals, self.name = invariant, modifies, havoc_locals, name


class RoleLoopSpec(LoopSpec):
    """Loop contract over *roles*: the loop-carried state is identified by ghost tokens (object identity / value), not
    by the names or the grouping of local variables, so renaming locals or carrying them in a tuple does not matter.

    roles()            -> {role: current ghost token}                (ghost state after the last completed iteration)
    fresh(i, n)        -> {role: token}   set the ghost state to "i iterations completed" with fresh tokens
    entry(vals)        -> [(clause, cond)] conditions on the values found at the role positions at loop entry
    clauses(i, n)      -> [(clause, cond)] ghost-only invariant clauses
    value_roles        roles compared by value (z3 equality) instead of identity"""

    def __init__(self, roles, fresh, entry, clauses, name="", value_roles=()):
        LoopSpec.__init__(self, None, None, None, name)
        self.roles, self.fresh, self.entry, self.clauses, self.value_roles = roles, fresh, entry, clauses, tuple(value_roles)
        self.template = None


def _tmpl_build(v, roles, vc, value_roles, changed):
    for r, tok in roles.items():
        if tok is v and r not in value_roles:
            return ("role", r)
    if changed and isinstance(v, (SymInt, int)) and not isinstance(v, bool):
        for r in value_roles:
            try:
                st_, _m, _dt, _be = solve.prove(vc.pc, _z(v) == _z(roles[r]), 5000)
            except Unmodelled:
                continue
            if st_ == "proved":
                return ("role", r)
    if isinstance(v, tuple):
        sub = [_tmpl_build(x, roles, vc, value_roles, changed) for x in v]
        return ("tuple", sub) if any(_tmpl_has_role(x) for x in sub) else ("other",)
    if isinstance(v, list):
        sub = [_tmpl_build(x, roles, vc, value_roles, changed) for x in v]
        return ("list", sub) if any(_tmpl_has_role(x) for x in sub) else ("other",)
    if isinstance(v, dict):
        sub = {k: _tmpl_build(x, roles, vc, value_roles, True) for k, x in v.items()}
        return ("dict", sub) if any(_tmpl_has_role(x) for x in sub.values()) else ("other",)
    return ("other",)


def _tmpl_has_role(t):
    if t[0] == "role":
        return True
    if t[0] in ("tuple", "list"):
        return any(_tmpl_has_role(x) for x in t[1])
    if t[0] == "dict":
        return any(_tmpl_has_role(x) for x in t[1].values())
    return False


def _tmpl_make(t, tokens, cur, why):
    if t[0] == "role":
        return tokens[t[1]]
    if t[0] == "tuple":
        return tuple(_tmpl_make(x, tokens, (cur[i] if isinstance(cur, tuple) and i < len(cur) else None), why) for i, x in enumerate(t[1]))
    if t[0] == "list":
        new = [_tmpl_make(x, tokens, (cur[i] if isinstance(cur, list) and i < len(cur) else None), why) for i, x in enumerate(t[1])]
        if isinstance(cur, list):
            cur[:] = new
            return cur
        return new
    if t[0] == "dict":
        tgt = cur if isinstance(cur, dict) else {}
        for k, x in t[1].items():
            tgt[k] = _tmpl_make(x, tokens, tgt.get(k), why)
        return tgt
    return cur if cur is not None else Opaque(why)


def _tmpl_walk(t, v, path=""):
    """Yield (role, value-or-MISSING, path) for every role position of template t inside value v."""
    if t[0] == "role":
        yield t[1], v, path
    elif t[0] in ("tuple", "list"):
        for i, x in enumerate(t[1]):
            sub = v[i] if isinstance(v, (tuple, list)) and i < len(v) else _MISSING
            yield from _tmpl_walk(x, sub, "%s[%d]" % (path, i))
    elif t[0] == "dict":
        for k, x in t[1].items():
            sub = v.get(k, _MISSING) if isinstance(v, dict) else _MISSING
            yield from _tmpl_walk(x, sub, "%s[%r]" % (path, k))


_MISSING = object()


class _LoopRT:
    """Runtime support object bound as __vc_loops in the sandbox."""

    UNROLL = 2          # iterations of a loop without contract over a symbolic range that are explored (bounded)

    def __init__(self, vc, specs, fname):
        self.vc, self.fname = vc, fname
        self.contracts = specs                      # as declared: ordinal (or name) -> spec
        self.semantic = any(getattr(s, "match", None) for s in specs.values())
        self.specs = {} if self.semantic else specs  # loop ordinal in the current source -> spec (bound at run time when semantic)
        self.state = {}

    def bind(self, k, it, env):
        """Contracts with a `match` predicate are bound to the loop whose iterable they describe (what the loop ranges over,
        not where it stands in the source): code that gains or loses an unrelated loop keeps its contracts.  Returns True
        when loop k runs without a contract (plain execution)."""
        if not self.semantic:
            return False
        self.specs.pop(k, None)
        for key, spec in self.contracts.items():
            m = getattr(spec, "match", None)
            if m is not None and m(it, env):
                self.specs[k] = spec
                return False
        return True

    def plain_iter(self, k, it):
        """A loop without contract: run as it is when its iterable is concrete; over a symbolic range the first UNROLL
        iterations are explored path by path (bounded), longer runs of it are left undecided."""
        if not hasattr(it, "length"):
            for x in it:
                yield x
            return
        n = it.length()
        if not isinstance(n, Sym):
            for i in range(n):
                yield it.elem(i)
            return
        i = 0
        while True:
            if self.vc.decide(_z(n) <= i):
                return
            if i >= self.UNROLL:
                raise PathBound("a loop without contract over a symbolic range runs more than %d times on this path (loop %d of %s)" % (self.UNROLL, k, self.fname))
            yield it.elem(i)
            i += 1

    def enter(self, k, it, env):
        spec = self.specs[k]
        n = seq_length(it)
        self.state[k] = (it, n)
        if isinstance(spec, RoleLoopSpec):
            if self.vc.probe:
                self.state[(k, "env0")] = {nm: id(v) for nm, v in env.items()}
                return it
            pre = "%s/loop%d(%s)/invariant-on-entry: " % (self.fname, k, spec.name)
            vals, ok = {}, spec.template is not None
            for nm, t in (spec.template or {}).items():
                for r, v, path in _tmpl_walk(t, env.get(nm, _MISSING), nm):
                    if v is _MISSING:
                        ok = False
                    else:
                        vals[r] = v
            self.vc.check(pre + "the loop-carried state is initialised before the loop", ok and set(vals) >= set(spec.roles().keys()) - set(getattr(spec, "optional_roles", ())),
                          "template %s; found at entry %s" % (spec.template, sorted(vals)))
            if ok:
                for clause, cond in spec.entry(vals):
                    self.vc.check(pre + clause, cond)
                for clause, cond in spec.clauses(0, n):
                    self.vc.check(pre + clause, cond)
            return it
        for clause, cond in spec.invariant(env, 0, n):
            self.vc.check("%s/loop%d(%s)/invariant-on-entry: %s" % (self.fname, k, spec.name, clause), cond)
        return it

    def fork(self, k):
        if self.vc.probe and isinstance(self.specs[k], RoleLoopSpec):
            return True
        return self.vc.fork("loop%d" % k)

    def _one_shot_iterators(self, env, i):
        """Iterators (zip, map, generators, ...) created before the loop and consumed inside it are loop-carried state the
        invariant does not mention: after the first iteration they are exhausted.  The cut point forks on i == 0; for
        i > 0 every such iterator in scope is exhausted before the body runs from the arbitrary state."""
        if self.vc.probe:
            return
        import types
        own = [s[0] for key, s in self.state.items() if isinstance(key, int) and isinstance(s, tuple)]      # the loops' own iterables
        its = [v for nm, v in env.items() if not nm.startswith("__vc") and isinstance(v, (zip, map, filter, enumerate, types.GeneratorType))
               and not any(v is o for o in own)]
        if not its or isinstance(i, int):
            return
        if not self.vc.decide(_z(i) == 0):
            import collections
            for v in its:
                collections.deque(v, maxlen=0)

    def havoc(self, k, names, env, exiting):
        """Returns the new values of the havocked locals (in `names` order)."""
        spec = self.specs[k]
        it, n = self.state[k]
        vc = self.vc
        if isinstance(spec, RoleLoopSpec):
            why = "local havocked at loop %d of %s" % (k, self.fname)
            if vc.probe:
                self.state[(k, "i")] = 0
                out = [env.get(nm, Opaque(why)) for nm in names]
                return tuple(out) if len(out) != 1 else out[0]
            if exiting:
                i = n
            else:
                i = vc.fresh_int("i_loop%d" % k, 0)
                vc.assume(i < n)
            self.state[(k, "i")] = i
            if not exiting:
                self._one_shot_iterators(env, i)
            tokens = spec.fresh(i, n)
            out = []
            for nm in names:
                t = (spec.template or {}).get(nm)
                out.append(_tmpl_make(t, tokens, env.get(nm), why) if t is not None else Opaque(why))
            for nm, t in (spec.template or {}).items():
                if nm not in names and t[0] in ("dict", "list"):
                    _tmpl_make(t, tokens, env.get(nm), why)       # containers mutated in place by the body
            for clause, cond in spec.clauses(i, n):
                vc.assume(cond)
            return tuple(out) if len(out) != 1 else out[0]
        if spec.modifies:
            spec.modifies(env)
        if exiting:
            i = n
        else:
            i = vc.fresh_int("i_loop%d" % k, 0)
            vc.assume(i < n)
        self.state[(k, "i")] = i
        if not exiting:
            self._one_shot_iterators(env, i)
        newvals = {}
        if spec.havoc_locals:
            newvals = spec.havoc_locals(env, i, n) or {}
        env2 = dict(env)
        out = []
        for nm in names:
            v = newvals.get(nm, Opaque("local %s havocked at loop %d of %s" % (nm, k, self.fname)))
            env2[nm] = v
            out.append(v)
        for clause, cond in spec.invariant(env2, i, n):
            vc.assume(cond)
        return tuple(out) if len(out) != 1 else out[0]

    def index(self, k, it):
        i = self.state[(k, "i")]
        return seq_elem(it, i)

    def preserved(self, k, env):
        spec = self.specs[k]
        it, n = self.state[k]
        i = self.state[(k, "i")]
        if isinstance(spec, RoleLoopSpec):
            roles = spec.roles()
            if self.vc.probe:
                env0 = self.state.get((k, "env0"), {})
                tmpl = {}
                for nm, v in env.items():
                    if nm.startswith("__vc") or nm not in env0:
                        continue              # loop-carried state is initialised before the loop
                    t = _tmpl_build(v, roles, self.vc, spec.value_roles, env0.get(nm) != id(v))
                    if _tmpl_has_role(t):
                        tmpl[nm] = t
                spec.template = tmpl
                raise PathEnd()
            pre = "%s/loop%d(%s)/invariant-preserved: " % (self.fname, k, spec.name)
            seen = set()
            for nm, t in (spec.template or {}).items():
                for r, v, path in _tmpl_walk(t, env.get(nm, _MISSING), nm):
                    seen.add(r)
                    if v is _MISSING:
                        self.vc.check(pre + "loop-carried %s is still in place" % r, False)
                    elif r in spec.value_roles:
                        self.vc.check(pre + "loop-carried %s is the value the contract prescribes" % r, v == roles[r])
                    else:
                        self.vc.check(pre + "loop-carried %s is the object the contract prescribes" % r, v is roles[r])
            for clause, cond in spec.clauses(i + 1, n):
                self.vc.check(pre + clause, cond)
            raise PathEnd()
        for clause, cond in spec.invariant(env, i + 1, n):
            self.vc.check("%s/loop%d(%s)/invariant-preserved: %s" % (self.fname, k, spec.name, clause), cond)
        raise PathEnd()


class _Rewriter(ast.NodeTransformer):
    def __init__(self, specs, clsname):
        self.specs, self.clsname = specs, clsname
        self.counter = -1
        self.rewritten = []

    def visit_Call(self, node):
        self.generic_visit(node)
        if isinstance(node.func, ast.Name) and node.func.id == "super" and not node.args and self.clsname:
            node.args = [ast.Name(id="__vc_class", ctx=ast.Load()), ast.Name(id="self", ctx=ast.Load())]
        return node

    def visit_ListComp(self, node):
        """[elt for x in ITER] -> __vc_map(lambda x: elt, ITER): a list when ITER is concrete, a GhostSeq whose i-th
        element is elt(ITER[i]) when ITER has a symbolic length (the element expression is the original node)."""
        self.generic_visit(node)
        if len(node.generators) != 1 or node.generators[0].ifs or node.generators[0].is_async:
            return node
        gen = node.generators[0]
        if not isinstance(gen.target, ast.Name):
            return node
        lam = ast.Lambda(args=ast.arguments(posonlyargs=[], args=[ast.arg(arg=gen.target.id)], kwonlyargs=[], kw_defaults=[], defaults=[]),
                         body=node.elt)
        return ast.Call(func=ast.Name(id="__vc_map", ctx=ast.Load()), args=[lam, gen.iter], keywords=[])

    def visit_For(self, node):
        self.counter += 1          # numbered in source order (pre-order)
        k = self.counter
        self.generic_visit(node)
        semantic = any(getattr(s, "match", None) for s in self.specs.values())
        if k not in self.specs and not semantic:
            return node
        self.rewritten.append({"loop": k, "line": node.lineno, "contract": "bound at run time by what the loop ranges over" if semantic else self.specs[k].name})
        assigned = set()
        for sub in ast.walk(ast.Module(body=node.body, type_ignores=[])):
            if isinstance(sub, ast.Name) and isinstance(sub.ctx, ast.Store):
                assigned.add(sub.id)
        for sub in ast.walk(node.target):
            if isinstance(sub, ast.Name):
                assigned.add(sub.id)
        names = sorted(assigned)
        L = lambda s: ast.parse(s).body
        itv = "__vc_it%d" % k
        out = []
        out += L("%s = __vc_loops.enter(%d, None, locals())" % (itv, k))
        out[-1].value.args[1] = node.iter
        tgt = ", ".join(names) + ("," if len(names) == 1 else "")
        hav = lambda ex: L("%s = __vc_loops.havoc(%d, %r, locals(), %s)" % (tgt if len(names) != 1 else names[0], k, tuple(names), ex)) if names \
            else L("__vc_loops.havoc(%d, (), locals(), %s)" % (k, ex))
        body_if = hav("False")
        assign_t = ast.Assign(targets=[node.target], value=ast.parse("__vc_loops.index(%d, %s)" % (k, itv), mode="eval").body)
        body_if.append(assign_t)
        once = ast.For(target=ast.Name(id="__vc_once%d" % k, ctx=ast.Store()), iter=ast.parse("(0,)", mode="eval").body,
                       body=node.body, orelse=L("__vc_loops.preserved(%d, locals())" % k), type_comment=None)
        body_if.append(once)
        if node.orelse:
            raise Unmodelled("for/else under a loop contract")
        iff = ast.If(test=ast.parse("__vc_loops.fork(%d)" % k, mode="eval").body, body=body_if, orelse=hav("True"))
        if not semantic:
            out.append(iff)
            return out
        # contracts bound at run time: the loop runs under its contract (cut-point form) when one describes its iterable,
        # and as it stands otherwise
        import copy as _copy
        rawit = "__vc_raw%d" % k
        pre = L("%s = None" % rawit)
        pre[0].value = node.iter
        out[0].value.args[1] = ast.Name(id=rawit, ctx=ast.Load())
        plain = ast.For(target=_copy.deepcopy(node.target), iter=ast.parse("__vc_loops.plain_iter(%d, %s)" % (k, rawit), mode="eval").body,
                        body=_copy.deepcopy(node.body), orelse=_copy.deepcopy(node.orelse), type_comment=None)
        return pre + [ast.If(test=ast.parse("__vc_loops.bind(%d, %s, locals())" % (k, rawit), mode="eval").body, body=[plain], orelse=out + [iff])]


def load(fn, specs=None, vc=None, extra_globals=None, cls=None, name=None):
    """Recompile the *current source* of `fn` in a sandbox namespace; returns (function, rewritten-loop list)."""
    specs = specs or {}
    raw = fn.__func__ if hasattr(fn, "__func__") else fn
    raw = inspect.unwrap(raw) if not specs else raw
    src = textwrap.dedent(inspect.getsource(raw))
    tree = ast.parse(src)
    fdef = tree.body[0]
    if not isinstance(fdef, (ast.FunctionDef,)):
        raise Unmodelled("source of %r is not a function definition" % (fn,))
    fdef.decorator_list = [d for d in fdef.decorator_list if not (isinstance(d, ast.Name) and d.id in ("staticmethod", "classmethod", "property"))]
    rw = _Rewriter(specs, cls.__name__ if cls else None)
    tree = rw.visit(tree)
    ast.fix_missing_locations(tree)
    missing = [k for k in specs if k not in [r["loop"] for r in rw.rewritten] and not getattr(specs[k], "match", None)]
    if missing:
        raise Unmodelled("loop contract(s) %s of %s have no matching loop in the current source" % (missing, name or raw.__qualname__))
    g = dict(raw.__globals__)
    g.update(SANDBOX_BUILTINS)
    if "np" in g:
        g["np"] = NpProxy(g["np"])
    if extra_globals:
        g.update(extra_globals)
    if cls is not None:
        g["__vc_class"] = cls
    g["__vc_loops"] = _LoopRT(vc, specs, name or raw.__qualname__)
    code = compile(tree, "<sandbox:%s>" % (name or raw.__qualname__), "exec")
    ns = {}
    exec(code, g, ns)
    f = ns[fdef.name]
    # rebind to the sandbox globals (exec with separate locals dict keeps g as the function's globals)
    return f, rw.rewritten


def sandbox_class(cls, vc, methods=None, specs=None, extra_globals=None):
    """A subclass of the real class whose listed methods are recompiled from the current source in the sandbox
    (so calls between them, and to builtins such as len / int / isinstance, accept symbolic values)."""
    specs = specs or {}
    ns = {}
    rew = []
    names = methods or [n for n, v in vars(cls).items() if inspect.isfunction(v) or isinstance(v, staticmethod)]
    for n in names:
        raw = vars(cls)[n]
        is_static = isinstance(raw, staticmethod)
        fn = raw.__func__ if is_static else raw
        f, r = load(fn, specs.get(n), vc, extra_globals, cls=cls, name="%s.%s" % (cls.__name__, n))
        rew += r
        ns[n] = staticmethod(f) if is_static else f
    sb = type("SB_" + cls.__name__, (cls,), ns)
    sb._vc_rewritten = rew
    return sb
