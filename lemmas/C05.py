"""C05 — Gibbs sampling targets the reported distribution (front end N).

torch.bernoulli is replaced by a recording stub that is handed outcome patterns;
the probabilities the real code passes to it are compared with the exact
conditionals of the joint Boltzmann weight.  That torch.bernoulli really draws
Bernoulli(p) is an assumption (trusted dependency), checked only by a labelled
bounded driver.
"""
import itertools
import random

import numpy as np
import torch

from qv import alg, native as N, symtensor as st
from qv.alg import ZERO, ONE
from contracts import rbm as R

LEVEL = "proof"
MANIFEST = {
    "engine": "qv-native+qv-gen",
    "category": "proof",
    "technique": "contracts on the conditionals, sampling helpers, gibbs_steps and sample, bodies executed on symbolic parameters with a recording torch.bernoulli stub; obligations discharged by exp-polynomial normal form and z3",
    "text": "Each conditional (h|v, v|h, a|v, v|h,a) is proved equal to the exact conditional of the joint Boltzmann weight for every configuration, including the factorisation over units and the out= buffer form. gibbs_steps is executed under a recording bernoulli stub for enumerated and seeded outcome patterns: every step must draw h (and a) from the conditional of the *current* visible state and then v from the conditional of those draws, the result is the last draw, k=0 returns the start state, overwrite=False leaves the caller's tensor untouched and overwrite=True updates it in place. Detailed balance of the assembled kernel with the reported distribution is a lemma over the proved conditionals. Additionally (front end G) every conditional-probability routine equals sigmoid of its activation for every size, including the out= buffer form; lean/Marginals.lean proves for every nv, nh that the exact conditional of the joint distribution factorises into these Bernoulli parameters.",
    "note": "torch.bernoulli's law and the torch generator are trusted (bounded Hoeffding driver only); floats as reals (clamp_(0,1) proved to be the identity on sigmoid outputs); shapes enumerated (quick nv,nh,na<=2; thorough up to 4,4,3 for conditionals, up to 3,2,2 for detailed balance); the k-step law is K^k by the per-iteration contract and Chapman-Kolmogorov; the shape-generic part (front end G) holds for all sizes and values, equalities decided by tensor-algebra normal form (sound, incomplete: a miss is undecided, never a violation without a replayed witness)",
}
EXPLANATION = "conditionals vs joint Boltzmann weight with all hidden/aux configurations enumerated; kernel assembled from proved conditionals"
TRUSTED = ["torch.bernoulli(p) draws independent Bernoulli(p) variates from torch's global generator",
           "Chapman-Kolmogorov: composing the one-step kernel k times gives K^k"]


def configs(tier):
    out = []
    if tier == "quick":
        plain = [(1, 1), (2, 2), (2, 1), (1, 2)]
        pur = [(1, 1, 1), (2, 1, 2), (2, 2, 1)]
    else:
        plain = [(a, b) for a in (1, 2, 3, 4) for b in (1, 2, 3, 4)]
        pur = [(a, b, c) for a in (1, 2, 3) for b in (1, 2, 3) for c in (1, 2, 3)] + [(4, 4, 3), (4, 1, 1), (1, 4, 3)]
    for (nv, nh) in plain:
        out.append({"rbm": "binary", "nv": nv, "nh": nh})
    for (nv, nh, na) in pur:
        out.append({"rbm": "purification", "nv": nv, "nh": nh, "na": na})
    for kind in ("positive", "complex", "mixed"):
        out.append({"rbm": "sample", "kind": kind, "nv": 2, "nh": 2, "na": 1})
    # the same obligations on objects reached as copies of other objects (copy.deepcopy / pickle round trip)
    for kind in ("positive", "mixed"):
        out.append({"rbm": "sample", "kind": kind, "nv": 2, "nh": 2, "na": 1, "grad": "off"})       # the caller samples under torch.no_grad()
    out.append({"rbm": "binary", "nv": 2, "nh": 1, "grad": "off"})
    out.append({"rbm": "binary", "nv": 2, "nh": 2, "module_mode": "eval"})          # after nn.Module.eval() was called on the network
    out.append({"rbm": "purification", "nv": 2, "nh": 1, "na": 1, "module_mode": "eval"})
    out.append({"rbm": "binary", "nv": 2, "nh": 1, "via": "deepcopy"})
    out.append({"rbm": "purification", "nv": 1, "nh": 1, "na": 1, "via": "deepcopy"})
    out.append({"rbm": "purification", "nv": 2, "nh": 1, "na": 2, "via": "pickle"})
    out.append({"rbm": "sample", "kind": "mixed", "nv": 2, "nh": 2, "na": 1, "via": "deepcopy"})
    out.append({"generic": "every shape"})
    out.append({"lean": "size-generic lemmas"})
    return out


def canaries(tier):
    return [({"rbm": "binary", "nv": 2, "nh": 1}, "spec-v-conditional-ignores-visible-bias"),
            ({"rbm": "purification", "nv": 1, "nh": 1, "na": 1}, "spec-aux-from-new-v"),
            ({"generic": "every shape"}, "generic-wrong-contract")]


def _c(rows):
    return torch.tensor(rows, dtype=torch.double)


def run_config(ctx, cfg):
    if cfg.get("lean"):
        from contracts import leanlink
        return leanlink.run(ctx, "C05")
    if cfg.get("generic"):
        from contracts import gsets
        return gsets.run(ctx, "C05")
    from drivers import common as _DC
    _DC.VIA[0] = cfg.get("via")        # the object under contract is reached as a copy of another one (drivers/common.copied)
    _DC.SYM_ORIG[0] = cfg.get("rbm") != "sample"        # the sample() history runs on numbers
    if cfg["rbm"] in ("binary", "purification"):
        try:
            with _only_bernoulli():
                return (_binary if cfg["rbm"] == "binary" else _purification)(ctx, cfg)
        except _ForeignDraw as e:
            # units drawn by comparing the conditional with noise of the library's own making: the law of the draw is then
            # that noise's, not Bernoulli(p) (single-precision uniforms put mass 2^-24 where p is 1e-13)
            if getattr(e, "coarse", True):
                ctx.holds("sampling/every unit is drawn by torch.bernoulli from its exact conditional (no other random source)", False, str(e))
            else:
                ctx.undecided("sampling/every unit is drawn by torch.bernoulli from its exact conditional", str(e))
            return
    return _sample(ctx, cfg)


class _ForeignDraw(Exception):
    pass


def _only_bernoulli():
    """While the sampler runs, every other way torch has of producing random numbers is a contract violation."""
    import contextlib
    from unittest import mock

    def refuse(name):
        def f(*a, **k):
            dt = k.get("dtype")
            if dt is None and name.endswith("_like") and a and isinstance(a[0], torch.Tensor):
                dt = torch.double if isinstance(a[0], st.SymTensor) else a[0].dtype
            if dt is None:
                dt = torch.get_default_dtype()
            e = _ForeignDraw("the sampler called torch.%s (noise of type %s)" % (name, dt))
            # noise as fine as the probabilities themselves (double precision) realises Bernoulli(p) to within the rounding
            # of p: not a refutation, but not the contract either - undecided
            e.coarse = dt not in (torch.double,)
            raise e
        return f
    es = contextlib.ExitStack()
    for name in ("rand", "rand_like", "randint", "randint_like", "multinomial", "poisson"):      # (randn draws the initial weights)
        es.enter_context(mock.patch.object(torch, name, refuse(name)))
    for name in ("uniform_", "random_", "normal_", "bernoulli_", "exponential_", "geometric_", "cauchy_", "log_normal_"):
        es.enter_context(mock.patch.object(torch.Tensor, name, refuse("Tensor." + name)))
    return es


# --------------------------------------------------------------------- plain RBM
def _binary(ctx, cfg):
    from qucumber.rbm import BinaryRBM
    from drivers import common as _DC
    canary = getattr(ctx, "canary", None)
    nv, nh = cfg["nv"], cfg["nh"]
    rbm = _DC.copied(BinaryRBM(nv, nh, gpu=False))
    if cfg.get("module_mode") == "eval":
        rbm.eval()              # nn.Module's training flag (torch's own .eval() / .train()) is no part of the kernel
    N.symbolize(rbm, "am")
    par = R.params_of(rbm)
    spar = par
    if canary == "spec-v-conditional-ignores-visible-bias":
        spar = dict(par)
        z = par["visible_bias"].copy()
        z[...] = ZERO
        spar["visible_bias"] = z
    vs, hs = R.bits(nv), R.bits(nh)
    ctx.under_contract("BinaryRBM.prob_h_given_v", "BinaryRBM.prob_v_given_h", "BinaryRBM.sample_h_given_v",
                       "BinaryRBM.sample_v_given_h", "BinaryRBM.gibbs_steps")
    st.reset_logs()
    # ---- conditionals: batched, vector and out= forms
    q = rbm.prob_h_given_v(_c(vs))
    ctx.holds("prob_h_given_v/shape", tuple(q.shape) == (len(vs), nh))
    pi = [R.marginal(par, v) for v in vs]
    for r, v in enumerate(vs):
        for j in range(nh):
            ctx.eq("prob_h_given_v/exact-conditional[v=%d j=%d]" % (r, j), q._arr[r, j] * pi[r], R.marginal_h_on(par, v, j), z3_confirm=False)
        for hi, h in enumerate(hs):
            prod = ONE
            for j in range(nh):
                prod = prod * (q._arr[r, j] if h[j] else (1 - q._arr[r, j]))
            ctx.eq("prob_h_given_v/factorises[v=%d h=%d]" % (r, hi), prod * pi[r], alg.exp(-R.joint_energy(par, v, h)), z3_confirm=False)
    q1 = rbm.prob_h_given_v(_c(vs[-1]))
    ctx.eq_arrays("prob_h_given_v/vector-form", q1, q._arr[-1], z3_confirm=False)
    buf = st.SymTensor(st._obj(torch.zeros(len(vs), nh)))
    qo = rbm.prob_h_given_v(_c(vs), out=buf)
    ctx.holds("prob_h_given_v/out-is-returned", qo._stor is buf._stor)
    ctx.eq_arrays("prob_h_given_v/out-form", buf, q, z3_confirm=False)
    p = rbm.prob_v_given_h(_c(hs))
    ctx.holds("prob_v_given_h/shape", tuple(p.shape) == (len(hs), nv))
    zh = [R.marginal_v(spar, h) for h in hs]
    for r, h in enumerate(hs):
        for i in range(nv):
            ctx.eq("prob_v_given_h/exact-conditional[h=%d i=%d]" % (r, i), p._arr[r, i] * zh[r], R.marginal_v_on(spar, h, i), z3_confirm=False)
        for vi, v in enumerate(vs):
            prod = ONE
            for i in range(nv):
                prod = prod * (p._arr[r, i] if v[i] else (1 - p._arr[r, i]))
            ctx.eq("prob_v_given_h/factorises[h=%d v=%d]" % (r, vi), prod * zh[r], alg.exp(-R.joint_energy(spar, v, h)), z3_confirm=False)
    for r in range(len(hs)):
        for i in range(nv):
            ctx.nonneg("prob_v_given_h/in-[0,1]-low[h=%d i=%d]" % (r, i), p._arr[r, i])
            ctx.nonneg("prob_v_given_h/in-[0,1]-high[h=%d i=%d]" % (r, i), 1 - p._arr[r, i])
    ctx.frame("conditionals/frame")

    # ---- gibbs_steps under the recording stub
    _gibbs(ctx, rbm, nv, nh, 0, lambda v: q._arr[R.bits(nv).index(tuple(v))],
           lambda h, a: p._arr[R.bits(nh).index(tuple(h))], None)

    # ---- lemma: detailed balance of the kernel assembled from the proved conditionals.
    # By the contracts above P(h|v) = A(v,h)/pi(v) and P(v'|h) = A(v',h) * IZ_h with A = exp(-E) and
    # IZ_h = 1/sum_v A(v,h); IZ_h stays opaque (its definition is not needed), so
    # pi(v) K(v,v') = sum_h A(v,h) A(v',h) IZ_h.
    A = [[alg.exp(-R.joint_energy(par, v, h)) for h in hs] for v in vs]
    IZ = [alg.uf("invZ[h=%d]" % hi, "pos") for hi in range(len(hs))]

    def piK(r, s_):
        tot = ZERO
        for hi in range(len(hs)):
            tot = tot + A[r][hi] * (A[s_][hi] * IZ[hi])
        return tot
    for r in range(len(vs)):
        for s_ in range(r + 1, len(vs)):
            ctx.eq("lemma/detailed-balance: pi(v)K(v,v') == pi(v')K(v',v)[%d,%d]" % (r, s_), piK(r, s_), piK(s_, r), z3_confirm=False)
    for r in range(len(vs)):
        tot = ZERO
        for hi in range(len(hs)):
            tot = tot + A[r][hi]
        ctx.eq("lemma/pi-is-the-reported-distribution[%d]" % r, tot, pi[r], z3_confirm=False)
    from qucumber.rbm import BinaryRBM
    _history(ctx, rbm, lambda: BinaryRBM(nv, nh, gpu=False), [("prob_h_given_v", (_c(vs),)), ("prob_v_given_h", (_c(hs),))])


def _gibbs(ctx, rbm, nv, nh, na, cond_h, cond_v, cond_a):
    """Run the real gibbs_steps with a recording bernoulli stub.  cond_* give the
    (already proved) conditional probability vectors for a concrete state."""
    rnd = random.Random(7)
    starts = [list(v) for v in R.bits(nv)]
    B = len(starts)
    pur = na > 0
    earlier = []          # (result object, snapshot of its values) of every previous call on this RBM
    for k in (0, 1, 2, 3):
        for ow_arg in (False, True, "left at its default"):
            overwrite = ow_arg is True          # the documented default is overwrite=False
            if ow_arg not in (False, True) and k == 3:
                continue
            n_pat = 1 if k == 0 else (4 if ctx.tier == "quick" else 8)
            for pat in range(n_pat):
                draws = []

                def hook(probs, draws=draws):
                    d = np.array([[rnd.randint(0, 1) for _ in range(probs.shape[1])] for _ in range(probs.shape[0])], dtype=float)
                    draws.append(d)
                    return d
                st.reset_logs()
                st.BERNOULLI_HOOK[0] = hook
                s0 = _c(starts)
                keep = s0.clone()
                tag = "[k=%d overwrite=%s pattern=%d]" % (k, ow_arg, pat)
                try:
                    with _only_bernoulli():
                        out = rbm.gibbs_steps(k, s0, overwrite=overwrite) if ow_arg in (False, True) else rbm.gibbs_steps(k, s0)
                except _ForeignDraw as e:
                    # units drawn by comparing the conditional with noise of the library's own making: the law of the draw is
                    # then that noise's, not Bernoulli(p) (single-precision uniforms put mass 2^-24 where p is 1e-13)
                    if getattr(e, "coarse", True):
                        ctx.holds("gibbs_steps/every unit is drawn by torch.bernoulli from its exact conditional (no other random source)" + tag, False, str(e))
                    else:
                        ctx.undecided("gibbs_steps/every unit is drawn by torch.bernoulli from its exact conditional" + tag, str(e))
                    continue
                finally:
                    st.BERNOULLI_HOOK[0] = None
                ctx.holds("gibbs_steps/every unit is drawn by torch.bernoulli from its exact conditional (no other random source)" + tag, True)
                log = list(st.RNG_LOG)
                shapes = [tuple(l[1].shape) for l in log]
                sep = ([(B, nh), (B, na), (B, nv)] if pur else [(B, nh), (B, nv)]) * k
                comb = [(B, nh + na), (B, nv)] * k              # hidden and auxiliary units drawn in one call, [h ; a]
                if shapes == sep:
                    layout = "separate"
                elif pur and shapes == comb:
                    layout = "combined"
                else:
                    # an unrecognised draw structure is not a violation by itself: the obligation stays undecided and
                    # the empirical k-step law of the bounded driver decides
                    ctx.undecided("gibbs_steps/draw-structure" + tag, "bernoulli calls had shapes %s; recognised: %s or %s" % (shapes, sep, comb if pur else "-"))
                    continue
                per = len(shapes) // k if k else 0
                cur = [list(map(int, r)) for r in starts]
                okshape = True
                for t in range(k):
                    if layout == "separate":
                        ph_rec, hd = log[per * t][1], draws[per * t]
                        pa_rec, ad = (log[per * t + 1][1], draws[per * t + 1]) if pur else (None, None)
                    else:
                        both, bd = log[per * t][1], draws[per * t]
                        ph_rec, pa_rec, hd, ad = both[:, :nh], both[:, nh:], bd[:, :nh], bd[:, nh:]
                    for b in range(B):
                        ctx.eq_arrays("gibbs_steps/h-drawn-from-P(h|current v)%s[step=%d chain=%d]" % (tag, t, b), ph_rec[b], cond_h(cur[b]), z3_confirm=False)
                    if pur:
                        for b in range(B):
                            ctx.eq_arrays("gibbs_steps/a-drawn-from-P(a|current v)%s[step=%d chain=%d]" % (tag, t, b), pa_rec[b], cond_a(cur[b]), z3_confirm=False)
                    pv_rec = log[per * t + per - 1][1]
                    vd = draws[per * t + per - 1]
                    for b in range(B):
                        ctx.eq_arrays("gibbs_steps/v-drawn-from-P(v|those draws)%s[step=%d chain=%d]" % (tag, t, b), pv_rec[b],
                                      cond_v(list(map(int, hd[b])), list(map(int, ad[b])) if pur else None), z3_confirm=False)
                    cur = [list(map(int, r)) for r in vd]
                ctx.holds("gibbs_steps/draw-shapes" + tag, okshape)
                res = st._obj(out)
                ctx.holds("gibbs_steps/result-shape" + tag, tuple(res.shape) == (B, nv))
                ctx.holds("gibbs_steps/result-is-last-visible-draw-and-0/1" + tag,
                          all(res[b, i].is_const() and res[b, i].const_value() == cur[b][i] for b in range(B) for i in range(nv)))
                if overwrite:
                    inplace = (out is s0) or (isinstance(s0, st.SymTensor) and isinstance(out, st.SymTensor) and s0._stor is out._stor)
                    if k == 0:
                        inplace = inplace or (isinstance(out, st.SymTensor) and out._stor.twin is s0)
                    ctx.holds("gibbs_steps/overwrite=True-updates-caller-tensor-in-place" + tag, inplace and
                              all(st._obj(s0)[b, i].const_value() == cur[b][i] for b in range(B) for i in range(nv)))
                else:
                    ctx.holds("gibbs_steps/overwrite=False-leaves-caller-tensor-untouched" + tag,
                              not isinstance(s0, st.SymTensor) and torch.equal(s0, keep) and out is not s0
                              and not (isinstance(out, st.SymTensor) and out._stor.twin is s0))      # x.to(same dtype / device) is x itself
                # chains continued across calls: results handed out earlier are never touched again
                cur_vals = [[st._obj(out)[b, i].const_value() for i in range(nv)] for b in range(B)]
                fresh = all((o is not out) and not (isinstance(o, st.SymTensor) and isinstance(out, st.SymTensor) and o._stor is out._stor) for o, _s in earlier)
                intact = all([[st._obj(o)[b, i].const_value() for i in range(nv)] for b in range(B)] == snap for o, snap in earlier)
                ctx.holds("gibbs_steps/results of earlier calls are separate tensors and stay unchanged" + tag, fresh and intact)
                if not overwrite:
                    earlier.append((out, cur_vals))
                    del earlier[:-3]
                    # continue the chain from an earlier result without overwriting it
                    if k == 1 and pat == 0 and earlier:
                        src, snap = earlier[-1]
                        st.reset_logs()
                        st.BERNOULLI_HOOK[0] = hook
                        try:
                            out2 = rbm.gibbs_steps(1, src, overwrite=False)
                        finally:
                            st.BERNOULLI_HOOK[0] = None
                        same = [[st._obj(src)[b, i].const_value() for i in range(nv)] for b in range(B)] == snap
                        ctx.holds("gibbs_steps/a chain continued from an earlier result with overwrite=False leaves that result untouched" + tag,
                                  same and out2 is not src and not (isinstance(out2, st.SymTensor) and isinstance(src, st.SymTensor) and out2._stor is src._stor))
    # a single chain given as a 1-D state (also for one visible unit): the result has the start state's shape
    for k in (1, 2):
        for overwrite in (False, True):
            def hook1(probs):
                return np.array([[rnd.randint(0, 1) for _ in range(probs.shape[-1])] for _ in range(int(np.prod(probs.shape[:-1])) or 1)],
                                dtype=float).reshape(probs.shape)
            st.reset_logs()
            st.BERNOULLI_HOOK[0] = hook1
            s1 = _c(starts[-1])
            keep1 = s1.clone()
            try:
                out1 = rbm.gibbs_steps(k, s1, overwrite=overwrite)
            finally:
                st.BERNOULLI_HOOK[0] = None
            tag = "[k=%d overwrite=%s]" % (k, overwrite)
            r1 = st._obj(out1)
            ctx.holds("gibbs_steps/1-D start state: the result has shape (num_visible,)" + tag, tuple(r1.shape) == (nv,), "shape %s" % (tuple(r1.shape),))
            ctx.holds("gibbs_steps/1-D start state: entries are 0/1" + tag,
                      all(x.is_const() and x.const_value() in (0, 1) for x in r1.reshape(-1)))
            if not overwrite:
                ctx.holds("gibbs_steps/1-D start state: overwrite=False leaves it untouched" + tag, not isinstance(s1, st.SymTensor) and torch.equal(s1, keep1))
    ctx.frame("gibbs_steps/parameters-not-written")


# --------------------------------------------------------------------- purification RBM
def _purification(ctx, cfg):
    from qucumber.rbm import PurificationRBM
    from drivers import common as _DC
    canary = getattr(ctx, "canary", None)
    nv, nh, na = cfg["nv"], cfg["nh"], cfg["na"]
    rbm = _DC.copied(PurificationRBM(nv, nh, na, gpu=False))
    if cfg.get("module_mode") == "eval":
        rbm.eval()
    N.symbolize(rbm, "am")
    par = R.params_of(rbm)
    vs, hs, as_ = R.bits(nv), R.bits(nh), R.bits(na)
    ctx.under_contract("PurificationRBM.prob_h_given_v", "PurificationRBM.prob_a_given_v", "PurificationRBM.prob_v_given_ha",
                       "PurificationRBM.sample_h_given_v", "PurificationRBM.sample_a_given_v", "PurificationRBM.sample_v_given_ha",
                       "PurificationRBM.gibbs_steps")
    st.reset_logs()
    qh = rbm.prob_h_given_v(_c(vs))
    qa = rbm.prob_a_given_v(_c(vs))
    ctx.holds("prob_h_given_v/shape", tuple(qh.shape) == (len(vs), nh))
    ctx.holds("prob_a_given_v/shape", tuple(qa.shape) == (len(vs), na))
    small = nv * (nh + na) <= 8
    pi = [R.marginal_p_v(par, v) for v in vs]
    for r, v in enumerate(vs):
        # joint conditional of (h,a) given v factorises into the two reported vectors
        for hi, h in enumerate(hs):
            for ai, a in enumerate(as_):
                if not small and (hi + ai) % 3:
                    continue
                prod = ONE
                for j in range(nh):
                    prod = prod * (qh._arr[r, j] if h[j] else (1 - qh._arr[r, j]))
                for k in range(na):
                    prod = prod * (qa._arr[r, k] if a[k] else (1 - qa._arr[r, k]))
                ctx.eq("prob_(h,a)_given_v/factorises[v=%d h=%d a=%d]" % (r, hi, ai), prod * pi[r],
                       alg.exp(-R.joint_energy_p(par, v, h, a)), z3_confirm=False)
    pairs = [(h, a) for h in hs for a in as_]
    pv = rbm.prob_v_given_ha(_c([h for h, a in pairs]), _c([a for h, a in pairs]))
    ctx.holds("prob_v_given_ha/shape", tuple(pv.shape) == (len(pairs), nv))
    for r, (h, a) in enumerate(pairs):
        zha = ZERO
        for v in vs:
            zha = zha + alg.exp(-R.joint_energy_p(par, v, h, a))
        for vi, v in enumerate(vs):
            if not small and (r + vi) % 3:
                continue
            prod = ONE
            for i in range(nv):
                prod = prod * (pv._arr[r, i] if v[i] else (1 - pv._arr[r, i]))
            ctx.eq("prob_v_given_ha/factorises[ha=%d v=%d]" % (r, vi), prod * zha, alg.exp(-R.joint_energy_p(par, v, h, a)), z3_confirm=False)
    p1 = rbm.prob_v_given_ha(_c(pairs[-1][0]), _c(pairs[-1][1]))
    ctx.eq_arrays("prob_v_given_ha/vector-form", p1, pv._arr[-1], z3_confirm=False)
    ctx.frame("conditionals/frame")

    def cond_a(v):
        r = vs.index(tuple(v))
        if canary == "spec-aux-from-new-v":
            return qa._arr[(r + 1) % len(vs)]
        return qa._arr[r]
    if nv <= 3:
        _gibbs(ctx, rbm, nv, nh, na, lambda v: qh._arr[vs.index(tuple(v))],
               lambda h, a: pv._arr[pairs.index((tuple(h), tuple(a)))], cond_a)

    A = [[alg.exp(-R.joint_energy_p(par, v, h, a)) for (h, a) in pairs] for v in vs]
    IZ = [alg.uf("invZ[ha=%d]" % i, "pos") for i in range(len(pairs))]

    def piK(r, s_):
        tot = ZERO
        for i in range(len(pairs)):
            tot = tot + A[r][i] * (A[s_][i] * IZ[i])
        return tot
    for r in range(len(vs)):
        for s_ in range(r + 1, len(vs)):
            ctx.eq("lemma/detailed-balance: pi(v)K(v,v') == pi(v')K(v',v)[%d,%d]" % (r, s_), piK(r, s_), piK(s_, r), z3_confirm=False)
    for r in range(len(vs)):
        tot = ZERO
        for i in range(len(pairs)):
            tot = tot + A[r][i]
        ctx.eq("lemma/pi-is-the-reported-distribution[%d]" % r, tot, pi[r], z3_confirm=False)
    _history(ctx, rbm, lambda: PurificationRBM(nv, nh, na, gpu=False),
             [("prob_h_given_v", (_c(vs),)), ("prob_a_given_v", (_c(vs),)),
              ("prob_v_given_ha", (_c([h for h, a in pairs]), _c([a for h, a in pairs])))])


def _history(ctx, rbm, mk_ref, calls):
    """History: the conditionals have been used; now the parameters are replaced through `.data` (as the tutorials and
    load() do) and scaled in place.  Every conditional must follow the current parameters: it has to agree with a
    fresh network object holding the same parameter values (whose conditionals were just proved exact)."""
    st.reset_logs()
    names = [n for n, _p in rbm.named_parameters()]
    for step, change in (("replaced through .data", "assign"), ("scaled in place through .data", "scale")):
        for n in names:
            p = getattr(rbm, n)
            if change == "assign":
                p.data = st.fresh(tuple(p.shape), "new_" + n)
            else:
                p.data *= 2
        ref = mk_ref()
        N.symbolize(ref, "ref", frozen=False)
        for n in names:
            getattr(ref, n).data = st.SymTensor(getattr(rbm, n)._arr.copy())
        for fname, args in calls:
            got = getattr(rbm, fname)(*args)
            want = getattr(ref, fname)(*args)
            ctx.eq_arrays("history/%s follows parameters %s" % (fname, step), got, want, z3_confirm=False)
    st.reset_logs()


# --------------------------------------------------------------------- NeuralStateBase.sample
def _sample(ctx, cfg):
    from drivers import common as DC
    state = DC.make_state(cfg["kind"], cfg["nv"], cfg["nh"], cfg["na"])
    ctx.under_contract("NeuralStateBase.sample")
    calls = []

    def stub(k, initial_state, overwrite=False):
        calls.append((k, initial_state, overwrite))
        return "RESULT"
    with N.stubbed(state.rbm_am, "gibbs_steps", stub):
        ctx.stub("gibbs_steps")
        s0 = torch.tensor([[0., 1.], [1., 1.], [0., 0.]], dtype=torch.double)
        for ow in (False, True):
            del calls[:]
            r = state.sample(k=5, initial_state=s0, overwrite=ow)
            ctx.holds("sample/passes-k-start-state-and-overwrite-through[overwrite=%s]" % ow,
                      r == "RESULT" and len(calls) == 1 and calls[0][0] == 5 and calls[0][1] is s0 and calls[0][2] is ow, str(calls)[:200])
        del calls[:]
        r = state.sample(k=3, num_samples=7)
        ok = r == "RESULT" and len(calls) == 1 and calls[0][0] == 3 and tuple(calls[0][1].shape) == (7, cfg["nv"]) \
            and calls[0][1].dtype == torch.double and bool(((calls[0][1] == 0) | (calls[0][1] == 1)).all())
        ctx.holds("sample/default-start-is-a-0/1-array-of-the-requested-shape", ok, str(calls)[:200])
    # history: chains continued over several sample() calls follow the powers of the kernel only if every call consumes
    # fresh randomness: the global generator is left exactly where the chain's own draws left it (no save / restore
    # around the chain, no reseeding)
    def drawing_stub(k, initial_state, overwrite=False):
        torch.rand(4)                       # the chain's draws, from the global generator
        return initial_state
    with N.stubbed(state.rbm_am, "gibbs_steps", drawing_stub):
        torch.manual_seed(1234)
        before = torch.get_rng_state()
        state.sample(k=1, initial_state=torch.zeros(2, cfg["nv"], dtype=torch.double))
        after = torch.get_rng_state()
        torch.set_rng_state(before)
        torch.rand(4)
        expected = torch.get_rng_state()
        ctx.holds("sample/history: the global generator is left where the chain's draws left it (successive calls get fresh randomness)",
                  torch.equal(after, expected) and not torch.equal(after, before))
    # the real chain end-to-end with concrete parameters: shape and 0/1 values
    out = state.sample(k=2, num_samples=5)
    ctx.holds("sample/result-shape-and-values", tuple(out.shape) == (5, cfg["nv"]) and bool(((out == 0) | (out == 1)).all()))


def replay(o):
    if o["cfg"].get("generic"):
        from contracts import gsets
        return gsets.replay("C05", o)
    from drivers import C05 as D
    env = (o.get("witness") or {}).get("env") or {}
    return D.replay(o["cfg"], env)
