"""C18 concrete driver: EarlyStopping on real evaluators with concrete value sequences."""
import itertools
import math

import numpy as np


class _State:
    stop_training = False


def run_sequence(values, patience, tol, criterion, period=1, variances=None):
    """Feed `values` one per epoch through a real MetricEvaluator / ObservableEvaluator history and a real EarlyStopping.
    Returns the epoch at which stop was requested (or None), or the exception raised."""
    from qucumber.callbacks import EarlyStopping, MetricEvaluator, ObservableEvaluator
    from qucumber.observables import SigmaZ
    if criterion == "variance" or variances is not None:
        ev = ObservableEvaluator(1, [SigmaZ()])
        name = "SigmaZ"
    else:
        ev = MetricEvaluator(1, {"m": lambda s: 0.0})
        name = "m"
    es = EarlyStopping(period, tol, patience, ev, name, criterion=criterion)
    st = _State()
    for e, v in enumerate(values, start=1):
        if name == "m":
            ev.past_values.append((e, {"m": v}))
        else:
            ev.past_values.append((e, {"SigmaZ": {"mean": v, "variance": (variances[e - 1] if variances else 1.0), "std_error": 0.0, "num_samples": 1}}))
        try:
            es.on_epoch_end(st, e)
        except Exception as ex:
            return ("raised", e, repr(ex))
        if st.stop_training:
            return ("stopped", e, es.last_epoch)
    return ("ran", None, None)


def oracle(values, patience, tol, criterion, period=1, variances=None):
    for e in range(1, len(values) + 1):
        if e % period:
            continue
        L = e
        if L < patience + 1:
            continue
        ref, cur = values[L - 1 - patience], values[L - 1]
        d = abs(ref - cur)
        if criterion == "absolute":
            dev = d
        elif criterion == "relative":
            dev = d / abs(ref) if ref != 0 else (0.0 if d == 0 else math.inf)
        else:
            var = variances[L - 1 - patience] if variances else 1.0
            dev = d / math.sqrt(var) if var > 0 else math.inf
        if dev < tol:
            return ("stopped", e, e)
    return ("ran", None, None)


def shared_evaluator():
    """Several stoppers may watch one evaluator: each applies its own rule to the shared record."""
    from qucumber.callbacks import EarlyStopping, MetricEvaluator
    vals = [3.0, 2.0, 1.5, 1.4, 1.39, 1.389, 1.3889, 1.38889, 1.388889]
    f = []
    for (pa, ta, ca), (pb, tb, cb) in (((1, 0.0, "absolute"), (2, 0.02, "absolute")), ((3, 1e-9, "relative"), (1, 0.2, "absolute")), ((2, 0.5, "relative"), (2, 0.5, "relative"))):
        ev = MetricEvaluator(1, {"m": lambda s: 0.0})
        a, b = EarlyStopping(1, ta, pa, ev, "m", criterion=ca), EarlyStopping(1, tb, pb, ev, "m", criterion=cb)
        wa, wb = oracle(vals, pa, ta, ca), oracle(vals, pb, tb, cb)
        want = min([w[1] for w in (wa, wb) if w[0] == "stopped"], default=None)
        st = _State()
        got = None
        for e, v in enumerate(vals, start=1):
            ev.past_values.append((e, {"m": v}))
            for cbk in (a, b):
                cbk.on_epoch_end(st, e)
            if st.stop_training:
                got = e
                break
        if got != want:
            f.append(({"two stoppers on one evaluator": [(pa, ta, ca), (pb, tb, cb)]}, ("stopped", got), ("stopped", want)))
    return f


def native_check(seed=0, quick=True):
    rng = np.random.default_rng(seed)
    fails = shared_evaluator()
    seqs = [[5, 1, 5, 1, 5, 1], [1.0] * 6, [3, 2, 1, 0.5, 0.5, 0.5, 0.5], [0.0, 0.0, 0.0, 0.0], [1, 0, 1, 0, 0, 0], [2, 2.05, 2.06, 2.061, 2.0611, 2.0611]]
    seqs += [list(np.round(rng.normal(size=7), 1)) for _ in range(4 if quick else 40)]
    for vals in seqs:
        vals = [float(v) for v in vals]
        for p in (1, 2, 3, 5):
            for tol in (0.0, 0.01, 0.2, math.inf):
                for crit in ("absolute", "relative", "variance"):
                    for period in (1, 2):
                        var = [1.0, 0.25, 4.0, 1.0, 0.0, 2.0, 1.0][:len(vals)] if crit == "variance" else None
                        got = run_sequence(vals, p, tol, crit, period, var)
                        want = oracle(vals, p, tol, crit, period, var)
                        if got != want:
                            fails.append(({"values": vals, "patience": p, "tolerance": tol, "criterion": crit, "period": period}, got, want))
                            if len(fails) > 5:
                                return fails
    return fails


def _num(s):
    from fractions import Fraction
    s = s.replace("?", "")
    try:
        return float(Fraction(s))
    except (ValueError, ZeroDivisionError):
        return float(s)


def two_runs(seed=0):
    """The same stopper over two runs with clear_history() in between must behave in the second run as a fresh one."""
    from qucumber.callbacks import EarlyStopping, MetricEvaluator
    fails = []
    for vals, p, tol in (([3, 2, 1, 1, 1, 1, 1], 2, 0.01), ([5, 4, 4, 4, 3, 3, 3, 3], 3, 0.05), ([1, 1, 1, 1], 1, 0.5)):
        vals = [float(v) for v in vals]
        ev = MetricEvaluator(1, {"m": lambda s: 0.0})
        es = EarlyStopping(1, tol, p, ev, "m", criterion="absolute")
        stops = []
        for run in range(2):
            ev.clear_history()
            st = _State()
            stop = None
            for e, v in enumerate(vals, start=1):
                ev.past_values.append((e, {"m": v}))
                es.on_epoch_end(st, e)
                if st.stop_training:
                    stop = e
                    break
            stops.append(stop)
        want = oracle(vals, p, tol, "absolute")[1]
        if stops != [want, want]:
            fails.append(({"values": vals, "patience": p, "tolerance": tol}, "runs stopped at %s, documented rule says %s in both" % (stops, want)))
    return fails


def mixed_periods():
    """Evaluator and stopper with periods that do not divide each other: at every epoch the stopper checks, the decision
    follows the documented rule on the evaluator's record as it stands (whenever those evaluations were made)."""
    from qucumber.callbacks import EarlyStopping, MetricEvaluator
    fails = []
    script = [5.0, 4.0, 3.5, 3.45, 3.44, 3.44, 3.44, 3.0, 3.0, 3.0, 3.0, 3.0]
    for pe, ps, pat, tol in ((3, 2, 1, 0.05), (2, 3, 1, 0.05), (3, 2, 2, 0.2), (2, 5, 1, 0.6)):
        cur = {"e": 0}
        ev = MetricEvaluator(pe, {"m": lambda s, **k: script[min(cur["e"] // pe, len(script) - 1)]})
        es = EarlyStopping(ps, tol, pat, ev, "m", criterion="absolute")
        st = _State()
        stop, want = None, None
        for e in range(1, 31):
            cur["e"] = e
            ev.on_epoch_end(st, e)
            if want is None and e % ps == 0:
                rec = [v["m"] for _e, v in ev.past_values]
                if len(rec) >= pat + 1 and abs(rec[-1 - pat] - rec[-1]) < tol:
                    want = e
            es.on_epoch_end(st, e)
            if st.stop_training:
                stop = e
                break
        if stop != want:
            fails.append(({"evaluator period": pe, "stopper period": ps, "patience": pat, "tolerance": tol},
                          "stopped at %s, documented rule says %s" % (stop, want)))
    return fails


def replay_model(cfg, model):
    """Run the real on_epoch_end once on the history described by the solver's counter-model."""
    from qucumber.callbacks import EarlyStopping, MetricEvaluator, ObservableEvaluator
    from qucumber.observables import SigmaZ
    try:
        L, p, period, epoch = (int(model["@" + k]) for k in ("L", "patience", "period", "epoch"))
        tol = _num(model["@tolerance"])
    except (KeyError, ValueError):
        return None
    if not (0 <= L <= 10 and p >= 1 and period >= 1):
        return None
    vals = [_num(model["@m[%d]" % i]) for i in range(L)]
    var = [max(_num(model["@var[%d]" % i]), 0.0) for i in range(L)]
    crit = cfg["criterion"]
    if cfg["evaluator"] == "metric":
        ev = MetricEvaluator(1, {"m": lambda s: 0.0})
        ev.past_values = [(e + 1, {"m": v}) for e, v in enumerate(vals)]
        name = "m"
    else:
        ev = ObservableEvaluator(1, [SigmaZ()])
        ev.past_values = [(e + 1, {"SigmaZ": {"mean": v, "variance": var[e]}}) for e, v in enumerate(vals)]
        name = "SigmaZ"
    es = EarlyStopping(period, tol, p, ev, name, criterion=crit)
    st = _State()
    try:
        es.on_epoch_end(st, epoch)
        got = "stopped" if st.stop_training else "ran"
    except Exception as ex:
        got = "raised %r" % (ex,)
    want = "ran"
    if epoch % period == 0 and L >= p + 1:
        ref, cur = vals[L - 1 - p], vals[L - 1]
        d = abs(ref - cur)
        dev = d if crit == "absolute" else ((d / abs(ref)) if ref != 0 else (0.0 if d == 0 else math.inf)) if crit == "relative" \
            else (d / math.sqrt(var[L - 1 - p]) if var[L - 1 - p] > 0 else math.inf)
        want = "stopped" if dev < tol else "ran"
    return {"history": vals, "variances": var if crit == "variance" else None, "patience": p, "period": period, "tolerance": tol,
            "epoch": epoch, "criterion": crit, "real_code": got, "documented_rule": want, "reproduced": got != want}


def replay(cfg, model, short):
    if cfg.get("part") == "rule" and model:
        r = replay_model(cfg, model)
        if r is not None and r["reproduced"]:
            return {"reproduced": True, "failed_clauses": [("on_epoch_end on the solver's history", str(r))], "solver_model": {k: v for k, v in model.items() if k.startswith("@")}}
    f = native_check(0, True) + [(a, b, "same in both runs") for a, b in two_runs(0)] + [(a, b, "mixed periods") for a, b in mixed_periods()]
    if cfg.get("criterion"):
        f = [x for x in f if x[0].get("criterion") == cfg["criterion"]] or f
    return {"reproduced": bool(f), "failed_clauses": [(str(a), "got %s want %s" % (g, w)) for a, g, w in f[:3]], "solver_model": model}


def bounded(tier, seed):
    f = native_check(seed, tier == "quick") + [(a, b, "same in both runs") for a, b in two_runs(seed)] + [(a, b, "mixed periods") for a, b in mixed_periods()]
    return {"driver": "drivers/C18.native_check", "label": "bounded", "evaluations": (10 if tier == "quick" else 46) * 4 * 4 * 3 * 2, "failures": len(f),
            "bound": "concrete sequences (oscillating, constant, zeros, random) x patience 1,2,3,5 x tolerance 0,0.01,0.2,inf x 3 criteria x period 1,2",
            "first_failures": [(str(a), str(g), str(w)) for a, g, w in f[:3]]}
