"""Ghost objects for front end A: python stand-ins whose attributes hold symbolic values."""
import z3

from qv import astvc as A
from qv.astvc import SymInt, SymReal, SymBool, VC


class GhostState:
    """Stand-in for a NeuralStateBase as seen by callbacks: the sticky stop flag, with a write log."""

    def __init__(self, stop=False):
        self._stop = stop
        self.stop_writes = []
        self.other_writes = []

    @property
    def stop_training(self):
        return self._stop

    @stop_training.setter
    def stop_training(self, v):
        self.stop_writes.append(v)
        self._stop = v

    def __setattr__(self, k, v):
        if k not in ("_stop", "stop_writes", "other_writes", "stop_training"):
            self.other_writes.append(k)
        object.__setattr__(self, k, v)


class _AnyKey:
    def __init__(self, f):
        self.f = f

    def __getitem__(self, k):
        return self.f(k)

    def get(self, k, default=None):
        return self.f(k)


class _GhostRecords:
    def __init__(self, ev):
        self.ev = ev
        self.ep = z3.Array("ep_%d" % id(ev), z3.IntSort(), z3.IntSort())

    def sym_len(self):
        return self.ev.L

    def __getitem__(self, index):
        ev = self.ev
        idx = ev._pos(index)
        ev.reads.append(idx)
        epoch = A.SymInt(z3.Select(self.ep, A._z(idx)))
        if ev.kind == "metric":
            return (epoch, _AnyKey(lambda k: SymReal(z3.Select(ev.vals, A._z(idx)))))
        return (epoch, _AnyKey(lambda k: {"mean": SymReal(z3.Select(ev.vals, A._z(idx))), "variance": SymReal(z3.Select(ev.vars_, A._z(idx)))}))


class GhostEvaluator:
    """Stand-in for Metric/ObservableEvaluator: an evaluation history of symbolic length L with symbolic
    values (and variances).  `kind` decides what sandbox isinstance() answers."""

    def __init__(self, vc, kind, L):
        self.vc, self.kind, self.L = vc, kind, L
        self.period = vc.fresh_int("evaluator_period", 1)      # the evaluator has its own period, unrelated to the stopper's
        self.vals = z3.Array("m_%d" % id(self), z3.IntSort(), z3.RealSort())
        self.vars_ = z3.Array("var_%d" % id(self), z3.IntSort(), z3.RealSort())
        self.reads = []

    def _ghost_isinstance(self, cls):
        from qucumber.callbacks import MetricEvaluator, ObservableEvaluator
        cl = cls if isinstance(cls, tuple) else (cls,)
        want = MetricEvaluator if self.kind == "metric" else ObservableEvaluator
        return any(c is want or (isinstance(c, type) and issubclass(want, c)) for c in cl)

    def sym_len(self):
        return self.L

    def _pos(self, index):
        index = -1 if index is None else index
        idx = A.ITE(index < 0, self.L + index, index) if isinstance(index, A.Sym) else (self.L + index if index < 0 else index)
        self.vc.no_exception("IndexError", A.AND(idx >= 0, idx < self.L), "evaluation history index out of range")
        return idx

    def get_value(self, name, index=None):
        idx = self._pos(index)
        self.reads.append(idx)
        if self.kind == "metric":
            return SymReal(z3.Select(self.vals, A._z(idx)))
        return {"mean": SymReal(z3.Select(self.vals, A._z(idx))), "variance": SymReal(z3.Select(self.vars_, A._z(idx)))}

    def value(self, idx):
        return SymReal(z3.Select(self.vals, A._z(idx)))

    @property
    def past_values(self):
        """The raw record list of the real evaluators: entries (epoch of the evaluation, values).  The epochs are
        arbitrary (the evaluator has its own period and position in the callback list)."""
        return _GhostRecords(self)

    def variance(self, idx):
        return SymReal(z3.Select(self.vars_, A._z(idx)))
