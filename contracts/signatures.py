"""Signature contracts: the documented positional order of the parameters of the public callables a property is stated
over (contracts/signatures.json, taken from the pinned tree) is kept.  A parameter may be appended; one that is inserted
in front of existing ones, or two that change places, silently re-bind the arguments of every positional caller."""
import importlib
import inspect
import json
import os

TABLE = os.path.join(os.path.dirname(os.path.abspath(__file__)), "signatures.json")


def _resolve(path):
    parts = path.split(".")
    for i in range(len(parts), 0, -1):
        try:
            obj = importlib.import_module(".".join(parts[:i]))
            for p in parts[i:]:
                obj = getattr(obj, p)
            return obj
        except (ImportError, AttributeError):
            continue
    raise KeyError(path)


def table(prop):
    return json.load(open(TABLE))["signatures"].get(prop, {})


def check(ctx, prop):
    for path, want in table(prop).items():
        names = [w[0] for w in want]
        try:
            f = _resolve(path)
        except KeyError:
            ctx.holds("signature/%s exists" % path, False, "not found")
            continue
        ctx.under_contract(path.split("qucumber.")[-1])
        ps = [n for n, q in inspect.signature(f).parameters.items() if q.kind in (q.POSITIONAL_ONLY, q.POSITIONAL_OR_KEYWORD) and n != "self"]
        ctx.holds("signature/%s: the documented positional parameters (%s) come first, in this order" % (path.split("qucumber.")[-1], ", ".join(names)),
                  ps[:len(names)] == names, "now (%s)" % ", ".join(ps))


def replay(prop):
    bad = []
    for path, want in table(prop).items():
        names = [w[0] for w in want]
        try:
            f = _resolve(path)
        except KeyError:
            bad.append((path, "not found"))
            continue
        ps = [n for n, q in inspect.signature(f).parameters.items() if q.kind in (q.POSITIONAL_ONLY, q.POSITIONAL_OR_KEYWORD) and n != "self"]
        if ps[:len(names)] != names:
            bad.append((path, "positional parameters are now (%s), documented (%s): a positional call binds other arguments" % (", ".join(ps), ", ".join(names))))
    return {"reproduced": bool(bad), "failed_clauses": bad[:4]}
